"""Shared reference model used by the demo programs (copied verbatim in each).

Independent re-implementation of the C05 observation model:

* view cell (i, j) of a view area (ymin..ymax, xmin..xmax) has agent-frame
  coordinates (ymin + i, xmin + j);
* the agent-frame vector (y, x) is mapped to the world by the heading:
  F: (y, x)   B: (-y, -x)   R: (x, -y)   L: (-x, y)
  and then translated by the agent position;
* out-of-grid cells are Hidden; in-grid cells are Hidden or *are* (identity)
  the world object.
"""
import itertools
import math
import os
import random
import sys

sys.path.insert(0, os.getcwd())

import numpy as np  # noqa: E402

from gym_gridverse.agent import Agent  # noqa: E402
from gym_gridverse.envs import observation_functions as ofs  # noqa: E402
from gym_gridverse.envs import visibility_functions as vfs  # noqa: E402
from gym_gridverse.geometry import Area, Orientation, Position  # noqa: E402
from gym_gridverse.grid import Grid  # noqa: E402
from gym_gridverse.grid_object import (  # noqa: E402
    Beacon,
    Box,
    Color,
    Door,
    Exit,
    Floor,
    Hidden,
    Key,
    MovingObstacle,
    NoneGridObject,
    Telepod,
    Wall,
)
from gym_gridverse.observation import Observation  # noqa: E402
from gym_gridverse.state import State  # noqa: E402

ORIENTATIONS = [
    Orientation.FORWARD,
    Orientation.BACKWARD,
    Orientation.LEFT,
    Orientation.RIGHT,
]

CHECKS = {'n': 0}


def check(condition, message=''):
    CHECKS['n'] += 1
    if not condition:
        raise AssertionError(message)


# --------------------------------------------------------------------------
# independent geometry


def ref_rotate(orientation, y, x):
    name = orientation.name
    if name == 'FORWARD':
        return y, x
    if name == 'BACKWARD':
        return -y, -x
    if name == 'RIGHT':
        return x, -y
    if name == 'LEFT':
        return -x, y
    raise AssertionError(name)


def ref_world_cell(agent_y, agent_x, orientation, area_ys, area_xs, i, j):
    ry, rx = ref_rotate(orientation, area_ys[0] + i, area_xs[0] + j)
    return agent_y + ry, agent_x + rx


# --------------------------------------------------------------------------
# random worlds

OBJECT_MAKERS = [
    lambda r: Floor(),
    lambda r: Floor(),
    lambda r: Floor(),
    lambda r: Wall(),
    lambda r: Wall(),
    lambda r: Exit(),
    lambda r: Door(r.choice(list(Door.Status)), r.choice(list(Color))),
    lambda r: Key(r.choice(list(Color))),
    lambda r: MovingObstacle(),
    lambda r: Box(Key(r.choice(list(Color)))),
    lambda r: Telepod(r.choice(list(Color))),
    lambda r: Beacon(r.choice(list(Color))),
    lambda r: Hidden(),
]


def random_grid(r, height, width, wall_bias=0.0):
    rows = []
    for _ in range(height):
        row = []
        for _ in range(width):
            if r.random() < wall_bias:
                row.append(Wall())
            else:
                row.append(r.choice(OBJECT_MAKERS)(r))
        rows.append(row)
    return Grid(rows)


def random_item(r):
    choice = r.randrange(4)
    if choice == 0:
        return None
    if choice == 1:
        return Key(r.choice(list(Color)))
    if choice == 2:
        return Box(Floor())
    return NoneGridObject()


def snapshot(state):
    return (
        [list(row) for row in state.grid.objects],
        [id(row) for row in state.grid.objects],
        id(state.grid.objects),
        state.agent.position,
        state.agent.orientation,
        state.agent.grid_object,
        state.grid.shape,
        state.grid.area,
    )


def check_unchanged(state, snap):
    rows, row_ids, objects_id, pos, ori, item, shape, area = snap
    check(id(state.grid.objects) == objects_id, 'state grid rows replaced')
    check(
        [id(row) for row in state.grid.objects] == row_ids,
        'state grid row lists replaced',
    )
    for row_now, row_then in zip(state.grid.objects, rows):
        check(len(row_now) == len(row_then), 'state row length changed')
        for a, b in zip(row_now, row_then):
            check(a is b, 'state grid object replaced')
    check(state.agent.position == pos, 'agent moved')
    check(state.agent.orientation is ori, 'agent turned')
    check(state.agent.grid_object is item, 'agent item replaced')
    check(state.grid.shape == shape and state.grid.area == area, 'shape')


# --------------------------------------------------------------------------
# the C05 property on one observation


def check_observation(state, area_ys, area_xs, observation, *, expect_all):
    """Returns the boolean shown-mask (list of lists) of the observation."""
    height = area_ys[1] - area_ys[0] + 1
    width = area_xs[1] - area_xs[0] + 1
    world = state.grid.objects
    world_h, world_w = len(world), len(world[0])
    ay, ax = state.agent.position.y, state.agent.position.x

    check(isinstance(observation, Observation), 'not an Observation')
    grid = observation.grid
    check(isinstance(grid, Grid), 'not a Grid')
    check((grid.shape.height, grid.shape.width) == (height, width), 'shape')
    check(len(grid.objects) == height, 'rows')
    check(all(len(row) == width for row in grid.objects), 'cols')
    check(grid.area == Area((0, height - 1), (0, width - 1)), 'area')

    # agent: anchor cell, facing forward, held item unchanged (same object)
    check(observation.agent.position == Position(-area_ys[0], -area_xs[0]), 'anchor')
    check(observation.agent.orientation is Orientation.FORWARD, 'heading')
    check(observation.agent.grid_object is state.agent.grid_object, 'item')
    check(observation.agent is not state.agent, 'agent aliased')
    check(
        observation.agent.transform is not state.agent.transform,
        'transform aliased',
    )

    shown = []
    hidden_instances = set()
    for i in range(height):
        shown_row = []
        check(grid.objects[i] is not None, 'row')
        for j in range(width):
            obj = grid.objects[i][j]
            check(grid[Position(i, j)] is obj, 'getitem')
            wy, wx = ref_world_cell(
                ay, ax, state.agent.orientation, area_ys, area_xs, i, j
            )
            inside = 0 <= wy < world_h and 0 <= wx < world_w
            if not inside:
                check(type(obj) is Hidden, f'outside cell shown at {(i, j)}')
                shown_row.append(False)
            elif obj is world[wy][wx]:
                # NOTE a genuine Hidden in the world counts as shown
                shown_row.append(True)
            else:
                check(
                    type(obj) is Hidden,
                    f'cell {(i, j)} shows {obj!r}, world has {world[wy][wx]!r}',
                )
                shown_row.append(False)
                if expect_all:
                    raise AssertionError(f'in-grid cell {(i, j)} not shown')
            if type(obj) is Hidden and not (inside and obj is world[wy][wx]):
                # fresh Hidden objects are never shared between cells
                check(id(obj) not in hidden_instances, 'shared Hidden')
                hidden_instances.add(id(obj))
        shown.append(shown_row)

    # the observation's row lists are not the world's row lists
    world_row_ids = {id(row) for row in world}
    check(id(grid.objects) != id(world), 'rows aliased')
    for row in grid.objects:
        check(id(row) not in world_row_ids, 'row list aliased')
    return shown


# --------------------------------------------------------------------------
# independent visibility models (operate on the agent-frame view)


def ref_view(state, area_ys, area_xs):
    """view[i][j] -> (inside, blocks_vision) computed from the world directly"""
    height = area_ys[1] - area_ys[0] + 1
    width = area_xs[1] - area_xs[0] + 1
    world = state.grid.objects
    world_h, world_w = len(world), len(world[0])
    ay, ax = state.agent.position.y, state.agent.position.x
    view = []
    for i in range(height):
        row = []
        for j in range(width):
            wy, wx = ref_world_cell(
                ay, ax, state.agent.orientation, area_ys, area_xs, i, j
            )
            if 0 <= wy < world_h and 0 <= wx < world_w:
                row.append((True, bool(world[wy][wx].blocks_vision)))
            else:
                row.append((False, True))
        view.append(row)
    return view


def ref_partially_occluded(view, py, px):
    """iterative flood (two quadrant-wise sweeps), no recursion"""
    height, width = len(view), len(view[0])
    result = [[False] * width for _ in range(height)]
    for dx in (-1, +1):
        seen = [[False] * width for _ in range(height)]
        stack = [(py, px)]
        while stack:
            y, x = stack.pop()
            if not (0 <= y < height and 0 <= x < width):
                continue
            if seen[y][x]:
                continue
            seen[y][x] = True
            if not view[y][x][1]:
                stack.extend([(y - 1, x), (y, x + dx), (y - 1, x + dx)])
        for y in range(height):
            for x in range(width):
                result[y][x] = result[y][x] or seen[y][x]
    return result


_RAY_CACHE = {}


def ref_rays(py, px, height, width):
    key = (py, px, height, width)
    if key in _RAY_CACHE:
        return _RAY_CACHE[key]
    ys = np.linspace(0, height, num=height + 1) - 0.5 - py
    xs = np.linspace(0, width, num=width + 1) - 0.5 - px
    angles = sorted(
        float(np.arctan2(y, x)) for x in xs for y in ys
    )
    rays = []
    for angle in angles:
        dy = 0.01 * math.sin(angle)
        dx = 0.01 * math.cos(angle)
        ray = []
        seen = set()
        for k in itertools.count():
            y = round(float(py) + k * dy)
            x = round(float(px) + k * dx)
            if not (0 <= y < height and 0 <= x < width):
                break
            if (y, x) not in seen:
                seen.add((y, x))
                ray.append((y, x))
        rays.append(ray)
    _RAY_CACHE[key] = rays
    return rays


def ref_ray_counts(view, py, px):
    height, width = len(view), len(view[0])
    num = [[0] * width for _ in range(height)]
    den = [[0] * width for _ in range(height)]
    for ray in ref_rays(py, px, height, width):
        lit = True
        for y, x in ray:
            if lit:
                num[y][x] += 1
            den[y][x] += 1
            if view[y][x][1]:
                lit = False
    return num, den


def ref_raytracing(view, py, px, absolute_counts=True, threshold=1):
    num, den = ref_ray_counts(view, py, px)
    height, width = len(view), len(view[0])
    out = [[False] * width for _ in range(height)]
    for y in range(height):
        for x in range(width):
            if absolute_counts:
                out[y][x] = num[y][x] >= threshold
            elif den[y][x] == 0:
                out[y][x] = False  # nan >= threshold
            else:
                out[y][x] = (num[y][x] / den[y][x]) >= threshold
    return out


def ref_stochastic(view, py, px, seed):
    num, den = ref_ray_counts(view, py, px)
    height, width = len(view), len(view[0])
    rng = np.random.default_rng(seed)
    samples = rng.random((height, width))
    out = [[False] * width for _ in range(height)]
    for y in range(height):
        for x in range(width):
            prob = 0.0 if den[y][x] == 0 else num[y][x] / den[y][x]
            out[y][x] = bool(samples[y, x] < prob)
    return out, rng


def same_rng_state(a, b):
    sa, sb = a.bit_generator.state, b.bit_generator.state
    return repr(sa) == repr(sb)


# --------------------------------------------------------------------------
# case generation


def view_areas(r, n_random):
    """fixed interesting view areas + random ones, as ((ymin,ymax),(xmin,xmax))"""
    areas = [
        ((0, 0), (0, 0)),
        ((-1, 0), (-1, 1)),
        ((-2, 0), (-1, 1)),
        ((-6, 0), (-3, 3)),
        ((-3, 0), (-1, 2)),
        ((-2, 0), (-3, 0)),
        ((-2, 0), (0, 2)),
        ((-1, 1), (-1, 1)),
        ((-2, 2), (-2, 2)),
        ((-3, 1), (-1, 2)),
        ((0, 2), (0, 3)),
        ((0, 0), (-4, 4)),
        ((-4, 0), (0, 0)),
        ((-9, 0), (-9, 9)),
        # anchor outside of the view
        ((1, 2), (0, 1)),
        ((-3, -1), (-1, 1)),
        ((-1, 1), (1, 3)),
        ((-2, 0), (-4, -2)),
    ]
    for _ in range(n_random):
        ymin = r.randint(-4, 1)
        xmin = r.randint(-4, 1)
        areas.append(
            ((ymin, ymin + r.randint(0, 5)), (xmin, xmin + r.randint(0, 5)))
        )
    return areas


def anchor_in_view(area_ys, area_xs):
    return area_ys[0] <= 0 <= area_ys[1] and area_xs[0] <= 0 <= area_xs[1]


def agent_positions(height, width):
    """every cell for small grids; edges, corners and some interior otherwise"""
    if height * width <= 12:
        return [(y, x) for y in range(height) for x in range(width)]
    cells = {
        (0, 0),
        (0, width - 1),
        (height - 1, 0),
        (height - 1, width - 1),
        (0, width // 2),
        (height - 1, width // 2),
        (height // 2, 0),
        (height // 2, width - 1),
        (height // 2, width // 2),
        (1 % height, 1 % width),
    }
    return sorted(cells)


GRID_SHAPES = [(1, 1), (1, 4), (3, 1), (2, 2), (3, 4), (5, 5), (4, 7), (7, 3)]


def states(r, shapes=GRID_SHAPES, per_shape=2):
    for height, width in shapes:
        for k in range(per_shape):
            grid = random_grid(r, height, width, wall_bias=0.3 * k)
            for y, x in agent_positions(height, width):
                for orientation in ORIENTATIONS:
                    yield State(
                        grid,
                        Agent(Position(y, x), orientation, random_item(r)),
                    )


def run_property_sweep(seed, n_random_areas=6, per_shape=2):
    """End-to-end C05 sweep over all built-in observation functions."""
    r = random.Random(seed)
    areas = view_areas(r, n_random_areas)
    n_obs = 0
    for state in states(r, per_shape=per_shape):
        snap = snapshot(state)
        for area_ys, area_xs in areas:
            area = Area(area_ys, area_xs)
            anchor = (-area_ys[0], -area_xs[0])
            inside_anchor = anchor_in_view(area_ys, area_xs)
            view = ref_view(state, area_ys, area_xs)

            # fully transparent: always defined, shows everything in the grid
            obs = ofs.fully_transparent(state, area=area)
            shown = check_observation(state, area_ys, area_xs, obs, expect_all=True)
            check(
                shown == [[c[0] for c in row] for row in view],
                'fully_transparent mask',
            )
            check_unchanged(state, snap)
            n_obs += 1
            # registry lookup and factory give the same function behaviour
            obs2 = ofs.factory('fully_transparent', area=area)(state)
            check(
                check_observation(state, area_ys, area_xs, obs2, expect_all=True)
                == shown,
                'factory fully_transparent',
            )

            # partially occluded: only defined when the anchor is in the last row
            if area_ys[1] == 0:
                obs = ofs.partially_occluded(state, area=area)
                shown = check_observation(
                    state, area_ys, area_xs, obs, expect_all=False
                )
                expected = ref_partially_occluded(view, *anchor)
                expected = [
                    [e and c[0] for e, c in zip(er, vr)]
                    for er, vr in zip(expected, view)
                ]
                check(shown == expected, 'partially_occluded mask')
                check_unchanged(state, snap)
                n_obs += 1
            else:
                try:
                    ofs.partially_occluded(state, area=area)
                except NotImplementedError:
                    check(True)
                else:
                    raise AssertionError('expected NotImplementedError')

            # raytracing variants: defined when the anchor is inside the view
            if inside_anchor:
                obs = ofs.raytracing(state, area=area)
                shown = check_observation(
                    state, area_ys, area_xs, obs, expect_all=False
                )
                expected = ref_raytracing(view, *anchor)
                expected = [
                    [e and c[0] for e, c in zip(er, vr)]
                    for er, vr in zip(expected, view)
                ]
                check(shown == expected, 'raytracing mask')
                check_unchanged(state, snap)
                n_obs += 1

                for s in (0, 1, 12345):
                    rng = np.random.default_rng(s)
                    obs = ofs.stochastic_raytracing(state, area=area, rng=rng)
                    shown = check_observation(
                        state, area_ys, area_xs, obs, expect_all=False
                    )
                    expected, ref_rng = ref_stochastic(view, *anchor, s)
                    expected = [
                        [e and c[0] for e, c in zip(er, vr)]
                        for er, vr in zip(expected, view)
                    ]
                    check(shown == expected, 'stochastic_raytracing mask')
                    check(same_rng_state(rng, ref_rng), 'rng consumption')
                    check_unchanged(state, snap)
                    n_obs += 1
            else:
                for name in ('raytracing', 'stochastic_raytracing'):
                    try:
                        ofs.observation_function_registry[name](
                            state, area=area, rng=np.random.default_rng(0)
                        )
                    except ValueError:
                        check(True)
                    else:
                        raise AssertionError('expected ValueError')
                check_unchanged(state, snap)
    return n_obs


# ==========================================================================
# demo A: focused on observation_functions.from_visibility
# ==========================================================================


def run_from_visibility_custom(seed):
    """from_visibility with arbitrary (custom) visibility functions."""
    r = random.Random(seed)
    areas = view_areas(r, 8)
    n = 0
    for state in states(r, per_shape=1):
        snap = snapshot(state)
        world = state.grid.objects
        for area_ys, area_xs in areas:
            area = Area(area_ys, area_xs)
            height, width = area.height, area.width
            view = ref_view(state, area_ys, area_xs)
            nprng = np.random.default_rng(r.randrange(10**6))
            kind = r.randrange(5)
            if kind == 0:
                mask = nprng.random((height, width)) < 0.5
            elif kind == 1:
                mask = (nprng.random((height, width)) < 0.7).astype(int)
            elif kind == 2:
                mask = np.zeros((height, width), dtype=bool)
            elif kind == 3:
                mask = np.ones((height, width), dtype=bool)
            else:
                mask = nprng.random((height, width)).round(0)  # floats 0./1.
            calls = []
            the_rng = r.choice([None, nprng])

            def visibility_function(grid, position, *args, **kwargs):
                # what the visibility function sees: the unmasked view
                calls.append((grid, position, args, dict(kwargs)))
                check(isinstance(grid, Grid), 'grid type')
                check(
                    (grid.shape.height, grid.shape.width) == (height, width),
                    'view shape given to the visibility function',
                )
                for i in range(height):
                    for j in range(width):
                        wy, wx = ref_world_cell(
                            state.agent.position.y,
                            state.agent.position.x,
                            state.agent.orientation,
                            area_ys,
                            area_xs,
                            i,
                            j,
                        )
                        if view[i][j][0]:
                            check(grid.objects[i][j] is world[wy][wx], 'raw view')
                        else:
                            check(type(grid.objects[i][j]) is Hidden, 'raw view')
                return mask

            obs = ofs.from_visibility(
                state,
                area=area,
                visibility_function=visibility_function,
                rng=the_rng,
            )
            check(len(calls) == 1, 'visibility function called once')
            grid_arg, position_arg, args, kwargs = calls[0]
            check(args == (), 'positional arguments')
            check(list(kwargs) == ['rng'] and kwargs['rng'] is the_rng, 'rng')
            check(position_arg == Position(-area_ys[0], -area_xs[0]), 'anchor')
            check(type(position_arg) is Position, 'anchor type')
            check(obs.grid is grid_arg, 'observation grid is the masked view')
            shown = check_observation(
                state, area_ys, area_xs, obs, expect_all=False
            )
            expected = [
                [bool(mask[i, j]) and view[i][j][0] for j in range(width)]
                for i in range(height)
            ]
            check(shown == expected, 'custom mask')
            check_unchanged(state, snap)
            n += 1

            # through the factory (keyword binding) -- same thing
            function = ofs.factory(
                'from_visibility',
                area=area,
                visibility_function=lambda g, p, *, rng=None: mask,
            )
            shown2 = check_observation(
                state, area_ys, area_xs, function(state), expect_all=False
            )
            check(shown2 == expected, 'factory custom mask')

            # wrong visibility shapes are rejected, with the same message
            for bad_shape in [
                (height + 1, width),
                (height, width + 1),
                (width + 1, height + 2),
                (height * width + 1,),
            ]:
                try:
                    ofs.from_visibility(
                        state,
                        area=area,
                        visibility_function=lambda g, p, *, rng=None: np.ones(
                            bad_shape, dtype=bool
                        ),
                    )
                except ValueError as error:
                    check(
                        str(error)
                        == f'incorrect visibility shape ({bad_shape}), '
                        f'should be {(height, width)}',
                        'error message',
                    )
                else:
                    raise AssertionError('expected ValueError')
            check_unchanged(state, snap)
    return n


def run_signature_checks():
    import inspect

    signature = inspect.signature(ofs.from_visibility)
    check(
        list(signature.parameters)
        == ['state', 'area', 'visibility_function', 'rng'],
        'signature',
    )
    kinds = [p.kind for p in signature.parameters.values()]
    check(kinds[0] is inspect.Parameter.POSITIONAL_OR_KEYWORD, 'state kind')
    check(
        all(k is inspect.Parameter.KEYWORD_ONLY for k in kinds[1:]),
        'keyword-only',
    )
    check(signature.parameters['rng'].default is None, 'rng default')
    for name in [
        'from_visibility',
        'fully_transparent',
        'partially_occluded',
        'raytracing',
        'stochastic_raytracing',
    ]:
        check(name in ofs.observation_function_registry, name)
        check(
            ofs.observation_function_registry[name] is getattr(ofs, name), name
        )
    try:
        ofs.factory('from_visibility', area=Area((0, 0), (0, 0)))
    except ValueError:
        check(True)
    else:
        raise AssertionError('missing visibility_function must be rejected')


if __name__ == '__main__':
    run_signature_checks()
    n_custom = run_from_visibility_custom(2024)
    n_builtin = run_property_sweep(7, n_random_areas=4, per_shape=1)
    print(
        f'demo A ok: {n_custom} custom-visibility observations, '
        f'{n_builtin} built-in observations, {CHECKS["n"]} checks'
    )
