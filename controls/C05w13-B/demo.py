"""Demo for change B (Orientation * Area through two rotated corners).

Run from the worktree root:  /venv/bin/python _seed/B/demo.py

Exits 0 on the pristine tree and with the patch applied.  Checks

* the rotation / placement of areas against hard-coded expectations, against
  the table of bounds that the pristine code spells out (embedded here), and
  against the image of the cells of the area;
* property C05 (observations are sound) with an embedded reference
  implementation that never multiplies an Orientation / Transform by an Area.
"""
import itertools as itt
import os
import sys

sys.path.insert(0, os.getcwd())  # the worktree root

import numpy.random as rnd

from gym_gridverse.agent import Agent
from gym_gridverse.envs import observation_functions as ofs
from gym_gridverse.envs.visibility_functions import visibility_function_registry
from gym_gridverse.geometry import (
    Area,
    Orientation,
    Position,
    Transform,
)
from gym_gridverse.grid import Grid
from gym_gridverse.grid_object import (
    Beacon,
    Box,
    Color,
    Door,
    Exit,
    Floor,
    Hidden,
    Key,
    MovingObstacle,
    Telepod,
    Wall,
)
from gym_gridverse.state import State

CHECKS = 0


def check(condition, message):
    global CHECKS
    CHECKS += 1
    if not condition:
        print('FAIL:', message)
        sys.exit(1)


# ------------------------------------------------------- areas, in isolation

# the bounds as the pristine tree writes them, one entry per orientation
REFERENCE_BOUNDS = {
    Orientation.F: lambda a: ((a.ymin, a.ymax), (a.xmin, a.xmax)),
    Orientation.B: lambda a: ((-a.ymax, -a.ymin), (-a.xmax, -a.xmin)),
    Orientation.R: lambda a: ((a.xmin, a.xmax), (-a.ymax, -a.ymin)),
    Orientation.L: lambda a: ((-a.xmax, -a.xmin), (a.ymin, a.ymax)),
}

# rotation of a single cell, written independently of the library
REFERENCE_ROTATION = {
    Orientation.F: lambda dy, dx: (dy, dx),
    Orientation.B: lambda dy, dx: (-dy, -dx),
    Orientation.R: lambda dy, dx: (dx, -dy),
    Orientation.L: lambda dy, dx: (-dx, dy),
}


def exact(area, ys, xs):
    """same value, and plain ints in plain tuples"""
    return (
        type(area) is Area
        and type(area.ys) is tuple
        and type(area.xs) is tuple
        and area.ys == ys
        and area.xs == xs
        and all(type(v) is int for v in area.ys + area.xs)
    )


def hard_coded_areas():
    default = Area((-6, 0), (-3, 3))  # the 7x7 view of the built-in envs
    lopsided = Area((-3, 1), (-1, 4))
    behind = Area((2, 5), (-7, -6))  # does not contain the origin
    cell = Area((0, 0), (0, 0))
    far = Area((-1000000, 3), (7, 2000000))

    table = {
        (Orientation.F, default): ((-6, 0), (-3, 3)),
        (Orientation.B, default): ((0, 6), (-3, 3)),
        (Orientation.R, default): ((-3, 3), (0, 6)),
        (Orientation.L, default): ((-3, 3), (-6, 0)),
        (Orientation.F, lopsided): ((-3, 1), (-1, 4)),
        (Orientation.B, lopsided): ((-1, 3), (-4, 1)),
        (Orientation.R, lopsided): ((-1, 4), (-1, 3)),
        (Orientation.L, lopsided): ((-4, 1), (-3, 1)),
        (Orientation.F, behind): ((2, 5), (-7, -6)),
        (Orientation.B, behind): ((-5, -2), (6, 7)),
        (Orientation.R, behind): ((-7, -6), (-5, -2)),
        (Orientation.L, behind): ((6, 7), (2, 5)),
        (Orientation.F, cell): ((0, 0), (0, 0)),
        (Orientation.B, cell): ((0, 0), (0, 0)),
        (Orientation.R, cell): ((0, 0), (0, 0)),
        (Orientation.L, cell): ((0, 0), (0, 0)),
        (Orientation.F, far): ((-1000000, 3), (7, 2000000)),
        (Orientation.B, far): ((-3, 1000000), (-2000000, -7)),
        (Orientation.R, far): ((7, 2000000), (-3, 1000000)),
        (Orientation.L, far): ((-2000000, -7), (-1000000, 3)),
    }
    for (orientation, area), (ys, xs) in table.items():
        label = f'{orientation.name} * {area}'
        check(exact(orientation * area, ys, xs), f'{label}: {orientation * area}')
        check(exact(area * orientation, ys, xs), f'{label}: reflected operand')

    # placed at a pose (what from_visibility does)
    check(
        exact(
            Transform(Position(2, 5), Orientation.R) * default,
            (-1, 5),
            (5, 11),
        ),
        'pose R at (2, 5)',
    )
    check(
        exact(
            Transform(Position(0, 0), Orientation.L) * lopsided,
            (-4, 1),
            (-3, 1),
        ),
        'pose L at (0, 0)',
    )
    check(
        exact(
            Agent(Position(4, 1), Orientation.B).transform * lopsided,
            (3, 7),
            (-3, 2),
        ),
        'pose B at (4, 1)',
    )


def exhaustive_areas():
    bounds = range(-3, 4)
    areas = [
        Area((y0, y1), (x0, x1))
        for y0, y1, x0, x1 in itt.product(bounds, repeat=4)
        if y0 <= y1 and x0 <= x1
    ]
    check(len(areas) == 28 * 28, 'number of areas')
    for area, orientation in itt.product(areas, Orientation):
        rotated = orientation * area
        ys, xs = REFERENCE_BOUNDS[orientation](area)
        label = f'{orientation.name} * {area}'
        check(exact(rotated, ys, xs), f'{label}: {rotated}')
        check(hash(rotated) == hash(Area(ys, xs)), f'{label}: hash')
        check(
            (rotated.height, rotated.width)
            == (
                (area.height, area.width)
                if orientation in (Orientation.F, Orientation.B)
                else (area.width, area.height)
            ),
            f'{label}: extent',
        )
        # the operand is left alone (frozen dataclass, but still)
        check(area == Area(area.ys, area.xs), f'{label}: operand')

    # image of the cells, on a thinner family (quadratic otherwise)
    for area, orientation in itt.product(areas[::7], Orientation):
        rotated = orientation * area
        image = {
            REFERENCE_ROTATION[orientation](y, x)
            for y in range(area.ymin, area.ymax + 1)
            for x in range(area.xmin, area.xmax + 1)
        }
        cells = {p.yx for p in rotated.positions()}
        check(cells == image, f'{orientation.name} * {area}: image of cells')
        # and position-wise through the library's own rotation
        check(
            {(orientation * p).yx for p in area.positions()} == cells,
            f'{orientation.name} * {area}: library image of cells',
        )

    # group structure: composing orientations composes the rotations
    for area in areas[::11]:
        for first, second in itt.product(Orientation, repeat=2):
            check(
                first * (second * area) == (first * second) * area,
                f'{first.name} * ({second.name} * {area})',
            )
        for orientation in Orientation:
            check(
                -orientation * (orientation * area) == area,
                f'inverse of {orientation.name} on {area}',
            )

    # poses
    rng = rnd.default_rng(3)
    for _ in range(2000):
        area = areas[rng.integers(len(areas))]
        position = Position(int(rng.integers(-5, 12)), int(rng.integers(-5, 12)))
        orientation = list(Orientation)[rng.integers(4)]
        ys, xs = REFERENCE_BOUNDS[orientation](area)
        ys = (position.y + ys[0], position.y + ys[1])
        xs = (position.x + xs[0], position.x + xs[1])
        transform = Transform(position, orientation)
        check(exact(transform * area, ys, xs), f'{transform} * {area}')
        check(exact(area * transform, ys, xs), f'{area} * {transform}')

    # other operands are still refused
    for other in [3, 'area', None, (0, 0), ((0, 1), (0, 1)), [Area((0, 0), (0, 0))]]:
        try:
            Orientation.R * other
        except TypeError:
            check(True, 'refused')
        else:
            check(False, f'Orientation.R * {other!r} did not raise TypeError')

    # orientations and positions are untouched by the change
    check(Orientation.R * Orientation.R is Orientation.B, 'R * R')
    check(Orientation.L * Position(2, -3) == Position(3, 2), 'L * position')
    check(Orientation.R * Position(2, -3) == Position(-3, -2), 'R * position')
    check(Orientation.B * Position(2, -3) == Position(-2, 3), 'B * position')
    check(Orientation.F * Position(2, -3) == Position(2, -3), 'F * position')


# ---------------------------------------------------------------- property


def world_cell(state, area, i, j):
    dy, dx = area.ymin + i, area.xmin + j
    wy, wx = REFERENCE_ROTATION[state.agent.orientation](dy, dx)
    return state.agent.position.y + wy, state.agent.position.x + wx


def world_object(state, y, x):
    rows = state.grid.objects
    if 0 <= y < len(rows) and 0 <= x < len(rows[0]):
        return rows[y][x]
    return None


def reference_view(state, area):
    view = []
    for i in range(area.height):
        row = []
        for j in range(area.width):
            obj = world_object(state, *world_cell(state, area, i, j))
            row.append(Hidden() if obj is None else obj)
        view.append(row)
    return view


def reference_observation(state, area, visibility_function, rng):
    view = reference_view(state, area)
    anchor = Position(-area.ymin, -area.xmin)
    visibility = visibility_function(Grid(view), anchor, rng=rng)
    if visibility.shape != (area.height, area.width):
        raise ValueError('incorrect visibility shape')
    return [
        [
            view[i][j] if visibility[i, j] else Hidden()
            for j in range(area.width)
        ]
        for i in range(area.height)
    ]


def same_rows(rows_a, rows_b):
    if len(rows_a) != len(rows_b):
        return False
    for row_a, row_b in zip(rows_a, rows_b):
        if len(row_a) != len(row_b):
            return False
        for a, b in zip(row_a, row_b):
            if type(a) is Hidden or type(b) is Hidden:
                if type(a) is not type(b):
                    return False
            elif a is not b:
                return False
    return True


def check_sound(state, area, observation, label, *, transparent):
    grid = observation.grid
    check(
        grid.shape.as_tuple == (area.height, area.width)
        and len(grid.objects) == area.height
        and all(len(row) == area.width for row in grid.objects),
        f'{label}: shape {grid.shape} for {area}',
    )
    for i in range(area.height):
        for j in range(area.width):
            shown = grid.objects[i][j]
            there = world_object(state, *world_cell(state, area, i, j))
            if there is None:
                check(type(shown) is Hidden, f'{label}: outside cell {i},{j}')
            elif transparent:
                check(shown is there, f'{label}: transparent cell {i},{j}')
            else:
                check(
                    type(shown) is Hidden or shown is there,
                    f'{label}: cell {i},{j} shows {shown!r}, world {there!r}',
                )
    agent = observation.agent
    check(
        agent.position == Position(-area.ymin, -area.xmin),
        f'{label}: agent position',
    )
    check(agent.orientation is Orientation.F, f'{label}: agent orientation')
    check(
        agent.grid_object is state.agent.grid_object,
        f'{label}: held item unchanged',
    )


PALETTE = [
    Floor,
    Floor,
    Floor,
    Wall,
    Wall,
    Exit,
    lambda: Door(Door.Status.LOCKED, Color.RED),
    lambda: Door(Door.Status.OPEN, Color.NONE),
    lambda: Key(Color.YELLOW),
    lambda: Key(Color.NONE),
    MovingObstacle,
    lambda: Box(Key(Color.GREEN)),
    lambda: Telepod(Color.NONE),
    lambda: Beacon(Color.GREEN),
    Hidden,
]

SHAPES = [(1, 1), (1, 5), (4, 1), (2, 3), (5, 4)]

AREAS = [
    Area((0, 0), (0, 0)),
    Area((-2, 0), (-1, 1)),
    Area((-3, 0), (-2, 1)),  # asymmetric
    Area((-1, 0), (0, 3)),  # agent in a corner of the view
    Area((-6, 0), (-3, 3)),  # default view
    Area((-1, 2), (-3, 0)),  # sees behind
    Area((0, 2), (0, 1)),
    Area((0, 0), (-2, 2)),  # one row
    Area((-3, 1), (0, 0)),  # one column
    Area((-3, -1), (-1, 1)),  # without the agent cell
    Area((1, 2), (2, 4)),  # without the agent cell
    Area((-9, 0), (-8, 8)),  # larger than the grids
]

BUILTIN = [
    'fully_transparent',
    'partially_occluded',
    'raytracing',
    'stochastic_raytracing',
]

HELD = [None, Key(Color.RED), Key(Color.NONE), Box(Key(Color.BLUE))]


def run(function, *args, **kwargs):
    try:
        return function(*args, **kwargs), None
    except Exception as error:  # pylint: disable=broad-except
        return None, type(error)


def observation_scenarios():
    rng = rnd.default_rng(424242)
    n_obs = 0
    for (height, width), area in itt.product(SHAPES, AREAS):
        grid = Grid(
            [
                [PALETTE[rng.integers(len(PALETTE))]() for _ in range(width)]
                for _ in range(height)
            ]
        )
        ys = sorted({0, height // 2, height - 1})
        xs = sorted({0, width // 2, width - 1})
        for y, x, orientation in itt.product(ys, xs, Orientation):
            held = HELD[rng.integers(len(HELD))]
            state = State(grid, Agent(Position(y, x), orientation, held))
            world = [list(row) for row in grid.objects]
            for name in BUILTIN:
                label = (
                    f'{name} grid={height}x{width} ({y},{x}) '
                    f'{orientation.name} {area}'
                )
                seed = int(rng.integers(2**32))
                expected, expected_error = run(
                    reference_observation,
                    state,
                    area,
                    visibility_function_registry[name],
                    rnd.default_rng(seed),
                )
                observation, error = run(
                    ofs.observation_function_registry[name],
                    state,
                    area=area,
                    rng=rnd.default_rng(seed),
                )
                check(
                    error is expected_error,
                    f'{label}: raised {error}, reference {expected_error}',
                )
                check(
                    same_rows(world, grid.objects)
                    and state.agent.position == Position(y, x)
                    and state.agent.orientation is orientation,
                    f'{label}: state was modified',
                )
                if error is not None:
                    continue
                n_obs += 1
                check_sound(
                    state,
                    area,
                    observation,
                    label,
                    transparent=name == 'fully_transparent',
                )
                check(
                    same_rows(observation.grid.objects, expected),
                    f'{label}: differs from the reference',
                )
    return n_obs


def hard_coded_observation():
    # world (3 rows x 4 columns), letters name the objects
    #   a b c d
    #   e f g h
    #   i j k l
    objs = {name: Key(Color.NONE) for name in 'abcdefghijkl'}
    grid = Grid([[objs[n] for n in row] for row in ['abcd', 'efgh', 'ijkl']])
    area = Area((-2, 0), (-1, 2))  # 3 rows, 4 columns, agent at (2, 1)
    expectations = {
        (1, 2, Orientation.F): ['....', 'bcd.', 'fgh.'],
        (1, 2, Orientation.B): ['....', 'lkji', 'hgfe'],
        (1, 2, Orientation.R): ['....', 'dhl.', 'cgk.'],
        (1, 2, Orientation.L): ['iea.', 'jfb.', 'kgc.'],
        (0, 0, Orientation.F): ['....', '....', '.abc'],
        (0, 0, Orientation.B): ['ji..', 'fe..', 'ba..'],
        (0, 0, Orientation.R): ['.cgk', '.bfj', '.aei'],
        (0, 0, Orientation.L): ['....', '....', 'ea..'],
        (2, 3, Orientation.F): ['cd..', 'gh..', 'kl..'],
        (2, 3, Orientation.R): ['....', '....', 'hl..'],
    }
    for (y, x, orientation), layout in expectations.items():
        state = State(grid, Agent(Position(y, x), orientation))
        observation = ofs.fully_transparent(state, area=area)
        label = f'hard-coded {y},{x} {orientation.name}'
        check(observation.grid.shape.as_tuple == (3, 4), f'{label}: shape')
        for i, line in enumerate(layout):
            for j, name in enumerate(line):
                shown = observation.grid.objects[i][j]
                if name == '.':
                    check(type(shown) is Hidden, f'{label}: cell {i},{j}')
                else:
                    check(shown is objs[name], f'{label}: cell {i},{j}')


def main():
    hard_coded_areas()
    exhaustive_areas()
    hard_coded_observation()
    n_obs = observation_scenarios()
    check(n_obs > 3000, f'too few observations exercised ({n_obs})')
    print(f'OK: {CHECKS} checks, {n_obs} built-in observations')


if __name__ == '__main__':
    main()
