"""Demo / check program for refactoring B (C02).

Exercises the reset functions `empty`, `rooms` and `memory_rooms`
(gym_gridverse.envs.reset_functions) through the public API and compares them
against an independent re-implementation that works on plain character grids
and only shares numpy's `Generator` with the library.

Checked:
  1. unit level: resulting layout, agent pose, freshness of grid objects (no
     aliasing), error messages for invalid parameters, and the exact generator
     state after the call (number and order of random draws), for many shapes,
     layouts, parameters and seeds;
  2. `rng=None` falls back to the library-level generator, a given `rng` never
     touches it (nor numpy's / python's global generators);
  3. environment level: twin environments with the same seed produce identical
     states / observations / rewards / terminal flags, sequentially and
     interleaved with other environments, debug flag on and off, and the state
     trajectory equals the one of the independent model;
  4. process level: digests of the trajectories are identical in fresh
     interpreters started with different PYTHONHASHSEED values.

Run as: cd <worktree> && /venv/bin/python -W ignore _seed/B/demo.py
"""
import os
import sys

sys.path.insert(0, os.getcwd())

import copy
import hashlib
import itertools
import json
import random
import subprocess

import numpy as np
import numpy.random as rnd

import gym_gridverse.rng as gv_rng_module
from gym_gridverse.action import Action
from gym_gridverse.debugging import reset_gv_debug
from gym_gridverse.envs.reset_functions import (
    empty,
    factory as reset_factory,
    memory_rooms,
    reset_function_registry,
    rooms,
)
from gym_gridverse.envs.yaml.factory import factory_env_from_data
from gym_gridverse.geometry import Orientation, Position, Shape
from gym_gridverse.grid_object import (
    Beacon,
    Color,
    Exit,
    Floor,
    NoneGridObject,
    Wall,
)
from gym_gridverse.rng import get_gv_rng, reset_gv_rng

# ---------------------------------------------------------------------------
# conversions between the character model and library objects

# orientation names, in the order of `list(Orientation)`
ORIENTATION_NAMES = ['FORWARD', 'BACKWARD', 'LEFT', 'RIGHT']
# color names, in the order of their enum values
COLOR_NAMES = ['NONE', 'RED', 'GREEN', 'BLUE', 'YELLOW']
# (y, x) deltas of absolute orientations
DELTAS = {
    'FORWARD': (-1, 0),
    'RIGHT': (0, 1),
    'BACKWARD': (1, 0),
    'LEFT': (0, -1),
}
CLOCKWISE = ['FORWARD', 'RIGHT', 'BACKWARD', 'LEFT']


def make_cell(obj):
    if isinstance(obj, Wall):
        return '#'
    if isinstance(obj, Floor):
        return '.'
    if isinstance(obj, Exit):
        return 'E:' + obj.color.name
    if isinstance(obj, Beacon):
        return 'B:' + obj.color.name
    raise AssertionError(obj)


def state_cells(state):
    height, width = state.grid.shape.height, state.grid.shape.width
    return [
        [make_cell(state.grid[Position(y, x)]) for x in range(width)]
        for y in range(height)
    ]


def state_agent(state):
    assert isinstance(state.agent.position, Position)
    assert isinstance(state.agent.orientation, Orientation)
    assert isinstance(state.agent.grid_object, NoneGridObject)
    return (
        int(state.agent.position.y),
        int(state.agent.position.x),
        state.agent.orientation.name,
    )


def rng_state(rng):
    return json.dumps(rng.bit_generator.state, sort_keys=True, default=str)


def assert_fresh_objects(state):
    """every cell holds its own object (no aliasing between cells)"""
    height, width = state.grid.shape.height, state.grid.shape.width
    ids = {
        id(state.grid[Position(y, x)])
        for y in range(height)
        for x in range(width)
    }
    assert len(ids) == height * width


# ---------------------------------------------------------------------------
# independent model of the reset functions


class ModelError(Exception):
    """the model expects the library to raise ValueError with this message"""


def floor_cells(cells):
    return [
        (y, x)
        for y in range(len(cells))
        for x in range(len(cells[0]))
        if cells[y][x] == '.'
    ]


def model_empty(height, width, random_agent, random_exit, rng):
    if height < 4 or width < 4:
        raise ModelError('height and width need to be at least 4')

    cells = [
        [
            '#' if y in (0, height - 1) or x in (0, width - 1) else '.'
            for x in range(width)
        ]
        for y in range(height)
    ]

    if random_exit:
        candidates = [
            (y, x)
            for y in range(1, height - 1)
            for x in range(1, width - 1)
            if random_agent or (y, x) != (1, 1)
        ]
        y, x = candidates[int(rng.choice(len(candidates)))]
    else:
        y, x = height - 2, width - 2
    cells[y][x] = 'E:NONE'

    if random_agent:
        candidates = floor_cells(cells)
        y, x = candidates[int(rng.choice(len(candidates)))]
        orientation = ORIENTATION_NAMES[int(rng.choice(4))]
        agent = (y, x, orientation)
    else:
        agent = (1, 1, 'RIGHT')

    return cells, agent


def model_splits(size, num_rooms):
    # integer arithmetic (the library goes through floating point linspace)
    return [(i * (size - 1)) // num_rooms for i in range(num_rooms + 1)]


def model_room_cells(height, width, layout, rng, height_name, width_name):
    layout_height, layout_width = layout
    layout_repr = f'({layout_height}, {layout_width})'

    y_splits = model_splits(height, layout_height)
    if len(set(y_splits)) != len(y_splits):
        raise ModelError(
            f'insufficient {height_name} ({height}) for layout ({layout_repr})'
        )
    x_splits = model_splits(width, layout_width)
    if len(set(x_splits)) != len(x_splits):
        raise ModelError(
            f'insufficient {width_name} ({width}) for layout ({layout_repr})'
        )

    cells = [
        ['#' if y in y_splits or x in x_splits else '.' for x in range(width)]
        for y in range(height)
    ]

    # one passage per horizontal wall segment
    for y in y_splits[1:-1]:
        for x_from, x_to in zip(x_splits, x_splits[1:]):
            x = int(rng.integers(x_from + 1, x_to))
            cells[y][x] = '.'

    # one passage per vertical wall segment
    for y_from, y_to in zip(y_splits, y_splits[1:]):
        for x in x_splits[1:-1]:
            y = int(rng.integers(y_from + 1, y_to))
            cells[y][x] = '.'

    return cells


def model_rooms(height, width, layout, rng):
    cells = model_room_cells(height, width, layout, rng, 'height', 'width')
    candidates = floor_cells(cells)
    i_agent, i_exit = rng.choice(len(candidates), size=2, replace=False)
    orientation = ORIENTATION_NAMES[int(rng.choice(4))]

    y, x = candidates[int(i_exit)]
    cells[y][x] = 'E:NONE'
    y, x = candidates[int(i_agent)]
    return cells, (y, x, orientation)


def model_memory_rooms(
    height, width, layout, color_names, num_beacons, num_exits, rng
):
    if 'NONE' in color_names:
        raise ModelError(None)  # message depends on set iteration order
    if len(color_names) < 2:
        raise ModelError(None)
    if num_beacons < 1:
        raise ModelError(f'num_beacons ({num_beacons}) must be positive')
    if num_exits < 2:
        raise ModelError(f'num_exits ({num_exits}) must be >= 2')

    cells = model_room_cells(
        height, width, layout, rng, 'shape.height', 'shape.width'
    )
    candidates = floor_cells(cells)
    indices = rng.choice(
        len(candidates), size=1 + num_beacons + num_exits, replace=False
    )
    positions = [candidates[int(i)] for i in indices]
    orientation = ORIENTATION_NAMES[int(rng.choice(4))]
    y, x = positions[0]
    agent = (y, x, orientation)

    sorted_colors = sorted(color_names, key=COLOR_NAMES.index)
    indices = rng.choice(len(sorted_colors), size=num_exits, replace=False)
    sample_colors = [sorted_colors[int(i)] for i in indices]

    for y, x in positions[1 : 1 + num_beacons]:
        cells[y][x] = 'B:' + sample_colors[0]
    for (y, x), color in zip(positions[1 + num_beacons :], sample_colors):
        cells[y][x] = 'E:' + color

    return cells, agent


def model_move_agent(cells, agent, action):
    turns = {
        Action.MOVE_FORWARD: 0,
        Action.MOVE_RIGHT: 1,
        Action.MOVE_BACKWARD: 2,
        Action.MOVE_LEFT: 3,
    }
    if action not in turns:
        return agent
    y, x, orientation = agent
    direction = CLOCKWISE[
        (CLOCKWISE.index(orientation) + turns[action]) % 4
    ]
    dy, dx = DELTAS[direction]
    ny, nx = y + dy, x + dx
    if not (0 <= ny < len(cells) and 0 <= nx < len(cells[0])):
        return agent
    if cells[ny][nx] == '#':
        return agent
    return (ny, nx, orientation)


def model_turn_agent(agent, action):
    y, x, orientation = agent
    i = CLOCKWISE.index(orientation)
    if action is Action.TURN_LEFT:
        return (y, x, CLOCKWISE[(i + 3) % 4])
    if action is Action.TURN_RIGHT:
        return (y, x, CLOCKWISE[(i + 1) % 4])
    return agent


# ---------------------------------------------------------------------------
# 1. unit level


def compare(library_call, model_call, seed, context):
    """runs library and model with equally seeded generators, and compares"""
    rng = rnd.default_rng(seed)
    expected_rng = rnd.default_rng(seed)

    try:
        expected = model_call(expected_rng)
    except ModelError as error:
        (message,) = error.args
        try:
            library_call(rng)
        except ValueError as library_error:
            if message is not None:
                assert str(library_error) == message, (
                    context,
                    str(library_error),
                    message,
                )
        else:
            raise AssertionError(('ValueError expected', context))
        # NOTE: validation happens before any draw
        assert rng_state(rng) == rng_state(rnd.default_rng(seed)), context
        return 'error'
    except ValueError as numpy_error:
        # degenerate parameters which pass validation, but make numpy fail
        # (empty `integers` range, sample larger than population);  the
        # library is expected to fail at the same draw, with the same error
        try:
            library_call(rng)
        except ValueError as library_error:
            assert str(library_error) == str(numpy_error), (
                context,
                str(library_error),
                str(numpy_error),
            )
        else:
            raise AssertionError(('ValueError expected', context))
        assert rng_state(rng) == rng_state(expected_rng), context
        return 'numpy-error'

    state = library_call(rng)
    expected_cells, expected_agent = expected
    assert state_cells(state) == expected_cells, (context, seed)
    assert state_agent(state) == expected_agent, (context, seed)
    assert rng_state(rng) == rng_state(expected_rng), (context, seed)
    assert_fresh_objects(state)
    return 'state'


def check_empty_unit():
    counts = {'state': 0, 'error': 0, 'numpy-error': 0}
    for height, width in itertools.product(range(2, 10), range(2, 10)):
        for random_agent, random_exit in itertools.product(
            [False, True], repeat=2
        ):
            for seed in range(6):
                shape = Shape(height, width)
                outcome = compare(
                    lambda rng: empty(
                        shape, random_agent, random_exit, rng=rng
                    ),
                    lambda rng: model_empty(
                        height, width, random_agent, random_exit, rng
                    ),
                    seed,
                    ('empty', height, width, random_agent, random_exit),
                )
                counts[outcome] += 1
    # keyword / default forms
    for seed in range(6):
        compare(
            lambda rng: empty(Shape(5, 6), rng=rng),
            lambda rng: model_empty(5, 6, False, False, rng),
            seed,
            'empty defaults',
        )
        compare(
            lambda rng: empty(
                shape=Shape(5, 6), random_exit=True, random_agent=True, rng=rng
            ),
            lambda rng: model_empty(5, 6, True, True, rng),
            seed,
            'empty keywords',
        )
    return counts


LAYOUTS = list(itertools.product(range(1, 5), range(1, 5)))


def check_rooms_unit():
    counts = {'state': 0, 'error': 0, 'numpy-error': 0}
    for height, width in itertools.product(range(3, 15), range(3, 15)):
        for layout in LAYOUTS:
            for seed in range(3):
                shape = Shape(height, width)
                outcome = compare(
                    lambda rng: rooms(shape, layout, rng=rng),
                    lambda rng: model_rooms(height, width, layout, rng),
                    seed + 1000 * height + width,
                    ('rooms', height, width, layout),
                )
                counts[outcome] += 1
    return counts


COLOR_SETS = [
    ['RED', 'GREEN', 'BLUE', 'YELLOW'],
    ['YELLOW', 'RED'],
    ['BLUE', 'GREEN', 'RED'],
    ['GREEN'],  # invalid
    ['NONE', 'RED', 'BLUE'],  # invalid
]


def check_memory_rooms_unit():
    counts = {'state': 0, 'error': 0, 'numpy-error': 0}
    pyrandom = random.Random(51515)
    for height, width in itertools.product(range(4, 14), range(4, 14)):
        for layout in LAYOUTS[:11]:
            for _ in range(4):
                color_names = pyrandom.choice(COLOR_SETS)
                num_beacons = pyrandom.choice([0, 1, 1, 2, 3])
                num_exits = pyrandom.choice(
                    [1] + list(range(2, len(color_names) + 1)) * 2
                )
                seed = pyrandom.randrange(10 ** 6)
                shape = Shape(height, width)
                colors = {Color[name] for name in color_names}
                outcome = compare(
                    lambda rng: memory_rooms(
                        shape,
                        layout,
                        colors,
                        num_beacons,
                        num_exits,
                        rng=rng,
                    ),
                    lambda rng: model_memory_rooms(
                        height,
                        width,
                        layout,
                        color_names,
                        num_beacons,
                        num_exits,
                        rng,
                    ),
                    seed,
                    (
                        'memory_rooms',
                        height,
                        width,
                        layout,
                        color_names,
                        num_beacons,
                        num_exits,
                    ),
                )
                counts[outcome] += 1
    return counts


# ---------------------------------------------------------------------------
# 2. library-level generator


def global_fingerprint():
    return (
        rng_state(get_gv_rng()),
        hashlib.sha256(repr(np.random.get_state()).encode()).hexdigest(),
        hashlib.sha256(repr(random.getstate()).encode()).hexdigest(),
    )


ALL_COLORS = {Color.RED, Color.GREEN, Color.BLUE, Color.YELLOW}
ALL_COLOR_NAMES = ['RED', 'GREEN', 'BLUE', 'YELLOW']


def check_global_rng():
    # explicit rng: library-level and global generators are left alone
    reset_gv_rng(777)
    library_rng = get_gv_rng()
    before = global_fingerprint()
    for seed in range(30):
        rng = rnd.default_rng(seed)
        empty(Shape(6, 7), True, True, rng=rng)
        rooms(Shape(9, 10), (2, 3), rng=rng)
        memory_rooms(Shape(10, 9), (3, 2), ALL_COLORS, 2, 3, rng=rng)
    assert get_gv_rng() is library_rng
    assert gv_rng_module._gv_rng is library_rng
    assert global_fingerprint() == before

    # rng=None: library-level generator is used, with the same draws
    for seed in range(30):
        reset_gv_rng(seed)
        states = [
            empty(Shape(6, 7), True, True),
            rooms(Shape(9, 10), (2, 3)),
            memory_rooms(Shape(10, 9), (3, 2), ALL_COLORS, 2, 3, rng=None),
        ]
        expected_rng = rnd.default_rng(seed)
        expected = [
            model_empty(6, 7, True, True, expected_rng),
            model_rooms(9, 10, (2, 3), expected_rng),
            model_memory_rooms(
                10, 9, (3, 2), ALL_COLOR_NAMES, 2, 3, expected_rng
            ),
        ]
        for state, (expected_cells, expected_agent) in zip(states, expected):
            assert state_cells(state) == expected_cells
            assert state_agent(state) == expected_agent
        assert rng_state(get_gv_rng()) == rng_state(expected_rng)

    # registry / factory still expose the same callables
    for function in [empty, rooms, memory_rooms]:
        assert reset_function_registry[function.__name__] is function
    assert reset_factory('empty', shape=Shape(4, 4)).func is empty
    assert reset_factory('rooms', shape=Shape(7, 7), layout=(2, 2)).func is rooms
    assert (
        reset_factory(
            'memory_rooms',
            shape=Shape(7, 7),
            layout=(2, 2),
            colors=ALL_COLORS,
            num_beacons=1,
            num_exits=2,
        ).func
        is memory_rooms
    )
    names = list(reset_function_registry.keys())
    assert names == [
        'empty',
        'rooms',
        'dynamic_obstacles',
        'keydoor',
        'crossing',
        'teleport',
        'memory',
        'memory_rooms',
    ], names


# ---------------------------------------------------------------------------
# 3. environment level

ACTIONS = [
    'MOVE_FORWARD',
    'MOVE_BACKWARD',
    'MOVE_LEFT',
    'MOVE_RIGHT',
    'TURN_LEFT',
    'TURN_RIGHT',
]

PARTIALLY_OCCLUDED = {'name': 'partially_occluded', 'area': [[-6, 0], [-3, 3]]}
STOCHASTIC_RAYTRACING = {
    'name': 'stochastic_raytracing',
    'area': [[-4, 0], [-2, 2]],
}


def config_plain(reset_function, observation_function):
    objects = ['Wall', 'Floor', 'Exit']
    return {
        'state_space': {'objects': objects, 'colors': ['NONE']},
        'action_space': list(ACTIONS),
        'observation_space': {'objects': objects, 'colors': ['NONE']},
        'reset_function': reset_function,
        'transition_functions': [{'name': 'move_agent'}, {'name': 'turn_agent'}],
        'reward_functions': [
            {'name': 'reach_exit', 'reward_on': 5.0, 'reward_off': 0.0},
            {
                'name': 'getting_closer',
                'distance_function': 'manhattan',
                'object_type': 'Exit',
                'reward_closer': 0.2,
                'reward_further': -0.2,
            },
            {'name': 'living_reward', 'reward': -0.05},
        ],
        'observation_function': observation_function,
        'terminating_function': {'name': 'reach_exit'},
    }


def config_memory(reset_function, observation_function):
    objects = ['Wall', 'Floor', 'Exit', 'Beacon']
    colors = ['NONE', 'RED', 'GREEN', 'BLUE', 'YELLOW']
    return {
        'state_space': {'objects': objects, 'colors': colors},
        'action_space': list(ACTIONS),
        'observation_space': {'objects': objects, 'colors': colors},
        'reset_function': reset_function,
        'transition_functions': [{'name': 'move_agent'}, {'name': 'turn_agent'}],
        'reward_functions': [
            {
                'name': 'reach_exit_memory',
                'reward_good': 5.0,
                'reward_bad': -5.0,
            },
            {'name': 'living_reward', 'reward': -0.05},
        ],
        'observation_function': observation_function,
        'terminating_function': {'name': 'reach_exit'},
    }


def spec_empty(size, observation_function=PARTIALLY_OCCLUDED):
    return (
        lambda: config_plain(
            {'name': 'empty', 'shape': [size, size], 'random_agent': True},
            dict(observation_function),
        ),
        lambda rng: model_empty(size, size, True, False, rng),
    )


def spec_rooms(height, width, layout, observation_function=PARTIALLY_OCCLUDED):
    return (
        lambda: config_plain(
            {'name': 'rooms', 'shape': [height, width], 'layout': list(layout)},
            dict(observation_function),
        ),
        lambda rng: model_rooms(height, width, layout, rng),
    )


def spec_memory_rooms(height, width, layout, num_beacons=1, num_exits=2):
    return (
        lambda: config_memory(
            {
                'name': 'memory_rooms',
                'shape': [height, width],
                'layout': list(layout),
                'colors': list(ALL_COLOR_NAMES),
                'num_beacons': num_beacons,
                'num_exits': num_exits,
            },
            dict(PARTIALLY_OCCLUDED),
        ),
        lambda rng: model_memory_rooms(
            height, width, layout, ALL_COLOR_NAMES, num_beacons, num_exits, rng
        ),
    )


ENV_SPECS = {
    # shipped configurations
    'empty.4x4': spec_empty(4),
    'empty.8x8': spec_empty(8),
    'four_rooms.7x7': spec_rooms(7, 7, (2, 2)),
    'four_rooms.9x9': spec_rooms(9, 9, (2, 2)),
    'nine_rooms.10x10': spec_rooms(10, 10, (3, 3)),
    'nine_rooms.13x13': spec_rooms(13, 13, (3, 3)),
    'memory_four_rooms.7x7': spec_memory_rooms(7, 7, (2, 2)),
    'memory_four_rooms.9x9': spec_memory_rooms(9, 9, (2, 2)),
    'memory_nine_rooms.10x10': spec_memory_rooms(10, 10, (3, 3)),
    'memory_nine_rooms.13x13': spec_memory_rooms(13, 13, (3, 3)),
    # other compositions
    'rooms.8x11.2x3': spec_rooms(8, 11, (2, 3)),
    'memory_rooms.9x12.2x3': spec_memory_rooms(9, 12, (2, 3), 3, 4),
    # stochastic observations draw from the same generator as the resets
    'rooms.9x9.stochastic': spec_rooms(9, 9, (2, 2), STOCHASTIC_RAYTRACING),
    'empty.6x6.stochastic': spec_empty(6, STOCHASTIC_RAYTRACING),
}
NO_MODEL = {'rooms.9x9.stochastic', 'empty.6x6.stochastic'}


def make_env(name):
    make_config, _ = ENV_SPECS[name]
    return factory_env_from_data(make_config())


def describe_object(obj):
    return (type(obj).__name__, obj.state_index, obj.color.name)


def describe_observation(observation):
    grid = observation.grid
    return (
        [
            [
                describe_object(grid[Position(y, x)])
                for x in range(grid.shape.width)
            ]
            for y in range(grid.shape.height)
        ],
        (
            int(observation.agent.position.y),
            int(observation.agent.position.x),
            observation.agent.orientation.name,
            describe_object(observation.agent.grid_object),
        ),
    )


def action_sequence(name, seed, length):
    pyrandom = random.Random(f'{name}/{seed}')
    return [Action[pyrandom.choice(ACTIONS)] for _ in range(length)]


class Runner:
    """steps an environment through an episode-restarting action sequence"""

    # resets are forced regularly, since the refactored code is reset code
    RESET_PERIOD = 7

    def __init__(self, name, seed, length):
        self.env = make_env(name)
        self.actions = action_sequence(name, seed, length)
        self.records = []
        self.t = -1
        self.seed = seed

    def done(self):
        return self.t >= len(self.actions)

    def advance(self):
        env = self.env
        if self.t == -1:
            env.set_seed(self.seed)
            env.reset()
            self.record(None, None)
            self.t = 0
            return
        action = self.actions[self.t]
        reward, terminal = env.step(action)
        self.record(reward, terminal)
        if terminal or (self.t + 1) % self.RESET_PERIOD == 0:
            env.reset()
            self.record(None, None)
        self.t += 1

    def record(self, reward, terminal):
        state = self.env.state
        self.records.append(
            (
                state_cells(state),
                state_agent(state),
                describe_observation(self.env.observation),
                reward,
                terminal,
            )
        )


def run_sequential(name, seed, length):
    runner = Runner(name, seed, length)
    while not runner.done():
        runner.advance()
    return runner.records


def run_interleaved(jobs, schedule_seed):
    """runs several runners, interleaving their operations pseudo-randomly"""
    pyrandom = random.Random(schedule_seed)
    runners = [Runner(*job) for job in jobs]
    pending = list(runners)
    while pending:
        runner = pyrandom.choice(pending)
        for _ in range(pyrandom.randrange(1, 4)):
            if not runner.done():
                runner.advance()
        if runner.done():
            pending.remove(runner)
    return [runner.records for runner in runners]


def model_trajectory(name, seed, length):
    """state trajectory according to the independent model"""
    _, model_reset = ENV_SPECS[name]
    rng = rnd.default_rng(seed)
    actions = action_sequence(name, seed, length)
    trajectory = []

    cells, agent = model_reset(rng)
    trajectory.append((copy.deepcopy(cells), agent, None))
    for t, action in enumerate(actions):
        agent = model_move_agent(cells, agent, action)
        agent = model_turn_agent(agent, action)
        y, x, _ = agent
        terminal = cells[y][x].startswith('E:')
        trajectory.append((copy.deepcopy(cells), agent, terminal))

        if terminal or (t + 1) % Runner.RESET_PERIOD == 0:
            cells, agent = model_reset(rng)
            trajectory.append((copy.deepcopy(cells), agent, None))
    return trajectory


def digest(data):
    return hashlib.sha256(
        json.dumps(data, sort_keys=True, default=str).encode()
    ).hexdigest()


SEEDS = [0, 1, 2, 3, 17, 2 ** 31 + 5]
LENGTH = 50


def check_environments():
    digests = {}
    for name in ENV_SPECS:
        for seed in SEEDS:
            reset_gv_debug(True)
            records = run_sequential(name, seed, LENGTH)
            # twin, sequentially
            assert run_sequential(name, seed, LENGTH) == records
            # debug flag off
            reset_gv_debug(False)
            assert run_sequential(name, seed, LENGTH) == records
            reset_gv_debug(True)
            digests[f'{name}/{seed}'] = digest(records)

            if name not in NO_MODEL:
                expected = model_trajectory(name, seed, LENGTH)
                actual = [
                    (cells, agent, terminal)
                    for cells, agent, _, _, terminal in records
                ]
                assert actual == expected, (name, seed)

    # interleaving several live environments (twins + others)
    for schedule_seed in range(3):
        jobs = []
        for name in ENV_SPECS:
            for seed in SEEDS[:2]:
                jobs.append((name, seed, LENGTH))
                jobs.append((name, seed, LENGTH))  # twin
        reset_gv_debug(schedule_seed % 2 == 0)
        all_records = run_interleaved(jobs, schedule_seed)
        for job, records in zip(jobs, all_records):
            assert digest(records) == digests[f'{job[0]}/{job[1]}'], job
    reset_gv_debug(True)

    # different seeds give different trajectories (sanity)
    assert len(set(digests.values())) == len(digests)
    return digests


def check_environments_isolated():
    """seeded environments never touch library-level / global generators"""
    envs = {name: make_env(name) for name in ENV_SPECS}
    # NOTE: env construction (factory) uses the library-level generator;
    # fingerprint is taken after construction
    reset_gv_rng(4242)
    library_rng = get_gv_rng()
    before = global_fingerprint()
    for name, env in envs.items():
        for seed in SEEDS[:3]:
            env.set_seed(seed)
            for _ in range(5):
                env.reset()
                env.observation
                for action in action_sequence(name, seed, 5):
                    env.step(action)
                    env.observation
    assert get_gv_rng() is library_rng
    assert gv_rng_module._gv_rng is library_rng
    assert global_fingerprint() == before


# ---------------------------------------------------------------------------
# 4. process level


def check_processes(digests):
    expected = digest(digests)
    for hashseed in ['0', '1', '4242']:
        env = dict(os.environ)
        env['PYTHONHASHSEED'] = hashseed
        output = subprocess.run(
            [sys.executable, '-W', 'ignore', os.path.abspath(__file__), 'child'],
            env=env,
            stdout=subprocess.PIPE,
            stderr=subprocess.DEVNULL,
            check=True,
            cwd=os.getcwd(),
        ).stdout.decode()
        assert output.strip().splitlines()[-1] == expected, (hashseed, output)


def child_digests():
    digests = {}
    for name in ENV_SPECS:
        for seed in SEEDS:
            digests[f'{name}/{seed}'] = digest(
                run_sequential(name, seed, LENGTH)
            )
    return digests


def main():
    if sys.argv[1:] == ['child']:
        print(digest(child_digests()))
        return

    print(f'empty unit cases: {check_empty_unit()}')
    print(f'rooms unit cases: {check_rooms_unit()}')
    print(f'memory_rooms unit cases: {check_memory_rooms_unit()}')
    check_global_rng()
    print('library-level generator checks: ok')
    digests = check_environments()
    print(f'environment trajectories: {len(digests)}')
    check_environments_isolated()
    print('environment isolation: ok')
    check_processes(digests)
    print('cross-process digests: ok')
    print('OK')


if __name__ == '__main__':
    main()
