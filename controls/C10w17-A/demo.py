"""Demo for change A (GridWorld wiring: debug/space checks moved to helpers).

Run from the worktree root:  /venv/bin/python _seed/A/demo.py

Exits 0 on the pristine tree and with the patch applied.  It checks

1. the wiring of GridWorld.functional_reset / functional_step /
   functional_observation / set_seed with recording components and spaces
   (same calls, same order, same objects, same error messages, debug on/off);
2. property C10 (doors, keys and boxes respond only to a faced ACTUATE, and only
   as documented) through `GridWorld.functional_step`, against a reference
   model embedded in this file, on a broad sweep of scenarios;
3. all reachable states of small key-door environments (BFS through
   `GridWorld.functional_step`): the locked door opens only with the key.
"""
import itertools
import os
import sys
import warnings

warnings.filterwarnings('ignore')
sys.path.insert(0, os.getcwd())  # run from the worktree root

from gym_gridverse.action import Action  # noqa: E402
from gym_gridverse.agent import Agent  # noqa: E402
from gym_gridverse.debugging import gv_debug, reset_gv_debug  # noqa: E402
from gym_gridverse.envs import observation_functions as observation_fs  # noqa: E402
from gym_gridverse.envs import reset_functions as reset_fs  # noqa: E402
from gym_gridverse.envs import reward_functions as reward_fs  # noqa: E402
from gym_gridverse.envs import terminating_functions as terminating_fs  # noqa: E402
from gym_gridverse.envs import transition_functions as transition_fs  # noqa: E402
from gym_gridverse.envs.gridworld import GridWorld  # noqa: E402
from gym_gridverse.geometry import Area, Orientation, Position, Shape  # noqa: E402
from gym_gridverse.grid import Grid  # noqa: E402
from gym_gridverse.grid_object import (  # noqa: E402
    Beacon,
    Box,
    Color,
    Door,
    Exit,
    Floor,
    Key,
    NoneGridObject,
    Telepod,
    Wall,
)
from gym_gridverse.observation import Observation  # noqa: E402
from gym_gridverse.spaces import (  # noqa: E402
    ActionSpace,
    ObservationSpace,
    StateSpace,
)
from gym_gridverse.state import State  # noqa: E402

CHECKS = 0


def check(condition, *message):
    global CHECKS
    CHECKS += 1
    if not condition:
        print('FAILED:', *message)
        sys.exit(1)


# --------------------------------------------------------------------------
# snapshots: plain-tuple descriptions of objects / states (independent of the
# library's __eq__, which e.g. ignores the content of a Box)
# --------------------------------------------------------------------------


def snap_obj(obj):
    content = snap_obj(obj.content) if isinstance(obj, Box) else None
    return (type(obj).__name__, obj.state_index, obj.color.name, content)


def snap_state(state):
    grid = tuple(
        tuple(snap_obj(state.grid[y, x]) for x in range(state.grid.shape.width))
        for y in range(state.grid.shape.height)
    )
    return (
        grid,
        (state.agent.position.y, state.agent.position.x),
        state.agent.orientation.name,
        snap_obj(state.agent.grid_object),
    )


# --------------------------------------------------------------------------
# reference model of the dynamics
#   chain(move_agent, turn_agent, actuate_door, actuate_box, pickndrop)
# written on snapshots only
# --------------------------------------------------------------------------

OPEN, CLOSED, LOCKED = 0, 1, 2
HEADINGS = ['FORWARD', 'RIGHT', 'BACKWARD', 'LEFT']  # clockwise, FORWARD=north
DELTAS = {
    'FORWARD': (-1, 0),
    'RIGHT': (0, 1),
    'BACKWARD': (1, 0),
    'LEFT': (0, -1),
}
MOVES = {
    Action.MOVE_FORWARD: 0,
    Action.MOVE_RIGHT: 1,
    Action.MOVE_BACKWARD: 2,
    Action.MOVE_LEFT: 3,
}
TURNS = {Action.TURN_RIGHT: 1, Action.TURN_LEFT: 3}
SNAP_FLOOR = ('Floor', 0, 'NONE', None)
SNAP_NONE = ('NoneGridObject', 0, 'NONE', None)


def ref_blocks_movement(obj):
    name, status, _, _ = obj
    if name == 'Door':
        return status != OPEN
    return name in ('Wall', 'Box')


def ref_holdable(obj):
    return obj[0] == 'Key'


def ref_front(pos, heading):
    dy, dx = DELTAS[heading]
    return (pos[0] + dy, pos[1] + dx)


def ref_step(snap, action):
    grid, pos, heading, held = snap
    grid = [list(row) for row in grid]
    height, width = len(grid), len(grid[0])

    def inside(p):
        return 0 <= p[0] < height and 0 <= p[1] < width

    if action in MOVES:
        direction = HEADINGS[(HEADINGS.index(heading) + MOVES[action]) % 4]
        target = ref_front(pos, direction)
        if inside(target) and not ref_blocks_movement(
            grid[target[0]][target[1]]
        ):
            pos = target

    elif action in TURNS:
        heading = HEADINGS[(HEADINGS.index(heading) + TURNS[action]) % 4]

    elif action is Action.ACTUATE:
        front = ref_front(pos, heading)
        if inside(front):
            obj = grid[front[0]][front[1]]
            if obj[0] == 'Door':
                if obj[1] == CLOSED or (
                    obj[1] == LOCKED and held[0] == 'Key' and held[2] == obj[2]
                ):
                    grid[front[0]][front[1]] = ('Door', OPEN, obj[2], None)
            elif obj[0] == 'Box':
                grid[front[0]][front[1]] = obj[3]

    elif action is Action.PICK_N_DROP:
        front = ref_front(pos, heading)
        if inside(front):
            obj = grid[front[0]][front[1]]
            if obj[0] == 'Floor' or ref_holdable(obj):
                grid[front[0]][front[1]] = (
                    held if held != SNAP_NONE else SNAP_FLOOR
                )
                held = obj if ref_holdable(obj) else SNAP_NONE

    else:
        raise AssertionError(action)

    return (tuple(tuple(row) for row in grid), pos, heading, held)


def doors_and_boxes(snap):
    """positions and descriptions of all doors and boxes of a snapshot"""
    return {
        (y, x): obj
        for y, row in enumerate(snap[0])
        for x, obj in enumerate(row)
        if obj[0] in ('Door', 'Box')
    }


def check_property_on_edge(before, action, after, context):
    """Property C10 stated directly (not through ref_step) on one transition"""
    doors_before = doors_and_boxes(before)
    doors_after = doors_and_boxes(after)
    front = ref_front(before[1], before[2])
    held = before[3]

    for position, obj in doors_before.items():
        y, x = position
        now = after[0][y][x]
        faced = action is Action.ACTUATE and position == front
        if not faced:
            check(now == obj, 'unfaced door/box changed', context, position)
        elif obj[0] == 'Door':
            opens = obj[1] == CLOSED or (
                obj[1] == LOCKED and held[0] == 'Key' and held[2] == obj[2]
            )
            expected = ('Door', OPEN, obj[2], None) if opens else obj
            check(now == expected, 'faced door', context, obj, now)
        else:
            check(now == obj[3], 'faced box not replaced by content', context)

    # no door / box appears out of nowhere, except out of an actuated box or
    # dropped from the agent's hands (never the case here: not holdable)
    for position, obj in doors_after.items():
        if position not in doors_before:
            check(
                action is Action.PICK_N_DROP and position == front,
                'door/box appeared',
                context,
            )

    # keys are not consumed by ACTUATE
    if action is Action.ACTUATE:
        check(after[3] == held, 'held item changed by ACTUATE', context)


# --------------------------------------------------------------------------
# sanity of the tables used by the reference model
# --------------------------------------------------------------------------

for obj in [
    Floor(),
    Wall(),
    Exit(),
    Exit(Color.RED),
    Key(Color.RED),
    Box(Floor()),
    Telepod(Color.RED),
    Beacon(Color.RED),
    Door(Door.Status.OPEN, Color.RED),
    Door(Door.Status.CLOSED, Color.NONE),
    Door(Door.Status.LOCKED, Color.BLUE),
]:
    check(
        ref_blocks_movement(snap_obj(obj)) == obj.blocks_movement,
        'blocks_movement table',
        obj,
    )
    check(ref_holdable(snap_obj(obj)) == obj.holdable, 'holdable table', obj)
check(
    [s.value for s in (Door.Status.OPEN, Door.Status.CLOSED, Door.Status.LOCKED)]
    == [OPEN, CLOSED, LOCKED],
    'door status values',
)

# --------------------------------------------------------------------------
# environment construction through the Python API (mirrors envs/yaml/factory)
# --------------------------------------------------------------------------

ALL_TYPES = [Floor, Wall, Exit, Door, Key, Box, Telepod, Beacon]
ALL_COLORS = list(Color)


def make_transition_function():
    return transition_fs.factory(
        'chain',
        transition_functions=[
            transition_fs.factory('move_agent'),
            transition_fs.factory('turn_agent'),
            transition_fs.factory('actuate_door'),
            transition_fs.factory('actuate_box'),
            transition_fs.factory('pickndrop'),
        ],
    )


def make_reward_function():
    return reward_fs.factory(
        'reduce_sum',
        reward_functions=[
            reward_fs.factory('living_reward', reward=-0.05),
            reward_fs.factory('reach_exit', reward_on=5.0, reward_off=0.0),
            reward_fs.factory(
                'actuate_door', reward_open=1.0, reward_close=-1.0
            ),
        ],
    )


def make_env(reset_function, shape, view=((-2, 0), (-1, 1))):
    area = Area(*view)
    return GridWorld(
        StateSpace(shape, ALL_TYPES, ALL_COLORS),
        ActionSpace(list(Action)),
        ObservationSpace(Shape(area.height, area.width), ALL_TYPES, ALL_COLORS),
        reset_function,
        make_transition_function(),
        observation_fs.factory('partially_occluded', area=area),
        make_reward_function(),
        terminating_fs.factory('reach_exit'),
    )


def dummy_reset(shape):
    def reset(*, rng=None):
        return State(
            Grid.from_shape(shape), Agent(Position(0, 0), Orientation.F)
        )

    return reset


# --------------------------------------------------------------------------
# part 1: wiring, with recording components
# --------------------------------------------------------------------------


class Recorder:
    def __init__(self):
        self.log = []


def part_wiring():
    shape = Shape(3, 4)
    rec = Recorder()

    reset_state = State(
        Grid.from_shape(shape), Agent(Position(1, 1), Orientation.R)
    )
    observation_out = Observation(
        Grid.from_shape((2, 3)), Agent(Position(1, 1), Orientation.F)
    )
    verdicts = {'state': True, 'next_state': True, 'observation': True}
    produced = {}

    class SpyStateSpace(StateSpace):
        def contains(self, state):
            rec.log.append(('state_space.contains', id(state)))
            inner = super().contains(state)
            which = (
                'next_state'
                if state is produced.get('next_state')
                else 'state'
            )
            return inner and verdicts[which]

    class SpyActionSpace(ActionSpace):
        def contains(self, action):
            rec.log.append(('action_space.contains', action))
            return super().contains(action)

    class SpyObservationSpace(ObservationSpace):
        def contains(self, observation):
            rec.log.append(('observation_space.contains', id(observation)))
            return super().contains(observation) and verdicts['observation']

    def reset_function(*, rng=None):
        rec.log.append(('reset', id(rng)))
        return reset_state

    def transition_function(state, action, *, rng=None):
        produced['next_state'] = state
        rec.log.append(('transition', id(state), action, id(rng)))
        # something visible, to make sure the result is the transitioned copy
        state.agent.position = Position(2, 3)

    def reward_function(state, action, next_state):
        rec.log.append(('reward', id(state), action, id(next_state)))
        return 12.5

    def termination_function(state, action, next_state):
        rec.log.append(('termination', id(state), action, id(next_state)))
        return True

    def observation_function(state, *, rng=None):
        rec.log.append(('observation', id(state), id(rng)))
        return observation_out

    env = GridWorld(
        SpyStateSpace(shape, ALL_TYPES, ALL_COLORS),
        SpyActionSpace([Action.MOVE_FORWARD, Action.ACTUATE]),
        SpyObservationSpace(Shape(2, 3), ALL_TYPES, ALL_COLORS),
        reset_function,
        transition_function,
        observation_function,
        reward_function,
        termination_function,
    )

    def expect_raises(function, message):
        try:
            function()
        except ValueError as error:
            check(
                error.args == (message,), 'error message', error.args, message
            )
        else:
            check(False, 'no ValueError raised, expected', message)

    for seeded in (False, True, 'reseeded'):
        if seeded:
            env.set_seed(1234 if seeded is True else None)
            check(env._rng is not None, 'set_seed makes an rng')
        else:
            check(env._rng is None, 'no rng before set_seed')
        rng_id = id(env._rng)

        for debug in (True, False):
            reset_gv_debug(debug)
            check(gv_debug() is debug, 'debug flag')
            for key in verdicts:
                verdicts[key] = True

            # --- functional_reset
            rec.log.clear()
            state = env.functional_reset()
            check(state is reset_state, 'reset returns the reset state itself')
            expected = [('reset', rng_id)]
            if debug:
                expected.append(('state_space.contains', id(reset_state)))
            check(rec.log == expected, 'reset log', rec.log, expected)

            # --- functional_step
            rec.log.clear()
            before = snap_state(state)
            next_state, reward, terminal = env.functional_step(
                state, Action.ACTUATE
            )
            check(next_state is produced['next_state'], 'returns the copy')
            check(next_state is not state, 'step works on a copy')
            check(snap_state(state) == before, 'input state untouched')
            check(next_state.agent.position == Position(2, 3), 'transitioned')
            check(reward == 12.5 and terminal is True, 'reward / terminal')
            expected = []
            if debug:
                expected.append(('state_space.contains', id(state)))
            expected.append(('action_space.contains', Action.ACTUATE))
            expected.append(
                ('transition', id(next_state), Action.ACTUATE, rng_id)
            )
            if debug:
                expected.append(('state_space.contains', id(next_state)))
            expected.append(
                ('reward', id(state), Action.ACTUATE, id(next_state))
            )
            expected.append(
                ('termination', id(state), Action.ACTUATE, id(next_state))
            )
            check(rec.log == expected, 'step log', rec.log, expected)

            # --- functional_observation
            rec.log.clear()
            observation = env.functional_observation(state)
            check(observation is observation_out, 'observation passed through')
            expected = [('observation', id(state), rng_id)]
            if debug:
                expected.append(
                    ('observation_space.contains', id(observation_out))
                )
            check(rec.log == expected, 'observation log', rec.log, expected)

            # --- action outside of the action space: always an error, raised
            # after the (debug) check of the state and before the transition
            rec.log.clear()
            expect_raises(
                lambda: env.functional_step(state, Action.TURN_LEFT),
                'action {action} does not satisfy action-space',
            )
            expected = []
            if debug:
                expected.append(('state_space.contains', id(state)))
            expected.append(('action_space.contains', Action.TURN_LEFT))
            check(rec.log == expected, 'bad action log', rec.log, expected)

            # --- state outside of the state space
            verdicts['state'] = False
            rec.log.clear()
            if debug:
                expect_raises(
                    env.functional_reset, 'state does not satisfy state_space'
                )
                expect_raises(
                    lambda: env.functional_step(state, Action.ACTUATE),
                    'state does not satisfy state_space',
                )
                # the state is checked before the action
                expect_raises(
                    lambda: env.functional_step(state, Action.TURN_LEFT),
                    'state does not satisfy state_space',
                )
                check(
                    [entry[0] for entry in rec.log]
                    == ['reset'] + ['state_space.contains'] * 3,
                    'bad state log',
                    rec.log,
                )
            else:
                check(env.functional_reset() is reset_state, 'no debug reset')
                result = env.functional_step(state, Action.ACTUATE)
                check(result[1:] == (12.5, True), 'no debug step')
                check(
                    all(e[0] != 'state_space.contains' for e in rec.log),
                    'state space not consulted without debug',
                )
            verdicts['state'] = True

            # --- next state outside of the state space
            verdicts['next_state'] = False
            rec.log.clear()
            if debug:
                expect_raises(
                    lambda: env.functional_step(state, Action.ACTUATE),
                    'next_state does not satisfy state_space',
                )
                check(
                    [entry[0] for entry in rec.log]
                    == [
                        'state_space.contains',
                        'action_space.contains',
                        'transition',
                        'state_space.contains',
                    ],
                    'bad next state log (reward/termination not run)',
                    rec.log,
                )
            else:
                result = env.functional_step(state, Action.ACTUATE)
                check(result[1:] == (12.5, True), 'no debug step (next)')
            verdicts['next_state'] = True

            # --- observation outside of the observation space
            verdicts['observation'] = False
            if debug:
                expect_raises(
                    lambda: env.functional_observation(state),
                    'observation does not satisfy observation_space',
                )
            else:
                check(
                    env.functional_observation(state) is observation_out,
                    'no debug observation',
                )
            verdicts['observation'] = True

    # stateful interface on top of the functional one
    reset_gv_debug(True)
    env.reset()
    check(env.state is reset_state, 'reset() stores the state')
    reward, done = env.step(Action.ACTUATE)
    check((reward, done) == (12.5, True), 'step() result')
    check(env.state is produced['next_state'], 'step() stores the next state')
    check(env.observation is observation_out, 'observation property')


# --------------------------------------------------------------------------
# part 2: sweep of scenarios through GridWorld.functional_step
# --------------------------------------------------------------------------


def target_objects():
    for status in Door.Status:
        for color in (Color.NONE, Color.RED, Color.YELLOW):
            yield lambda status=status, color=color: Door(status, color)
    yield lambda: Box(Floor())
    yield lambda: Box(Key(Color.RED))
    yield lambda: Box(Door(Door.Status.LOCKED, Color.RED))
    yield lambda: Box(Box(Key(Color.BLUE)))


def held_objects(action):
    yield lambda: None
    yield lambda: Key(Color.RED)
    yield lambda: Box(Key(Color.RED))
    if action is Action.ACTUATE:
        yield lambda: Key(Color.NONE)
        yield lambda: Key(Color.YELLOW)
        yield lambda: Key(Color.BLUE)
        yield lambda: Door(Door.Status.LOCKED, Color.RED)
        yield lambda: Exit(Color.RED)
        yield lambda: Telepod(Color.YELLOW)
        yield lambda: Beacon(Color.NONE)


def scenario_layouts():
    """(shape, target position, distractors)"""
    for shape in (Shape(1, 2), Shape(2, 1), Shape(3, 5), Shape(5, 3)):
        height, width = shape.height, shape.width
        positions = {
            (0, 0),
            (0, width - 1),
            (height - 1, 0),
            (height - 1, width - 1),
            (height // 2, 0),
            (0, width // 2),
            (height // 2, width // 2),
        }
        for target in sorted(positions):
            yield shape, target


def part_sweep():
    envs = {}
    n_steps = 0
    for shape, target in scenario_layouts():
        if shape not in envs:
            envs[shape] = make_env(dummy_reset(shape), shape)
            envs[shape].set_seed(len(envs))
        env = envs[shape]

        # agent cells: around (and on) the target, plus the farthest cell
        cells = {
            (target[0] + dy, target[1] + dx)
            for dy in (-1, 0, 1)
            for dx in (-1, 0, 1)
        }
        cells.add(
            max(
                itertools.product(range(shape.height), range(shape.width)),
                key=lambda p: abs(p[0] - target[0]) + abs(p[1] - target[1]),
            )
        )
        cells = sorted(
            (y, x)
            for y, x in cells
            if 0 <= y < shape.height and 0 <= x < shape.width
        )

        for make_target in target_objects():
            for cell, orientation, action in itertools.product(
                cells, Orientation, Action
            ):
                for make_held in held_objects(action):
                    grid = Grid.from_shape(shape)
                    grid[target] = make_target()
                    # distractors: a locked red door and a box, wherever
                    # there is room (never on the target, possibly under the
                    # agent or in front of it)
                    far = cells[-1] if cells[-1] != target else cells[0]
                    if far != target:
                        grid[far] = Door(Door.Status.LOCKED, Color.RED)
                    other = (shape.height - 1 - target[0], target[1])
                    if other not in (target, far):
                        grid[other] = Box(Key(Color.YELLOW))

                    state = State(
                        grid, Agent(Position(*cell), orientation, make_held())
                    )
                    before = snap_state(state)
                    context = (shape, target, before[1:], action)

                    reset_gv_debug(n_steps % 5 == 0)
                    next_state, reward, terminal = env.functional_step(
                        state, action
                    )
                    n_steps += 1

                    after = snap_state(next_state)
                    check(snap_state(state) == before, 'input mutated', context)
                    check(
                        after == ref_step(before, action),
                        'differs from the reference model',
                        context,
                        after,
                        ref_step(before, action),
                    )
                    check_property_on_edge(before, action, after, context)

                    # reward / terminal against the documented values
                    front = ref_front(before[1], before[2])
                    opened = (
                        action is Action.ACTUATE
                        and front in doors_and_boxes(before)
                        and doors_and_boxes(before)[front][0] == 'Door'
                        and doors_and_boxes(before)[front][1] != OPEN
                        and after[0][front[0]][front[1]][1] == OPEN
                    )
                    expected_reward = -0.05 + (1.0 if opened else 0.0)
                    check(
                        abs(reward - expected_reward) < 1e-12,
                        'reward',
                        context,
                        reward,
                        expected_reward,
                    )
                    check(terminal is False, 'terminal', context)
    return n_steps


# --------------------------------------------------------------------------
# part 3: all reachable states of small key-door environments
# --------------------------------------------------------------------------


def part_keydoor():
    n_states = 0
    n_edges = 0
    for shape, seeds in (
        (Shape(4, 5), (0, 1)),
        (Shape(4, 7), (2,)),
        (Shape(5, 6), (3,)),
        (Shape(6, 5), (4,)),
    ):
        env = make_env(reset_fs.factory('keydoor', shape=shape), shape)
        other = make_env(reset_fs.factory('keydoor', shape=shape), shape)
        for seed in seeds:
            reset_gv_debug(True)

            # (re-)seeding: same seed, same states; the two envs live side by
            # side and do not disturb each other
            env.set_seed(seed)
            first = [snap_state(env.functional_reset()) for _ in range(3)]
            other.set_seed(seed + 1000)
            other.functional_reset()
            env.set_seed(seed)
            again = [snap_state(env.functional_reset()) for _ in range(3)]
            check(first == again, 're-seeding reproduces the resets')
            other.set_seed(seed)
            check(
                [snap_state(other.functional_reset()) for _ in range(3)]
                == first,
                'two environments, same seed, same resets',
            )

            env.set_seed(seed)
            env.reset()
            start = env.state
            doors = doors_and_boxes(snap_state(start))
            check(
                list(doors.values()) == [('Door', LOCKED, 'YELLOW', None)],
                'exactly one locked yellow door after reset',
                doors,
            )
            check(
                snap_obj(start.agent.grid_object) == SNAP_NONE,
                'nothing held after reset',
            )

            # the stateful interface agrees with the functional one
            for action in (
                Action.TURN_LEFT,
                Action.ACTUATE,
                Action.MOVE_FORWARD,
                Action.PICK_N_DROP,
                Action.ACTUATE,
            ):
                expected = ref_step(snap_state(env.state), action)
                env.step(action)
                check(snap_state(env.state) == expected, 'stateful step')
                observation = env.observation
                check(
                    snap_obj(observation.agent.grid_object) == expected[3],
                    'observation shows the held item',
                )

            # BFS over everything reachable from the reset state
            reset_gv_debug(False)
            seen = {snap_state(start): start}
            frontier = [start]
            opening_edges = 0
            while frontier:
                state = frontier.pop()
                before = snap_state(state)
                for action in Action:
                    next_state, _, _ = env.functional_step(state, action)
                    after = snap_state(next_state)
                    n_edges += 1
                    context = (shape, seed, before[1:], action)
                    check(
                        after == ref_step(before, action),
                        'keydoor: differs from the reference model',
                        context,
                    )
                    check_property_on_edge(before, action, after, context)

                    (position, door_before), = doors_and_boxes(before).items()
                    (position_after, door_after), = doors_and_boxes(
                        after
                    ).items()
                    check(position == position_after, 'door moved', context)
                    if door_before != door_after:
                        opening_edges += 1
                        check(
                            door_before[1] == LOCKED
                            and door_after[1] == OPEN
                            and action is Action.ACTUATE
                            and ref_front(before[1], before[2]) == position
                            and before[3] == ('Key', 0, 'YELLOW', None)
                            and after[3] == before[3],
                            'door opened without the key being used',
                            context,
                        )
                    if after not in seen:
                        seen[after] = next_state
                        frontier.append(next_state)
                    check(len(seen) < 200000, 'state space explosion')
            n_states += len(seen)
            check(opening_edges > 0, 'the door can be opened at all')
            check(
                any(
                    list(doors_and_boxes(s).values())[0][1] == OPEN
                    for s in seen
                ),
                'open-door states are reachable',
            )
    return n_states, n_edges


def main():
    try:
        part_wiring()
        n_steps = part_sweep()
        n_states, n_edges = part_keydoor()
    finally:
        reset_gv_debug(None)
    print(
        f'OK: {CHECKS} checks, {n_steps} scenario steps, '
        f'{n_states} reachable key-door states, {n_edges} edges'
    )


if __name__ == '__main__':
    main()
