import itertools
import math
import os
import random
import sys

sys.path.insert(0, os.getcwd())

import numpy as np  # noqa: E402
import numpy.random as rnd  # noqa: E402

from gym_gridverse.action import Action  # noqa: E402
from gym_gridverse.agent import Agent  # noqa: E402
from gym_gridverse.debugging import reset_gv_debug  # noqa: E402
from gym_gridverse.envs import observation_functions as obs_fs  # noqa: E402
from gym_gridverse.envs import reward_functions as rew_fs  # noqa: E402
from gym_gridverse.envs import terminating_functions as ter_fs  # noqa: E402
from gym_gridverse.envs import transition_functions as tr_fs  # noqa: E402
from gym_gridverse.envs.gridworld import GridWorld  # noqa: E402
from gym_gridverse.envs.utils import get_next_position  # noqa: E402
from gym_gridverse.geometry import (  # noqa: E402
    Orientation,
    Position,
    Shape,
)
from gym_gridverse.grid import Grid  # noqa: E402
from gym_gridverse.grid_object import (  # noqa: E402
    Beacon,
    Box,
    Color,
    Door,
    Exit,
    Floor,
    Hidden,
    Key,
    MovingObstacle,
    NoneGridObject,
    Telepod,
    Wall,
)
from gym_gridverse.observation import Observation  # noqa: E402
from gym_gridverse.spaces import (  # noqa: E402
    ActionSpace,
    ObservationSpace,
    StateSpace,
)
from gym_gridverse.state import State  # noqa: E402

reset_gv_debug(True)

# ---------------------------------------------------------------------------
# plain-data model of states, independent from the library classes
# ---------------------------------------------------------------------------
# objects are tuples: ('Floor',) ('Wall',) ('Exit',) ('MovingObstacle',)
# ('Door', status, color) ('Key', color) ('Telepod', color) ('Beacon', color)
# ('Box', content) ('None',) ('Hidden',)
# orientation is a compass index 0=N(up) 1=E 2=S 3=W;  N corresponds to the
# library's FORWARD orientation

ALL_ACTIONS = list(Action)
DELTAS = [(-1, 0), (0, 1), (1, 0), (0, -1)]
ORIENTATIONS = [Orientation.F, Orientation.R, Orientation.B, Orientation.L]
MOVE_TURNS = {
    'MOVE_FORWARD': 0,
    'MOVE_RIGHT': 1,
    'MOVE_BACKWARD': 2,
    'MOVE_LEFT': 3,
}
COLOR_BY_NAME = {color.name: color for color in Color}
STATUS_BY_NAME = {status.name: status for status in Door.Status}

DECLARED_TYPES = [
    Floor,
    Wall,
    Exit,
    Door,
    Key,
    MovingObstacle,
    Box,
    Telepod,
    Beacon,
]
DECLARED_TYPE_NAMES = {t.__name__ for t in DECLARED_TYPES}
DECLARED_COLORS = [Color.RED, Color.GREEN, Color.BLUE, Color.YELLOW]
DECLARED_COLOR_NAMES = {c.name for c in DECLARED_COLORS} | {'NONE'}


def build(t):
    """plain tuple -> library object"""
    kind = t[0]
    if kind == 'Floor':
        return Floor()
    if kind == 'Wall':
        return Wall()
    if kind == 'Exit':
        return Exit() if len(t) == 1 else Exit(COLOR_BY_NAME[t[1]])
    if kind == 'MovingObstacle':
        return MovingObstacle()
    if kind == 'Door':
        return Door(STATUS_BY_NAME[t[1]], COLOR_BY_NAME[t[2]])
    if kind == 'Key':
        return Key(COLOR_BY_NAME[t[1]])
    if kind == 'Telepod':
        return Telepod(COLOR_BY_NAME[t[1]])
    if kind == 'Beacon':
        return Beacon(COLOR_BY_NAME[t[1]])
    if kind == 'Box':
        return Box(build(t[1]))
    if kind == 'None':
        return NoneGridObject()
    if kind == 'Hidden':
        return Hidden()
    raise AssertionError(t)


def enc(obj):
    """library object -> plain tuple (by exact type)"""
    kind = type(obj).__name__
    if kind in ('Floor', 'Wall', 'MovingObstacle'):
        return (kind,)
    if kind == 'Exit':
        return ('Exit',) if obj.color is Color.NONE else ('Exit', obj.color.name)
    if kind == 'Door':
        return ('Door', obj.state.name, obj.color.name)
    if kind in ('Key', 'Telepod', 'Beacon'):
        return (kind, obj.color.name)
    if kind == 'Box':
        return ('Box', enc(obj.content))
    if kind == 'NoneGridObject':
        return ('None',)
    if kind == 'Hidden':
        return ('Hidden',)
    raise AssertionError(obj)


def color_of(t):
    if t[0] in ('Key', 'Telepod', 'Beacon'):
        return t[1]
    if t[0] == 'Door':
        return t[2]
    if t[0] == 'Exit' and len(t) == 2:
        return t[1]
    return 'NONE'


def blocks_movement(t):
    return t[0] in ('Wall', 'Box') or (t[0] == 'Door' and t[1] != 'OPEN')


def holdable(t):
    return t[0] == 'Key'


def build_state(m):
    grid = Grid([[build(t) for t in row] for row in m['grid']])
    agent = Agent(
        Position(*m['pos']), ORIENTATIONS[m['ori']], build(m['held'])
    )
    return State(grid, agent)


def enc_state(state):
    return {
        'grid': [[enc(obj) for obj in row] for row in state.grid.objects],
        'pos': (state.agent.position.y, state.agent.position.x),
        'ori': ORIENTATIONS.index(state.agent.orientation),
        'held': enc(state.agent.grid_object),
    }


def copy_model(m):
    return {
        'grid': [list(row) for row in m['grid']],
        'pos': m['pos'],
        'ori': m['ori'],
        'held': m['held'],
    }


def in_grid(m, p):
    return 0 <= p[0] < len(m['grid']) and 0 <= p[1] < len(m['grid'][0])


def front_of(m):
    d = DELTAS[m['ori']]
    return (m['pos'][0] + d[0], m['pos'][1] + d[1])


def cells(m):
    return [
        (y, x)
        for y in range(len(m['grid']))
        for x in range(len(m['grid'][0]))
    ]


# ---------------------------------------------------------------------------
# reference (independent) transition functions on the plain-data model
# ---------------------------------------------------------------------------


def ref_move_agent(m, action, rng):
    if action.name not in MOVE_TURNS:
        return
    d = DELTAS[(m['ori'] + MOVE_TURNS[action.name]) % 4]
    p = (m['pos'][0] + d[0], m['pos'][1] + d[1])
    if in_grid(m, p) and not blocks_movement(m['grid'][p[0]][p[1]]):
        m['pos'] = p


def ref_turn_agent(m, action, rng):
    if action.name == 'TURN_LEFT':
        m['ori'] = (m['ori'] + 3) % 4
    elif action.name == 'TURN_RIGHT':
        m['ori'] = (m['ori'] + 1) % 4


def ref_pickndrop(m, action, rng):
    if action.name != 'PICK_N_DROP':
        return
    p = front_of(m)
    if not in_grid(m, p):
        return
    front = m['grid'][p[0]][p[1]]
    if front[0] != 'Floor' and not holdable(front):
        return
    m['grid'][p[0]][p[1]] = ('Floor',) if m['held'] == ('None',) else m['held']
    m['held'] = front if holdable(front) else ('None',)


def ref_move_obstacles(m, action, rng):
    sources = [p for p in cells(m) if m['grid'][p[0]][p[1]][0] == 'MovingObstacle']
    for y, x in sources:
        targets = [
            q
            for q in [(y - 1, x), (y, x + 1), (y + 1, x), (y, x - 1)]
            if in_grid(m, q) and m['grid'][q[0]][q[1]] == ('Floor',)
        ]
        if targets:
            q = targets[int(rng.choice(len(targets)))]
            a, b = m['grid'][y][x], m['grid'][q[0]][q[1]]
            m['grid'][y][x], m['grid'][q[0]][q[1]] = b, a


def ref_actuate_door(m, action, rng):
    if action.name != 'ACTUATE':
        return
    p = front_of(m)
    if not in_grid(m, p):
        return
    front = m['grid'][p[0]][p[1]]
    if front[0] != 'Door':
        return
    _, status, color = front
    if status == 'CLOSED':
        status = 'OPEN'
    elif status == 'LOCKED' and m['held'] == ('Key', color):
        status = 'OPEN'
    m['grid'][p[0]][p[1]] = ('Door', status, color)


def ref_actuate_box(m, action, rng):
    if action.name != 'ACTUATE':
        return
    p = front_of(m)
    if not in_grid(m, p):
        return
    front = m['grid'][p[0]][p[1]]
    if front[0] == 'Box':
        m['grid'][p[0]][p[1]] = front[1]


def ref_teleport(m, action, rng):
    here = m['grid'][m['pos'][0]][m['pos'][1]]
    if here[0] != 'Telepod':
        return
    targets = [
        p for p in cells(m) if p != m['pos'] and m['grid'][p[0]][p[1]] == here
    ]
    if targets:
        m['pos'] = targets[int(rng.choice(len(targets)))]


REFS = {
    'move_agent': ref_move_agent,
    'turn_agent': ref_turn_agent,
    'pickndrop': ref_pickndrop,
    'move_obstacles': ref_move_obstacles,
    'actuate_door': ref_actuate_door,
    'actuate_box': ref_actuate_box,
    'teleport': ref_teleport,
}
LIBS = {name: getattr(tr_fs, name) for name in REFS}
for _name in REFS:
    assert tr_fs.transition_function_registry[_name] is LIBS[_name], _name


# ---------------------------------------------------------------------------
# reference space-membership predicates
# ---------------------------------------------------------------------------


def ref_state_in_space(m, shape, type_names, color_names):
    """independent version of StateSpace.contains for well-formed states"""
    if (len(m['grid']), len(m['grid'][0])) != shape:
        return False
    for row in m['grid']:
        for t in row:
            if t[0] not in type_names or color_of(t) not in color_names:
                return False
    if not in_grid(m, m['pos']):
        return False
    if m['held'][0] != 'None' and m['held'][0] not in type_names:
        return False
    return color_of(m['held']) in color_names


def ref_observation_in_space(om, shape, type_names, color_names):
    """independent version of ObservationSpace.contains

    `om` is a model with the same format of a state model
    """
    if (len(om['grid']), len(om['grid'][0])) != shape:
        return False
    for row in om['grid']:
        for t in row:
            if t[0] != 'Hidden' and t[0] not in type_names:
                return False
            if color_of(t) not in color_names:
                return False
    if not (0 <= om['pos'][0] < shape[0] and 0 <= om['pos'][1] < shape[1]):
        return False
    if om['held'][0] != 'None' and om['held'][0] not in type_names:
        return False
    return color_of(om['held']) in color_names


# ---------------------------------------------------------------------------
# state catalogues and generators
# ---------------------------------------------------------------------------

CELL_CATALOG = [
    ('Floor',),
    ('Wall',),
    ('Exit',),
    ('MovingObstacle',),
    ('Door', 'OPEN', 'RED'),
    ('Door', 'CLOSED', 'RED'),
    ('Door', 'LOCKED', 'RED'),
    ('Door', 'LOCKED', 'BLUE'),
    ('Door', 'CLOSED', 'NONE'),
    ('Key', 'RED'),
    ('Key', 'BLUE'),
    ('Telepod', 'RED'),
    ('Telepod', 'GREEN'),
    ('Beacon', 'YELLOW'),
    ('Box', ('Floor',)),
    ('Box', ('Key', 'RED')),
    ('Box', ('Wall',)),
    ('Box', ('Box', ('Telepod', 'RED'))),
    ('Box', ('Door', 'LOCKED', 'RED')),
]

HELD_CATALOG = [
    ('None',),
    ('Key', 'RED'),
    ('Key', 'BLUE'),
    ('Key', 'NONE'),
    # unusual but inside the declared state space
    ('Floor',),
    ('Wall',),
    ('Door', 'LOCKED', 'RED'),
    ('Telepod', 'RED'),
    ('Box', ('Key', 'RED')),
    ('MovingObstacle',),
]

SHAPES = [(1, 1), (1, 2), (2, 1), (1, 3), (2, 2), (2, 3), (3, 2), (3, 3), (4, 5)]


def random_model(pyrng, shape, weights=None):
    height, width = shape
    grid = [
        [
            pyrng.choices(CELL_CATALOG, weights=weights)[0]
            for _ in range(width)
        ]
        for _ in range(height)
    ]
    return {
        'grid': grid,
        'pos': (pyrng.randrange(height), pyrng.randrange(width)),
        'ori': pyrng.randrange(4),
        'held': pyrng.choice(HELD_CATALOG),
    }


# ---------------------------------------------------------------------------
# checking helpers
# ---------------------------------------------------------------------------

COUNTS = {}


def count(name, n=1):
    COUNTS[name] = COUNTS.get(name, 0) + n


def rng_fingerprint(rng):
    return repr(rng.bit_generator.state)


def check_transition(name, m, action, seed=0):
    """library in-place transition vs reference, incl. rng consumption

    returns (state_before_identities, state) for further identity checks
    """
    state = build_state(m)
    before = [list(row) for row in state.grid.objects]
    held_before = state.agent.grid_object

    lib_rng = rnd.default_rng(seed)
    ref_rng = rnd.default_rng(seed)
    expected = copy_model(m)
    REFS[name](expected, action, ref_rng)
    result = LIBS[name](state, action, rng=lib_rng)

    assert result is None, (name, m, action)
    got = enc_state(state)
    assert got == expected, (name, m, action, got, expected)
    assert rng_fingerprint(lib_rng) == rng_fingerprint(ref_rng), (
        name,
        m,
        action,
    )
    count(f'transition:{name}')
    return before, held_before, state


def make_spaces(shape, obs_shape=(3, 3)):
    state_space = StateSpace(Shape(*shape), DECLARED_TYPES, DECLARED_COLORS)
    observation_space = ObservationSpace(
        Shape(*obs_shape), DECLARED_TYPES, DECLARED_COLORS
    )
    return state_space, observation_space


REWARD_NAMES_FREE = [
    ('living_reward', {}),
    ('living_reward', {'reward': 0.25}),
    ('reach_exit', {}),
    ('bump_moving_obstacle', {}),
    ('bump_into_wall', {}),
    ('actuate_door', {}),
    ('pickndrop', {'object_type': Key}),
    ('overlap', {'object_type': Telepod, 'reward_on': 2.0}),
]
TERMINATING_NAMES_FREE = [
    ('reach_exit', {}),
    ('bump_moving_obstacle', {}),
    ('bump_into_wall', {}),
    ('overlap', {'object_type': Telepod}),
]
OBSERVATION_NAMES = [
    'fully_transparent',
    'partially_occluded',
    'raytracing',
    'stochastic_raytracing',
]


def make_env(shape, transition_names, variant, obs_shape=(3, 3), actions=None):
    """assemble a GridWorld out of built-in components (by factory name)"""
    state_space, observation_space = make_spaces(shape, obs_shape)
    action_space = ActionSpace(list(Action) if actions is None else actions)

    transition_function = tr_fs.factory(
        'chain',
        transition_functions=[
            tr_fs.factory(name) for name in transition_names
        ],
    )
    rewards = [
        rew_fs.factory(name, **kwargs)
        for i, (name, kwargs) in enumerate(REWARD_NAMES_FREE)
        if (i + variant) % 3 != 0
    ]
    reward_function = rew_fs.factory('reduce_sum', reward_functions=rewards)
    terminatings = [
        ter_fs.factory(name, **kwargs)
        for i, (name, kwargs) in enumerate(TERMINATING_NAMES_FREE)
        if (i + variant) % 2 == 0
    ]
    termination_function = ter_fs.factory(
        'reduce_any' if variant % 2 == 0 else 'reduce_all',
        terminating_functions=terminatings,
    )
    observation_function = obs_fs.factory(
        OBSERVATION_NAMES[variant % len(OBSERVATION_NAMES)],
        area=observation_space.area,
    )

    def reset_function(*, rng=None):
        raise AssertionError('reset is not used by this program')

    return GridWorld(
        state_space,
        action_space,
        observation_space,
        reset_function,
        transition_function,
        observation_function,
        reward_function,
        termination_function,
    )


def check_env_step(env, transition_names, m, action, seed):
    """closure/totality of functional_step + agreement with the reference"""
    shape = (len(m['grid']), len(m['grid'][0]))
    state = build_state(m)
    assert env.state_space.contains(state), m
    assert ref_state_in_space(
        m, shape, DECLARED_TYPE_NAMES, DECLARED_COLOR_NAMES
    )

    env.set_seed(seed)
    ref_rng = rnd.default_rng(seed)
    expected = copy_model(m)
    for name in transition_names:
        REFS[name](expected, action, ref_rng)

    next_state, reward, terminal = env.functional_step(state, action)

    # input state is untouched, next state is a different object
    assert enc_state(state) == m, (m, action)
    assert next_state is not state
    assert next_state.grid is not state.grid
    assert next_state.agent is not state.agent

    got = enc_state(next_state)
    assert got == expected, (transition_names, m, action, got, expected)
    assert rng_fingerprint(env._rng) == rng_fingerprint(ref_rng)

    # closure
    assert env.state_space.contains(next_state), (m, action)
    assert ref_state_in_space(
        got, shape, DECLARED_TYPE_NAMES, DECLARED_COLOR_NAMES
    ), (m, action)
    assert next_state.grid.shape == state.grid.shape
    assert isinstance(reward, float) and math.isfinite(reward), reward
    assert isinstance(terminal, bool), terminal

    # observation of the next state
    observation = env.functional_observation(next_state)
    assert isinstance(observation, Observation)
    assert env.observation_space.contains(observation)
    obs_shape = env.observation_space.grid_shape
    assert ref_observation_in_space(
        enc_state(observation),
        (obs_shape.height, obs_shape.width),
        DECLARED_TYPE_NAMES,
        DECLARED_COLOR_NAMES,
    )
    count('env_step')
    return next_state


def check_env_rejects(env, m, bad_actions):
    """actions outside the action space raise ValueError and change nothing"""
    state = build_state(m)
    env.set_seed(7)
    fingerprint = rng_fingerprint(env._rng)
    for bad in bad_actions:
        try:
            env.functional_step(state, bad)
        except ValueError:
            pass
        else:
            raise AssertionError(('not rejected', bad))
        assert enc_state(state) == m
        assert rng_fingerprint(env._rng) == fingerprint
        count('env_reject')


def report(title):
    print(title)
    for name in sorted(COUNTS):
        print(f'  {name}: {COUNTS[name]}')
    print('OK')


# ---------------------------------------------------------------------------
# program C: get_next_position / move_agent / turn_agent / move_obstacles /
# teleport
# ---------------------------------------------------------------------------

from gym_gridverse.rng import get_gv_rng, reset_gv_rng  # noqa: E402

FOCUS = ['move_agent', 'turn_agent', 'move_obstacles', 'teleport']

# cell distribution with many obstacles, telepods and free cells
OBSTACLE_WEIGHTS = [
    8 if t == ('Floor',) else 6 if t[0] in ('MovingObstacle', 'Telepod') else 1
    for t in CELL_CATALOG
]


def check_get_next_position():
    non_actions = [0, 1, 7, None, 'MOVE_FORWARD', (Action.MOVE_FORWARD,)]
    for y, x, k in itertools.product(range(-2, 6), range(-2, 6), range(4)):
        position = Position(y, x)
        for action in ALL_ACTIONS:
            got = get_next_position(position, ORIENTATIONS[k], action)
            if action.name in MOVE_TURNS:
                d = DELTAS[(k + MOVE_TURNS[action.name]) % 4]
                assert got == Position(y + d[0], x + d[1]), (y, x, k, action)
                assert type(got) is Position
            else:
                # the very same object is handed back
                assert got is position, (y, x, k, action)
            count('get_next_position')
        for action in non_actions:
            assert get_next_position(position, ORIENTATIONS[k], action) is position
            count('get_next_position.non_action')
    for unhashable in ([], {}, set()):
        try:
            get_next_position(Position(0, 0), Orientation.F, unhashable)
        except TypeError:
            count('get_next_position.unhashable')
        else:
            raise AssertionError('expected TypeError')


def check_poses_exhaustively(pyrng):
    """every pose x every action x every object in the way"""
    for shape in SHAPES[:-1]:
        height, width = shape
        for y, x, ori in itertools.product(
            range(height), range(width), range(4)
        ):
            base = random_model(pyrng, shape)
            base['pos'] = (y, x)
            base['ori'] = ori
            for held in (('None',), ('Key', 'RED'), ('Wall',)):
                base['held'] = held
                for action in ALL_ACTIONS:
                    targets = [None]
                    if action.name in MOVE_TURNS:
                        d = DELTAS[(ori + MOVE_TURNS[action.name]) % 4]
                        p = (y + d[0], x + d[1])
                        if in_grid(base, p):
                            targets = [(p, t) for t in CELL_CATALOG]
                    for target in targets:
                        m = copy_model(base)
                        if target is not None:
                            (py, px), t = target
                            m['grid'][py][px] = t
                        before, held_before, state = check_transition(
                            'move_agent', m, action
                        )
                        check_untouched(m, before, held_before, state)
                        if target is not None:
                            moved = enc_state(state)['pos'] != m['pos']
                            assert moved == (not blocks_movement(target[1]))
                        before, held_before, state = check_transition(
                            'turn_agent', m, action
                        )
                        check_untouched(m, before, held_before, state)
                        assert isinstance(state.agent.orientation, Orientation)


def check_untouched(m, before, held_before, state):
    for y, x in cells(m):
        assert state.grid.objects[y][x] is before[y][x]
    assert state.agent.grid_object is held_before
    assert enc_state(state)['grid'] == m['grid']


def check_turn_table():
    """four turns in the same direction are the identity, L and R cancel"""
    for k in range(4):
        m = {'grid': [[('Floor',)]], 'pos': (0, 0), 'ori': k, 'held': ('None',)}
        state = build_state(m)
        seen = []
        for _ in range(4):
            tr_fs.turn_agent(state, Action.TURN_RIGHT)
            seen.append(ORIENTATIONS.index(state.agent.orientation))
        assert seen == [(k + i) % 4 for i in (1, 2, 3, 4)], (k, seen)
        tr_fs.turn_agent(state, Action.TURN_LEFT)
        assert ORIENTATIONS.index(state.agent.orientation) == (k + 3) % 4
        tr_fs.turn_agent(state, Action.TURN_RIGHT)
        assert ORIENTATIONS.index(state.agent.orientation) == k
        for junk in (0, None, 'TURN_LEFT', 4):
            tr_fs.turn_agent(state, junk)
            assert ORIENTATIONS.index(state.agent.orientation) == k
        count('turn_table')


def check_stochastic(pyrng):
    """move_obstacles / teleport: outcome and random-number consumption"""
    for shape in SHAPES:
        n_models = 60 if shape != (4, 5) else 200
        for i in range(n_models):
            m = random_model(pyrng, shape, OBSTACLE_WEIGHTS)
            for seed in range(4):
                action = ALL_ACTIONS[(i + seed) % len(ALL_ACTIONS)]

                before, held_before, state = check_transition(
                    'move_obstacles', m, action, seed
                )
                # objects are swapped, never copied or created
                ids_before = sorted(id(obj) for row in before for obj in row)
                ids_after = sorted(
                    id(obj) for row in state.grid.objects for obj in row
                )
                assert ids_before == ids_after
                assert enc_state(state)['pos'] == m['pos']
                assert state.agent.grid_object is held_before

                before, held_before, state = check_transition(
                    'teleport', m, action, seed
                )
                check_untouched(m, before, held_before, state)

    # telepods: agent on every telepod, 0..3 partners of the same colour
    for n_same, n_other in itertools.product(range(4), range(3)):
        for trial in range(30):
            shape = pyrng.choice([(1, 6), (2, 3), (3, 3), (6, 1)])
            m = random_model(pyrng, shape)
            free = cells(m)
            pyrng.shuffle(free)
            for p in free:
                m['grid'][p[0]][p[1]] = pyrng.choice(
                    [('Floor',), ('Wall',), ('Key', 'RED'), ('Exit',)]
                )
            m['pos'] = free[0]
            m['grid'][free[0][0]][free[0][1]] = ('Telepod', 'RED')
            for p in free[1 : 1 + n_same]:
                m['grid'][p[0]][p[1]] = ('Telepod', 'RED')
            for p in free[1 + n_same : 1 + n_same + n_other]:
                m['grid'][p[0]][p[1]] = ('Telepod', 'BLUE')
            for seed in range(5):
                _, _, state = check_transition(
                    'teleport', m, Action.MOVE_FORWARD, seed
                )
                got = enc_state(state)['pos']
                if n_same == 0:
                    assert got == m['pos']
                else:
                    assert got != m['pos']
                    assert m['grid'][got[0]][got[1]] == ('Telepod', 'RED')
                count('telepod_table')

    # obstacles which cannot move consume no random numbers
    for shape in [(1, 1), (1, 3), (3, 3)]:
        m = {
            'grid': [[('MovingObstacle',)] * shape[1] for _ in range(shape[0])],
            'pos': (0, 0),
            'ori': 0,
            'held': ('None',),
        }
        state = build_state(m)
        rng = rnd.default_rng(3)
        fingerprint = rng_fingerprint(rng)
        tr_fs.move_obstacles(state, Action.ACTUATE, rng=rng)
        assert rng_fingerprint(rng) == fingerprint
        assert enc_state(state) == m
        count('stuck_obstacles')

    # rng=None falls back on the library-wide generator
    for i in range(60):
        m = random_model(pyrng, (3, 3), OBSTACLE_WEIGHTS)
        for name in ('move_obstacles', 'teleport'):
            expected = copy_model(m)
            ref_rng = rnd.default_rng(1000 + i)
            REFS[name](expected, Action.TURN_LEFT, ref_rng)
            reset_gv_rng(1000 + i)
            state = build_state(m)
            LIBS[name](state, Action.TURN_LEFT)
            assert enc_state(state) == expected, (name, m)
            assert rng_fingerprint(get_gv_rng()) == rng_fingerprint(ref_rng)
            count('global_rng')


def main():
    pyrng = random.Random(20240303)

    # 1. focused checks of the refactored functions
    check_get_next_position()
    check_turn_table()
    check_poses_exhaustively(pyrng)
    check_stochastic(pyrng)

    # 2. closure/totality through GridWorld.functional_step
    full = [
        'move_agent',
        'turn_agent',
        'pickndrop',
        'actuate_door',
        'actuate_box',
        'move_obstacles',
        'teleport',
    ]
    orders = [
        ['move_agent', 'turn_agent'],
        ['move_obstacles', 'move_agent', 'teleport'],
        ['teleport', 'move_agent', 'teleport', 'move_obstacles'],
        full,
        list(reversed(full)),
    ]
    variant = 0
    for shape in SHAPES:
        for order in orders:
            variant += 1
            env = make_env(shape, order, variant)
            for i in range(10 if shape != (4, 5) else 40):
                weights = OBSTACLE_WEIGHTS if i % 2 else None
                m = random_model(pyrng, shape, weights)
                for action in ALL_ACTIONS:
                    check_env_step(env, order, m, action, seed=i)

    # 2b. every pose on the border, facing every direction, every action
    for shape in [(1, 1), (1, 2), (2, 1), (2, 2), (3, 3)]:
        env = make_env(shape, full, variant=4)
        for y, x, ori in itertools.product(
            range(shape[0]), range(shape[1]), range(4)
        ):
            for i in range(4):
                m = random_model(pyrng, shape, OBSTACLE_WEIGHTS)
                m['pos'] = (y, x)
                m['ori'] = ori
                for action in ALL_ACTIONS:
                    check_env_step(env, full, m, action, seed=i)

    # 2c. rollouts
    for shape in [(2, 3), (3, 3), (4, 5)]:
        env = make_env(shape, full, variant=6)
        for episode in range(12):
            m = random_model(pyrng, shape, OBSTACLE_WEIGHTS)
            for t in range(30):
                action = pyrng.choice(ALL_ACTIONS)
                next_state = check_env_step(
                    env, full, m, action, 100 * episode + t
                )
                m = enc_state(next_state)

    # 3. actions outside the action space
    restricted = [Action.MOVE_FORWARD, Action.MOVE_LEFT, Action.TURN_RIGHT]
    env = make_env((3, 3), full, variant=1, actions=restricted)
    for i in range(20):
        m = random_model(pyrng, (3, 3), OBSTACLE_WEIGHTS)
        check_env_rejects(
            env,
            m,
            [
                Action.MOVE_RIGHT,
                Action.MOVE_BACKWARD,
                Action.TURN_LEFT,
                Action.ACTUATE,
                0,
                'MOVE_FORWARD',
                None,
            ],
        )
        for action in restricted:
            check_env_step(env, full, m, action, i)

    report('program C (movement / turning / obstacles / telepods)')


if __name__ == '__main__':
    main()
