"""C19 demo (change A): fan of rays = reference fan, and the ray property holds.

Runs unchanged on the pristine tree and with the patch applied.
"""
import itertools as itt
import math
import os
import random
import sys

sys.path.insert(0, os.getcwd())  # run from the worktree root

import numpy as np

from gym_gridverse.geometry import Area, Position
from gym_gridverse.grid import Grid
from gym_gridverse.grid_object import Floor, Wall
from gym_gridverse.envs.visibility_functions import raytracing
from gym_gridverse.utils import raytracing as rt


# ---- reference implementation (verbatim copy of the pristine algorithm) ----
def ref_compute_ray(position, area, *, radians, step_size):
    if not area.contains(position):
        raise ValueError('outside')
    y0, x0 = float(position.y), float(position.x)
    dy = step_size * math.sin(radians)
    dx = step_size * math.cos(radians)
    ray, seen = [], set()
    for i in itt.count():
        p = Position(round(y0 + i * dy), round(x0 + i * dx))
        if not area.contains(p):
            break
        if p not in seen:
            seen.add(p)
            ray.append(p)
    return ray


def ref_fan_radians(position, area):
    ys = np.linspace(area.ymin, area.ymax + 1, num=area.height + 1) - 0.5
    xs = np.linspace(area.xmin, area.xmax + 1, num=area.width + 1) - 0.5
    ys = ys - position.y
    xs = xs - position.x
    yys, xxs = np.meshgrid(ys, xs)
    radians = np.arctan2(yys, xxs)
    return np.sort(radians, axis=None)


def ref_compute_rays_fancy(position, area):
    return [
        ref_compute_ray(position, area, radians=rad, step_size=0.01)
        for rad in ref_fan_radians(position, area)
    ]


# ---- the property ----
def check_ray(ray, position, area):
    assert ray, 'empty ray'
    assert ray[0] == position, 'ray does not start at the origin'
    assert all(area.contains(p) for p in ray), 'ray leaves the area'
    assert len(set(ray)) == len(ray), 'ray revisits a cell'
    for p, q in zip(ray, ray[1:]):
        assert max(abs(p.y - q.y), abs(p.x - q.x)) == 1, 'ray jumps'
    last = ray[-1]
    assert (
        last.y in (area.ymin, area.ymax) or last.x in (area.xmin, area.xmax)
    ), 'ray does not end on the border'


def check_fan(rays, position, area):
    assert len(rays) == (area.height + 1) * (area.width + 1)
    for ray in rays:
        check_ray(ray, position, area)
    covered = set(itt.chain.from_iterable(rays))
    assert covered == set(area.positions()), 'fan misses cells'


AREAS = [
    Area((0, 0), (0, 0)),
    Area((0, 0), (0, 6)),
    Area((0, 6), (0, 0)),
    Area((3, 3), (-2, 4)),
    Area((0, 1), (0, 1)),
    Area((0, 2), (0, 4)),
    Area((0, 4), (0, 2)),
    Area((-1, 1), (-2, 2)),
    Area((-6, 0), (-3, 3)),  # default view area
    Area((-5, 1), (-2, 4)),  # asymmetric view area
    Area((-3, -1), (2, 7)),  # does not contain (0, 0)
    Area((10, 13), (-9, -5)),
    Area((0, 6), (0, 8)),
    Area((0, 8), (0, 6)),
    Area((1000, 1002), (-1003, -1000)),
]


def main():
    n_fans = 0
    for area in AREAS:
        positions = list(area.positions())
        for position in positions:
            rays = rt.compute_rays_fancy(position, area)
            expected = ref_compute_rays_fancy(position, area)
            assert rays == expected, (position, area)
            check_fan(rays, position, area)
            n_fans += 1

    # positions outside the area are rejected, as before
    for area, position in [
        (Area((-1, 1), (-2, 2)), Position(2, 0)),
        (Area((-1, 1), (-2, 2)), Position(0, -3)),
        (Area((0, 3), (0, 3)), Position(-1, -1)),
        (Area((0, 3), (0, 3)), Position(4, 4)),
    ]:
        for f in (rt.compute_rays_fancy, rt.cached_compute_rays_fancy):
            try:
                f(position, area)
            except ValueError:
                pass
            else:
                raise AssertionError('outside position accepted')

    # caching: any order of earlier queries, repeated queries, equal-but-distinct keys
    queries = [
        (position, area)
        for area in AREAS[:12]
        for position in area.positions()
    ]
    rnd = random.Random(19)
    for _ in range(2):
        rnd.shuffle(queries)
        for position, area in queries[:60]:
            cached = rt.cached_compute_rays_fancy(
                Position(position.y, position.x), Area(area.ys, area.xs)
            )
            assert cached == ref_compute_rays_fancy(position, area)
            again = rt.cached_compute_rays_fancy(position, area)
            assert again == cached
            check_fan(cached, position, area)

    # 1-degree fan: same ray checks (coverage is only promised for the edge fan)
    for area in AREAS[4:10]:
        for position in list(area.positions())[::7]:
            rays = rt.compute_rays(position, area)
            assert len(rays) == 360
            for deg, ray in enumerate(rays):
                assert ray == ref_compute_ray(
                    position, area, radians=deg * math.pi / 180.0, step_size=0.01
                )
                check_ray(ray, position, area)

    # unobstructed ray-traced view shows everything; non-square grids
    for height, width in [(1, 1), (1, 5), (5, 1), (3, 7), (7, 3), (7, 7)]:
        grid = Grid.from_shape((height, width), factory=Floor)
        for position in grid.area.positions():
            visibility = raytracing(grid, position)
            assert visibility.shape == (height, width)
            assert visibility.all(), (height, width, position)
            visibility = raytracing(
                grid, position, absolute_counts=False, threshold=1.0
            )
            assert visibility.all()

    # walled room: hard-coded expectation
    grid = Grid.from_shape((3, 5), factory=Floor)
    grid[Position(1, 2)] = Wall()
    visibility = raytracing(grid, Position(1, 0))
    expected = np.array(
        [
            [1, 1, 1, 1, 1],
            [1, 1, 1, 0, 0],
            [1, 1, 1, 1, 1],
        ],
        dtype=bool,
    )
    assert visibility.dtype == bool
    assert (visibility == expected).all(), visibility.astype(int)

    # Area.relative_to, when it exists, is the translation by -position
    if hasattr(Area, 'relative_to'):
        for area in AREAS:
            for position in [Position(0, 0), Position(-3, 5), Position(7, -2)]:
                assert area.relative_to(position) == (-position) + area
                assert area.relative_to(position).height == area.height
                assert area.relative_to(position).width == area.width

    print(f'OK ({n_fans} fans checked)')
    return 0


if __name__ == '__main__':
    sys.exit(main())
