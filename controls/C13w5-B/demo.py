"""C13 demo (refactoring B): reset functions produce well-formed initial states.

Run as:  cd /tmp/wt5-C13 && /venv/bin/python -W ignore _seed/B/demo.py

Two independent checks are made for every (reset function, parameters, seed):

1. ORACLE: an independent re-implementation of the eight built-in reset
   functions, written directly on lists of tuples with raw numpy generator
   calls (no gym_gridverse code), must produce *exactly* the same state (every
   cell type/colour/status, agent position/orientation/held object) from the
   same seed, leave the generator in the same internal state afterwards (same
   number and order of random draws), or raise the same exception type with
   the same message.

2. PROPERTY: the state returned by the library is well-formed in the sense
   of C13 (shape, wall boundary, agent placement, advertised inventory).

The sweep emphasises the functions touched by refactoring B (`keydoor`,
`crossing`, `teleport`: dense shape/parameter/seed sweeps, other river object
types, factory access), but covers all eight built-in reset functions.
"""
import itertools
import os
import sys

sys.path.insert(0, os.getcwd())

import numpy as np  # noqa: E402
import numpy.random as rnd  # noqa: E402

from gym_gridverse.envs import reset_functions as rf  # noqa: E402
from gym_gridverse.geometry import Orientation, Position, Shape  # noqa: E402
from gym_gridverse.grid_object import (  # noqa: E402
    Beacon,
    Color,
    Door,
    Exit,
    Floor,
    Key,
    MovingObstacle,
    NoneGridObject,
    Telepod,
    Wall,
)

# --------------------------------------------------------------------------
# independent oracle: cells are tuples, grid is a list of lists
# --------------------------------------------------------------------------

FLOOR = ('Floor',)
WALL = ('Wall',)
OBSTACLE = ('MovingObstacle',)
ORIENTATIONS = ['FORWARD', 'BACKWARD', 'LEFT', 'RIGHT']


def o_exit(color='NONE'):
    return ('Exit', color)


def o_blank(h, w):
    return [[FLOOR for _ in range(w)] for _ in range(h)]


def o_floor_positions(cells):
    return [
        (y, x)
        for y, row in enumerate(cells)
        for x, cell in enumerate(row)
        if cell == FLOOR
    ]


def o_empty(h, w, random_agent=False, random_exit=False, *, rng):
    if h < 4 or w < 4:
        raise ValueError('height and width need to be at least 4')
    cells = o_blank(h, w)
    for y in range(h):
        for x in range(w):
            if y in (0, h - 1) or x in (0, w - 1):
                cells[y][x] = WALL
    if random_exit:
        candidates = [
            (y, x)
            for y in range(1, h - 1)
            for x in range(1, w - 1)
            if random_agent or (y, x) != (1, 1)
        ]
        exit_pos = candidates[rng.choice(len(candidates))]
    else:
        exit_pos = (h - 2, w - 2)
    cells[exit_pos[0]][exit_pos[1]] = o_exit()
    if random_agent:
        floors = o_floor_positions(cells)
        pos = floors[rng.choice(len(floors))]
        ori = ORIENTATIONS[rng.choice(4)]
    else:
        pos, ori = (1, 1), 'RIGHT'
    return cells, pos, ori


def o_room_grid(h, w, layout, rng, label_h, label_w):
    lh, lw = layout
    ys = np.linspace(0, h - 1, num=lh + 1, dtype=int)
    if len(set(ys.tolist())) != len(ys):
        raise ValueError(f'insufficient {label_h} ({h}) for layout ({layout})')
    xs = np.linspace(0, w - 1, num=lw + 1, dtype=int)
    if len(set(xs.tolist())) != len(xs):
        raise ValueError(f'insufficient {label_w} ({w}) for layout ({layout})')
    ys, xs = ys.tolist(), xs.tolist()
    cells = o_blank(h, w)
    ymin, ymax, xmin, xmax = min(ys), max(ys), min(xs), max(xs)
    for y in range(h):
        for x in range(w):
            on_h = y in ys and xmin <= x <= xmax
            on_v = x in xs and ymin <= y <= ymax
            if on_h or on_v:
                cells[y][x] = WALL
    for y in ys[1:-1]:
        for x_from, x_to in zip(xs, xs[1:]):
            x = int(rng.integers(x_from + 1, x_to))
            cells[y][x] = FLOOR
    for y_from, y_to in zip(ys, ys[1:]):
        for x in xs[1:-1]:
            y = int(rng.integers(y_from + 1, y_to))
            cells[y][x] = FLOOR
    return cells


def o_rooms(h, w, layout, *, rng):
    cells = o_room_grid(h, w, layout, rng, 'height', 'width')
    floors = o_floor_positions(cells)
    i_agent, i_exit = rng.choice(len(floors), size=2, replace=False)
    ori = ORIENTATIONS[rng.choice(4)]
    ey, ex = floors[i_exit]
    cells[ey][ex] = o_exit()
    return cells, floors[i_agent], ori


def o_dynamic_obstacles(h, w, num_obstacles, random_agent=False, *, rng):
    cells, pos, ori = o_empty(h, w, random_agent, rng=rng)
    vacant = [p for p in o_floor_positions(cells) if p != pos]
    try:
        indices = rng.choice(len(vacant), size=num_obstacles, replace=False)
    except ValueError:
        raise ValueError(
            f'Too many obstacles ({num_obstacles}) and not enough '
            f'vacant positions ({len(vacant)})'
        )
    for i in indices:
        y, x = vacant[i]
        cells[y][x] = OBSTACLE
    return cells, pos, ori


def o_keydoor(h, w, *, rng):
    if h < 3 or w < 5 or (h, w) == (3, 5):
        raise ValueError(
            f'Shape must larger than (3, 5), given Shape(height={h}, width={w})'
        )
    cells, _, _ = o_empty(h, w, rng=None)
    x_wall = int(rng.integers(2, w - 3, endpoint=True))
    line = [(y, x_wall) for y in range(1, h - 1)]
    for y, x in line:
        cells[y][x] = WALL
    dy, dx = line[rng.choice(len(line))]
    cells[dy][dx] = ('Door', 'LOCKED', 'YELLOW')
    y_key = int(rng.integers(1, h - 2, endpoint=True))
    x_key = int(rng.integers(1, x_wall - 1, endpoint=True))
    cells[y_key][x_key] = ('Key', 'YELLOW')
    y_agent = int(rng.integers(1, h - 2, endpoint=True))
    x_agent = int(rng.integers(1, x_wall - 1, endpoint=True))
    ori = ORIENTATIONS[rng.choice(4)]
    return cells, (y_agent, x_agent), ori


def o_shuffle(rng, data):
    indices = list(range(len(data)))
    rng.shuffle(indices)
    return [data[i] for i in indices]


def o_crossing(h, w, num_rivers, river_cell, *, rng):
    if h < 5 or h % 2 == 0:
        raise ValueError(f'height ({h}) must be odd and >= 5')
    if w < 5 or w % 2 == 0:
        raise ValueError(f'width ({w}) must be odd and >= 5')
    if num_rivers <= 0:
        raise ValueError(f'number of rivers ({num_rivers}) must be positive')
    cells, _, _ = o_empty(h, w, rng=None)
    rivers = [('h', i) for i in range(2, h - 2, 2)]
    rivers += [('v', j) for j in range(2, w - 2, 2)]
    rivers = o_shuffle(rng, rivers)[:num_rivers]
    rows = sorted(p for d, p in rivers if d == 'h')
    cols = sorted(p for d, p in rivers if d == 'v')
    for y in rows:
        for x in range(1, w - 1):
            cells[y][x] = river_cell
    for x in cols:
        for y in range(1, h - 1):
            cells[y][x] = river_cell
    path = o_shuffle(rng, ['h'] * len(cols) + ['v'] * len(rows))
    lim_h = [0] + rows + [h - 1]
    lim_v = [0] + cols + [w - 1]
    ri = rj = 0
    for step in path:
        if step == 'h':
            i = int(rng.integers(lim_h[ri] + 1, lim_h[ri + 1]))
            j = lim_v[rj + 1]
            rj += 1
        else:
            i = lim_h[ri + 1]
            j = int(rng.integers(lim_v[rj] + 1, lim_v[rj + 1]))
            ri += 1
        cells[i][j] = FLOOR
    return cells, (1, 1), 'RIGHT'


def o_teleport(h, w, *, rng):
    cells, _, _ = o_empty(h, w, rng=None)
    rng.choice(2)  # first orientation draw, overwritten below
    vacant = [p for p in o_floor_positions(cells) if p != (1, 1)]
    picked = rng.choice(np.array(vacant), size=2, replace=False)
    for y, x in picked:
        cells[int(y)][int(x)] = ('Telepod', 'RED')
    ori = ['RIGHT', 'BACKWARD'][rng.choice(2)]
    return cells, (1, 1), ori


def o_sorted_colors(colors):
    order = ['NONE', 'RED', 'GREEN', 'BLUE', 'YELLOW']
    return sorted(colors, key=order.index)


def o_memory(h, w, colors, *, rng):
    if h < 5:
        raise ValueError(f'height ({h}) must be >= 5')
    if w < 5 or w % 2 == 0:
        raise ValueError(f'width ({w}) must be odd and >= 5')
    if 'NONE' in colors:
        raise ValueError('colors must not include NONE')  # message unchecked
    if len(colors) < 2:
        raise ValueError('colors must have at least 2')  # message unchecked
    cells = [[WALL for _ in range(w)] for _ in range(h)]
    for x in range(2, w - 2):
        cells[1][x] = FLOOR
        cells[h - 2][x] = FLOOR
    for y in range(2, h - 2):
        cells[y][w // 2] = FLOOR
    palette = o_sorted_colors(colors)
    i_good, i_bad = rng.choice(len(palette), size=2, replace=False)
    xs = [1, w - 2]
    j_good, j_bad = rng.choice(2, size=2, replace=False)
    cells[1][xs[j_good]] = o_exit(palette[i_good])
    cells[1][xs[j_bad]] = o_exit(palette[i_bad])
    cells[h - 2][1] = ('Beacon', palette[i_good])
    cells[h - 2][w - 2] = ('Beacon', palette[i_good])
    return cells, (h // 2, w // 2), 'FORWARD'


def o_memory_rooms(h, w, layout, colors, num_beacons, num_exits, *, rng):
    if 'NONE' in colors:
        raise ValueError('colors must not include NONE')  # message unchecked
    if len(colors) < 2:
        raise ValueError('colors must have at least 2')  # message unchecked
    if num_beacons < 1:
        raise ValueError(f'num_beacons ({num_beacons}) must be positive')
    if num_exits < 2:
        raise ValueError(f'num_exits ({num_exits}) must be >= 2')
    cells = o_room_grid(h, w, layout, rng, 'shape.height', 'shape.width')
    floors = o_floor_positions(cells)
    indices = rng.choice(
        len(floors), size=1 + num_beacons + num_exits, replace=False
    )
    picked = [floors[i] for i in indices]
    ori = ORIENTATIONS[rng.choice(4)]
    palette = o_sorted_colors(colors)
    color_indices = rng.choice(len(palette), size=num_exits, replace=False)
    sample_colors = [palette[i] for i in color_indices]
    for y, x in picked[1 : 1 + num_beacons]:
        cells[y][x] = ('Beacon', sample_colors[0])
    for (y, x), color in zip(picked[1 + num_beacons :], sample_colors):
        cells[y][x] = o_exit(color)
    return cells, picked[0], ori


# --------------------------------------------------------------------------
# encoding of library states, comparison harness
# --------------------------------------------------------------------------


def encode_object(obj):
    name = type(obj).__name__
    if name in ('Floor', 'Wall', 'MovingObstacle'):
        return (name,)
    if name == 'Door':
        return (name, obj.state.name, obj.color.name)
    if name in ('Exit', 'Key', 'Telepod', 'Beacon'):
        return (name, obj.color.name)
    raise AssertionError(f'unexpected object {obj!r}')


def encode_state(state):
    h, w = state.grid.shape.height, state.grid.shape.width
    cells = [
        [encode_object(state.grid[Position(y, x)]) for x in range(w)]
        for y in range(h)
    ]
    # the raw storage must agree with the accessor, and must not alias
    assert len(state.grid.objects) == h
    assert all(len(row) == w for row in state.grid.objects)
    ids = [id(obj) for row in state.grid.objects for obj in row]
    assert len(set(ids)) == len(ids), 'aliased grid objects'
    assert type(state.agent.grid_object) is NoneGridObject
    pos = (int(state.agent.position.y), int(state.agent.position.x))
    return cells, pos, state.agent.orientation.name


def outcome(function, *args, seed, check_message=True, **kwargs):
    """runs a function, returns (kind, payload, generator state afterwards)"""
    rng = rnd.default_rng(seed)
    try:
        result = function(*args, rng=rng, **kwargs)
    except Exception as error:  # pylint: disable=broad-except
        message = str(error) if check_message else None
        return ('raise', (type(error).__name__, message), None)
    return ('return', result, rng.bit_generator.state)


counters = {}


def compare(name, lib_call, oracle_call, seed, *, check_message=True):
    """library and oracle must agree; returns the library state or None"""
    kind_l, payload_l, rng_l = outcome(
        lib_call, seed=seed, check_message=check_message
    )
    kind_o, payload_o, rng_o = outcome(
        oracle_call, seed=seed, check_message=check_message
    )
    assert kind_l == kind_o, (name, seed, kind_l, payload_l, kind_o, payload_o)
    counters[(name, kind_l)] = counters.get((name, kind_l), 0) + 1
    if kind_l == 'raise':
        assert payload_l == payload_o, (name, seed, payload_l, payload_o)
        return None
    encoded = encode_state(payload_l)
    assert encoded == payload_o, (name, seed, encoded, payload_o)
    assert rng_l == rng_o, (name, seed, 'random draws differ')
    return payload_l


# --------------------------------------------------------------------------
# property C13 on library states
# --------------------------------------------------------------------------


def count(state, cls):
    return sum(
        isinstance(state.grid[p], cls) for p in state.grid.area.positions()
    )


def positions_of(state, cls):
    return [
        p for p in state.grid.area.positions() if isinstance(state.grid[p], cls)
    ]


def check_common(state, h, w, *, boundary=True):
    grid, agent = state.grid, state.agent
    assert grid.shape == Shape(h, w)
    assert len(grid.objects) == h and all(len(r) == w for r in grid.objects)
    if boundary:
        for y in range(h):
            for x in range(w):
                if y in (0, h - 1) or x in (0, w - 1):
                    assert type(grid[y, x]) is Wall, (y, x, grid[y, x])
    y, x = agent.position.y, agent.position.x
    assert 0 <= y < h and 0 <= x < w
    assert isinstance(agent.orientation, Orientation)
    assert type(agent.grid_object) is NoneGridObject
    cell = grid[agent.position]
    assert not cell.blocks_movement
    assert not isinstance(cell, (Exit, MovingObstacle, Telepod))


def color_args(names):
    return {Color[name] for name in names}


# --------------------------------------------------------------------------
# sweeps
# --------------------------------------------------------------------------


def sweep_empty():
    shapes = [(h, w) for h in range(1, 9) for w in range(1, 9)]
    shapes += [(4, 15), (15, 4), (12, 12)]
    for (h, w), ra, re in itertools.product(
        shapes, [False, True], [False, True]
    ):
        seeds = range(25) if (ra or re) else range(2)
        for seed in seeds:
            state = compare(
                'empty',
                lambda rng: rf.empty(Shape(h, w), ra, re, rng=rng),
                lambda rng: o_empty(h, w, ra, re, rng=rng),
                seed,
            )
            if state is None:
                assert h < 4 or w < 4
                continue
            assert h >= 4 and w >= 4
            check_common(state, h, w)
            assert count(state, Exit) == 1
            assert count(state, Wall) == 2 * h + 2 * w - 4
            assert count(state, Floor) == (h - 2) * (w - 2) - 1
            if not re:
                assert isinstance(state.grid[h - 2, w - 2], Exit)
            if not ra:
                assert state.agent.position == Position(1, 1)
                assert state.agent.orientation is Orientation.R


def rooms_expected_ok(h, w, layout):
    lh, lw = layout
    ys = np.linspace(0, h - 1, num=lh + 1, dtype=int).tolist()
    xs = np.linspace(0, w - 1, num=lw + 1, dtype=int).tolist()
    return len(set(ys)) == len(ys) and len(set(xs)) == len(xs)


def check_rooms_connectivity(state, h, w, layout=None, *, exit_only=False):
    """all non-wall cells are connected (every room has its passages)

    NOTE: only checked when every room has an inside (wall coordinates at
    least 2 apart);  the library accepts layouts with zero-width rooms, whose
    passages are isolated cells.
    """
    if layout is not None:
        lh, lw = layout
        ys = np.linspace(0, h - 1, num=lh + 1, dtype=int).tolist()
        xs = np.linspace(0, w - 1, num=lw + 1, dtype=int).tolist()
        gaps = [b - a for a, b in zip(ys, ys[1:])]
        gaps += [b - a for a, b in zip(xs, xs[1:])]
        if min(gaps) < 2:
            return
    free = {
        (p.y, p.x)
        for p in state.grid.area.positions()
        if not isinstance(state.grid[p], Wall)
    }
    start = (state.agent.position.y, state.agent.position.x)
    seen, todo = {start}, [start]
    while todo:
        y, x = todo.pop()
        for q in ((y + 1, x), (y - 1, x), (y, x + 1), (y, x - 1)):
            if q in free and q not in seen:
                seen.add(q)
                todo.append(q)
    if exit_only:
        # the exit is reachable from the agent
        (exit_position,) = positions_of(state, Exit)
        assert (exit_position.y, exit_position.x) in seen, (h, w)
    else:
        assert seen == free, (h, w, layout)


def sweep_rooms():
    shapes = [(h, w) for h in range(1, 8) for w in range(1, 8)]
    shapes += [(9, 13), (13, 9), (10, 10), (16, 7), (11, 21)]
    layouts = [(lh, lw) for lh in range(1, 5) for lw in range(1, 5)]
    for (h, w), layout in itertools.product(shapes, layouts):
        ok = rooms_expected_ok(h, w, layout)
        for seed in range(12 if ok else 1):
            state = compare(
                'rooms',
                lambda rng: rf.rooms(Shape(h, w), layout, rng=rng),
                lambda rng: o_rooms(h, w, layout, rng=rng),
                seed,
            )
            if state is None:
                continue
            assert ok
            check_common(state, h, w)
            assert count(state, Exit) == 1
            assert state.agent.position not in positions_of(state, Exit)
            check_rooms_connectivity(state, h, w, layout)
    # degenerate layouts: only the exception type is compared
    for layout in [(0, 1), (1, 0), (-1, 2), (2, -1), (0, 0)]:
        for h, w in [(1, 1), (5, 5), (7, 9)]:
            compare(
                'rooms-degenerate',
                lambda rng: rf.rooms(Shape(h, w), layout, rng=rng),
                lambda rng: o_rooms(h, w, layout, rng=rng),
                0,
                check_message=False,
            )


def sweep_memory_rooms():
    shapes = [(1, 1), (3, 3), (4, 6), (5, 5), (7, 7), (9, 13), (13, 9), (10, 16)]
    layouts = [(1, 1), (1, 2), (2, 1), (2, 2), (3, 2), (2, 3), (3, 3), (4, 4)]
    palettes = [
        ('RED', 'GREEN'),
        ('YELLOW', 'BLUE', 'RED'),
        ('RED', 'GREEN', 'BLUE', 'YELLOW'),
        ('RED',),
        ('NONE', 'RED', 'GREEN'),
    ]
    for (h, w), layout, palette, nb, ne in itertools.product(
        shapes, layouts, palettes, [0, 1, 3], [1, 2, 3, 4]
    ):
        valid_args = (
            'NONE' not in palette and len(palette) >= 2 and nb >= 1 and ne >= 2
        )
        message_ok = 'NONE' not in palette and len(palette) >= 2
        colors = color_args(palette)
        for seed in range(6 if valid_args else 1):
            state = compare(
                'memory_rooms',
                lambda rng: rf.memory_rooms(
                    Shape(h, w), layout, colors, nb, ne, rng=rng
                ),
                lambda rng: o_memory_rooms(
                    h, w, layout, set(palette), nb, ne, rng=rng
                ),
                seed,
                check_message=message_ok,
            )
            if state is None:
                continue
            assert valid_args and rooms_expected_ok(h, w, layout)
            assert ne <= len(palette)
            check_common(state, h, w)
            exits = [state.grid[p] for p in positions_of(state, Exit)]
            beacons = [state.grid[p] for p in positions_of(state, Beacon)]
            assert len(exits) == ne and len(beacons) == nb
            exit_colors = [e.color for e in exits]
            assert len(set(exit_colors)) == ne
            assert set(exit_colors) <= colors
            assert len({b.color for b in beacons}) == 1
            assert exit_colors.count(beacons[0].color) == 1
            assert not isinstance(state.grid[state.agent.position], Beacon)
            check_rooms_connectivity(state, h, w, layout)


def sweep_built_on_empty():
    # dynamic_obstacles (uses empty with random agent, i.e., _floor_positions)
    for (h, w), n, ra in itertools.product(
        [(1, 1), (3, 6), (4, 4), (4, 5), (5, 5), (6, 9), (10, 10)],
        [-1, 0, 1, 2, 3, 5, 8, 9, 40, 63, 64],
        [False, True],
    ):
        for seed in range(8):
            state = compare(
                'dynamic_obstacles',
                lambda rng: rf.dynamic_obstacles(Shape(h, w), n, ra, rng=rng),
                lambda rng: o_dynamic_obstacles(h, w, n, ra, rng=rng),
                seed,
            )
            if state is None:
                assert h < 4 or w < 4 or n < 0 or n > (h - 2) * (w - 2) - 2
                continue
            check_common(state, h, w)
            assert count(state, MovingObstacle) == n
            assert count(state, Exit) == 1

    # keydoor
    for h, w in [(h, w) for h in range(1, 8) for w in range(1, 10)] + [(12, 15)]:
        for seed in range(10):
            state = compare(
                'keydoor',
                lambda rng: rf.keydoor(Shape(h, w), rng=rng),
                lambda rng: o_keydoor(h, w, rng=rng),
                seed,
            )
            if state is None:
                assert h < 4 or w < 5
                continue
            check_common(state, h, w)
            (door_p,) = positions_of(state, Door)
            (key_p,) = positions_of(state, Key)
            door, key = state.grid[door_p], state.grid[key_p]
            assert door.is_locked and door.color is key.color is Color.YELLOW
            assert count(state, Exit) == 1
            for y in range(1, h - 1):
                cell = state.grid[y, door_p.x]
                assert isinstance(cell, (Wall, Door))
            assert key_p.x < door_p.x and state.agent.position.x < door_p.x

    # crossing
    for (h, w), n in itertools.product(
        [(3, 5), (5, 5), (5, 6), (6, 5), (5, 9), (7, 7), (9, 13), (13, 13)],
        [-1, 0, 1, 2, 3, 5, 20],
    ):
        for seed in range(8):
            state = compare(
                'crossing',
                lambda rng: rf.crossing(Shape(h, w), n, Wall, rng=rng),
                lambda rng: o_crossing(h, w, n, WALL, rng=rng),
                seed,
            )
            if state is None:
                continue
            check_common(state, h, w)
            assert count(state, Exit) == 1
            assert state.agent.position == Position(1, 1)
            check_rooms_connectivity(state, h, w, exit_only=True)

    # teleport
    for h, w in [(1, 1), (3, 4), (4, 4), (4, 5), (5, 4), (6, 6), (9, 13)]:
        for seed in range(12):
            state = compare(
                'teleport',
                lambda rng: rf.teleport(Shape(h, w), rng=rng),
                lambda rng: o_teleport(h, w, rng=rng),
                seed,
            )
            if state is None:
                assert h < 4 or w < 4
                continue
            check_common(state, h, w)
            pods = [state.grid[p] for p in positions_of(state, Telepod)]
            assert len(pods) == 2 and pods[0].color is pods[1].color
            assert pods[0] is not pods[1]
            assert count(state, Exit) == 1

    # memory
    for (h, w), palette in itertools.product(
        [(4, 5), (5, 4), (5, 5), (5, 6), (6, 7), (9, 9), (8, 13)],
        [
            ('RED', 'GREEN'),
            ('BLUE', 'YELLOW', 'GREEN', 'RED'),
            ('GREEN',),
            ('NONE', 'BLUE', 'RED'),
        ],
    ):
        message_ok = (
            h < 5
            or w < 5
            or w % 2 == 0
            or ('NONE' not in palette and len(palette) >= 2)
        )
        for seed in range(8):
            state = compare(
                'memory',
                lambda rng: rf.memory(Shape(h, w), color_args(palette), rng=rng),
                lambda rng: o_memory(h, w, set(palette), rng=rng),
                seed,
                check_message=message_ok,
            )
            if state is None:
                continue
            check_common(state, h, w)
            exits = [state.grid[p] for p in positions_of(state, Exit)]
            beacons = [state.grid[p] for p in positions_of(state, Beacon)]
            assert len(exits) == 2 and exits[0].color is not exits[1].color
            assert len(beacons) == 2 and beacons[0].color is beacons[1].color
            assert [e.color for e in exits].count(beacons[0].color) == 1


def check_registry_and_factory():
    names = [
        'empty',
        'rooms',
        'dynamic_obstacles',
        'keydoor',
        'crossing',
        'teleport',
        'memory',
        'memory_rooms',
    ]
    for name in names:
        assert name in rf.reset_function_registry, name
        assert rf.reset_function_registry[name] is getattr(rf, name)
    # through the factory, and with the library-level generator
    function = rf.factory('rooms', shape=Shape(9, 13), layout=(2, 3))
    state = function(rng=rnd.default_rng(7))
    assert encode_state(state) == o_rooms(9, 13, (2, 3), rng=rnd.default_rng(7))
    function = rf.factory(
        'memory_rooms',
        shape=Shape(9, 13),
        layout=(2, 2),
        colors=color_args(['RED', 'BLUE', 'GREEN']),
        num_beacons=2,
        num_exits=3,
    )
    state = function(rng=rnd.default_rng(11))
    assert encode_state(state) == o_memory_rooms(
        9, 13, (2, 2), {'RED', 'BLUE', 'GREEN'}, 2, 3, rng=rnd.default_rng(11)
    )
    function = rf.factory('empty', shape=Shape(6, 7), random_agent=True)
    from gym_gridverse.rng import reset_gv_rng

    reset_gv_rng(123)
    state = function()
    assert encode_state(state) == o_empty(
        6, 7, True, False, rng=rnd.default_rng(123)
    )


def sweep_keydoor_dense():
    shapes = [(h, w) for h in range(1, 10) for w in range(1, 12)]
    shapes += [(4, 30), (30, 6), (17, 17)]
    for h, w in shapes:
        valid = h >= 4 and w >= 5
        seen_walls, seen_agents = set(), set()
        for seed in range(40 if valid else 2):
            state = compare(
                'keydoor-dense',
                lambda rng: rf.keydoor(Shape(h, w), rng=rng),
                lambda rng: o_keydoor(h, w, rng=rng),
                seed,
            )
            assert (state is not None) == valid, (h, w)
            if state is None:
                continue
            check_common(state, h, w)
            (door_p,) = positions_of(state, Door)
            (key_p,) = positions_of(state, Key)
            door, key = state.grid[door_p], state.grid[key_p]
            assert door.state is Door.Status.LOCKED
            assert door.color is Color.YELLOW and key.color is Color.YELLOW
            assert 2 <= door_p.x <= w - 3 and 1 <= door_p.y <= h - 2
            # the dividing wall is whole, apart from the door
            for y in range(1, h - 1):
                expected = Door if y == door_p.y else Wall
                assert type(state.grid[y, door_p.x]) is expected
            # nothing else inside but floor, key, exit
            assert count(state, Wall) == 2 * h + 2 * w - 4 + (h - 3)
            assert count(state, Exit) == 1
            assert isinstance(state.grid[h - 2, w - 2], Exit)
            assert count(state, Floor) == (h - 2) * (w - 2) - (h - 2) - 2
            assert 1 <= key_p.x < door_p.x and 1 <= key_p.y <= h - 2
            a = state.agent.position
            assert 1 <= a.x < door_p.x and 1 <= a.y <= h - 2
            assert isinstance(a.y, (int, np.integer))
            seen_walls.add(door_p.x)
            seen_agents.add((a.y, a.x))
        if valid and w >= 7:
            assert len(seen_walls) > 1 and len(seen_agents) > 1
    # through the factory
    function = rf.factory('keydoor', shape=Shape(7, 9))
    for seed in range(5):
        state = function(rng=rnd.default_rng(seed))
        assert encode_state(state) == o_keydoor(7, 9, rng=rnd.default_rng(seed))


def sweep_crossing_dense():
    shapes = [(h, w) for h in range(1, 12) for w in range(1, 12)]
    shapes += [(5, 21), (21, 5), (15, 17)]
    river_types = [
        (Wall, WALL),
        (MovingObstacle, OBSTACLE),
        (Exit, o_exit()),
        (lambda: Key(Color.BLUE), ('Key', 'BLUE')),
    ]
    for (h, w), n in itertools.product(shapes, [-2, 0, 1, 2, 3, 4, 6, 9, 50]):
        valid = h >= 5 and w >= 5 and h % 2 == 1 and w % 2 == 1 and n > 0
        for (river_type, river_cell), seed in itertools.product(
            river_types if valid else river_types[:1],
            range(10 if valid else 1),
        ):
            state = compare(
                'crossing-dense',
                lambda rng: rf.crossing(Shape(h, w), n, river_type, rng=rng),
                lambda rng: o_crossing(h, w, n, river_cell, rng=rng),
                seed,
            )
            assert (state is not None) == valid, (h, w, n)
            if state is None or river_type is not Wall:
                continue
            check_common(state, h, w)
            assert count(state, Exit) == 1
            assert isinstance(state.grid[h - 2, w - 2], Exit)
            assert state.agent.position == Position(1, 1)
            assert state.agent.orientation is Orientation.R
            # rivers: even rows/columns made of walls, with at most one
            # opening each (a non-river row has >= (w - 1) / 2 >= 2 free cells)
            rows = [
                y
                for y in range(2, h - 2, 2)
                if sum(
                    type(state.grid[y, x]) is not Wall for x in range(1, w - 1)
                )
                <= 1
            ]
            cols = [
                x
                for x in range(2, w - 2, 2)
                if sum(
                    type(state.grid[y, x]) is not Wall for y in range(1, h - 1)
                )
                <= 1
            ]
            available = len(range(2, h - 2, 2)) + len(range(2, w - 2, 2))
            assert len(rows) + len(cols) == min(n, available), (h, w, n)
            # one opening per crossed river on the path:  odd cells are never
            # river cells, and the exit is reachable from the agent
            for y in range(1, h - 1, 2):
                for x in range(1, w - 1, 2):
                    assert not isinstance(state.grid[y, x], Wall)
            check_rooms_connectivity(state, h, w, exit_only=True)
    # through the factory
    function = rf.factory(
        'crossing', shape=Shape(9, 11), num_rivers=4, object_type=Wall
    )
    for seed in range(5):
        state = function(rng=rnd.default_rng(seed))
        assert encode_state(state) == o_crossing(
            9, 11, 4, WALL, rng=rnd.default_rng(seed)
        )


def sweep_teleport_dense():
    shapes = [(h, w) for h in range(1, 9) for w in range(1, 9)]
    shapes += [(4, 19), (19, 4), (12, 14)]
    for h, w in shapes:
        valid = h >= 4 and w >= 4
        seen = set()
        for seed in range(40 if valid else 2):
            state = compare(
                'teleport-dense',
                lambda rng: rf.teleport(Shape(h, w), rng=rng),
                lambda rng: o_teleport(h, w, rng=rng),
                seed,
            )
            assert (state is not None) == valid, (h, w)
            if state is None:
                continue
            check_common(state, h, w)
            pod_ps = positions_of(state, Telepod)
            assert len(pod_ps) == 2
            pods = [state.grid[p] for p in pod_ps]
            assert pods[0] is not pods[1]
            assert pods[0].color is Color.RED and pods[1].color is Color.RED
            assert Position(1, 1) not in pod_ps
            assert state.agent.position == Position(1, 1)
            assert state.agent.orientation in (Orientation.R, Orientation.B)
            assert count(state, Exit) == 1
            assert isinstance(state.grid[h - 2, w - 2], Exit)
            assert count(state, Wall) == 2 * h + 2 * w - 4
            assert count(state, Floor) == (h - 2) * (w - 2) - 3
            seen.add((tuple(p.yx for p in pod_ps), state.agent.orientation))
        if valid and (h, w) != (4, 4):
            assert len(seen) > 1
    # through the factory
    function = rf.factory('teleport', shape=Shape(6, 8))
    for seed in range(5):
        state = function(rng=rnd.default_rng(seed))
        assert encode_state(state) == o_teleport(6, 8, rng=rnd.default_rng(seed))


def main():
    check_registry_and_factory()
    sweep_keydoor_dense()
    sweep_crossing_dense()
    sweep_teleport_dense()
    sweep_built_on_empty()
    sweep_empty()
    sweep_rooms()
    sweep_memory_rooms()
    total = sum(counters.values())
    for key in sorted(counters):
        print(f'{key[0]:>20s} {key[1]:>6s} {counters[key]:6d}')
    print(f'OK: {total} (function, parameters, seed) cases agree with the oracle')


if __name__ == '__main__':
    main()
