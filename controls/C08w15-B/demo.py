#!/usr/bin/env python
"""Demo for change B (C08, agent kinematics).

Runs from the worktree root:  /venv/bin/python _seed/B/demo.py

Change B lets `Area.contains` accept plain ``(y, x)`` pairs besides
`Position`s and makes `Grid.subgrid` use it.  Against reference
implementations embedded here (plain integer comparisons, hard-coded tables)
this demo checks that

* `Area.contains` answers exactly `ymin <= y <= ymax and xmin <= x <= xmax`
  with a real `bool`, for areas at the origin, offset, negative, degenerate
  (one cell / one row / one column) and huge, for positions inside, on every
  border and corner, and just outside;  where tuples are accepted (i.e. with
  the patch) they answer the same as the corresponding `Position`;
* `Grid.subgrid` returns the very same objects for cells inside the grid and
  `Hidden` for cells outside, for areas inside / overlapping every edge and
  corner / entirely outside / larger than the grid, on non-square grids;
* `fully_transparent` observations (asymmetric view areas, four headings, agent
  in corners) match a reference built from hand-written rotations;
* `move_agent` displaces the agent iff the target cell is inside the grid and
  does not block movement (every object type and status, every grid shape,
  every pose incl. edges and corners, every action), `turn_agent` rotates by
  quarter turns and never displaces;
* in rollouts of all 21 shipped configurations (rebuilt through the python
  API) the agent never leaves the grid nor stands on a blocking cell, only
  teleportation changes the pose besides moves/turns, trajectories are
  reproducible on re-seeding and independent of other environments running in
  the same process, and `StateSpace.contains`-style membership of the agent
  position agrees with the reference at every step.

Exits 0 iff everything holds.  Works with and without the patch.
"""
import itertools as itt
import os
import sys

# run from the worktree root: make `import gym_gridverse` pick up the worktree
sys.path.insert(0, os.getcwd())

import numpy as np  # noqa: E402

from gym_gridverse.action import Action
from gym_gridverse.agent import Agent
from gym_gridverse.envs import observation_functions as of
from gym_gridverse.envs import reset_functions as rf
from gym_gridverse.envs import transition_functions as tf
from gym_gridverse.envs.utils import get_next_position
from gym_gridverse.geometry import Area, Orientation, Position, Shape
from gym_gridverse.grid import Grid
from gym_gridverse.grid_object import (
    Beacon,
    Box,
    Color,
    Door,
    Exit,
    Floor,
    Hidden,
    Key,
    MovingObstacle,
    NoneGridObject,
    Telepod,
    Wall,
)
from gym_gridverse.rng import make_rng
from gym_gridverse.state import State

F, B, L, R = (
    Orientation.FORWARD,
    Orientation.BACKWARD,
    Orientation.LEFT,
    Orientation.RIGHT,
)
HEADINGS = [F, R, B, L]

# ---------------------------------------------------------------- reference

# heading -> (dy, dx) of "one cell ahead";  y grows downward, x rightward
AHEAD = {F: (-1, 0), R: (0, 1), B: (1, 0), L: (0, -1)}

# (heading, move action) -> (dy, dx), written out by hand
REF_DELTA = {
    (F, Action.MOVE_FORWARD): (-1, 0),
    (F, Action.MOVE_BACKWARD): (1, 0),
    (F, Action.MOVE_LEFT): (0, -1),
    (F, Action.MOVE_RIGHT): (0, 1),
    (R, Action.MOVE_FORWARD): (0, 1),
    (R, Action.MOVE_BACKWARD): (0, -1),
    (R, Action.MOVE_LEFT): (-1, 0),
    (R, Action.MOVE_RIGHT): (1, 0),
    (B, Action.MOVE_FORWARD): (1, 0),
    (B, Action.MOVE_BACKWARD): (-1, 0),
    (B, Action.MOVE_LEFT): (0, 1),
    (B, Action.MOVE_RIGHT): (0, -1),
    (L, Action.MOVE_FORWARD): (0, -1),
    (L, Action.MOVE_BACKWARD): (0, 1),
    (L, Action.MOVE_LEFT): (1, 0),
    (L, Action.MOVE_RIGHT): (-1, 0),
}

REF_TURN = {
    (F, Action.TURN_LEFT): L,
    (L, Action.TURN_LEFT): B,
    (B, Action.TURN_LEFT): R,
    (R, Action.TURN_LEFT): F,
    (F, Action.TURN_RIGHT): R,
    (R, Action.TURN_RIGHT): B,
    (B, Action.TURN_RIGHT): L,
    (L, Action.TURN_RIGHT): F,
}

MOVES = [
    Action.MOVE_FORWARD,
    Action.MOVE_BACKWARD,
    Action.MOVE_LEFT,
    Action.MOVE_RIGHT,
]
TURNS = [Action.TURN_LEFT, Action.TURN_RIGHT]
OTHERS = [Action.ACTUATE, Action.PICK_N_DROP]
ALL_ACTIONS = MOVES + TURNS + OTHERS
assert set(ALL_ACTIONS) == set(Action) and len(list(Action)) == 8


def ref_blocks(obj) -> bool:
    """Reference `blocks movement`, by type and status (hard-coded)."""
    t = type(obj)
    if t in (Wall, Box):
        return True
    if t is Door:
        return obj.state is not Door.Status.OPEN
    assert t in (
        NoneGridObject,
        Hidden,
        Floor,
        Exit,
        Key,
        MovingObstacle,
        Telepod,
        Beacon,
    ), t
    return False


def cell_kinds():
    """One fresh instance of every object type x status x colour."""
    kinds = [
        NoneGridObject,
        Hidden,
        Floor,
        Wall,
        MovingObstacle,
        lambda: Box(Floor()),
        lambda: Box(Key(Color.RED)),
        lambda: Box(Wall()),
    ]
    for color in Color:
        kinds.append(lambda color=color: Exit(color))
        kinds.append(lambda color=color: Key(color))
        kinds.append(lambda color=color: Telepod(color))
        kinds.append(lambda color=color: Beacon(color))
        for status in Door.Status:
            kinds.append(lambda color=color, status=status: Door(status, color))
    kinds.append(Exit)  # default colour (NONE)
    return kinds


def snapshot(grid: Grid):
    """Identity snapshot of the cells (objects must not even be replaced)."""
    return [[id(obj) for obj in row] for row in grid.objects]


CHECKS = 0


def check(condition, *info):
    global CHECKS
    CHECKS += 1
    if not condition:
        import traceback

        traceback.print_stack(limit=4)
        print('FAILED:', *info)
        sys.exit(1)


# ------------------------------------------------------- get_next_position


def demo_get_next_position():
    coordinates = [0, 1, 2, 5, -1, -7, 10**9, -(10**9), 2**70]
    for y, x in itt.product(coordinates, repeat=2):
        position = Position(y, x)
        for heading in HEADINGS:
            for action in MOVES:
                dy, dx = REF_DELTA[heading, action]
                result = get_next_position(position, heading, action)
                check(type(result) is Position, result)
                check(
                    result.yx == (y + dy, x + dx),
                    position,
                    heading,
                    action,
                    result,
                )
                check(
                    type(result.y) is int and type(result.x) is int, result
                )
                # the argument is never modified (frozen) nor returned
                check(position.yx == (y, x) and result is not position)
            for action in TURNS + OTHERS:
                check(get_next_position(position, heading, action) is position)

    # aliases of the orientation members are the same keys
    for alias, member in [
        (Orientation.F, F),
        (Orientation.B, B),
        (Orientation.L, L),
        (Orientation.R, R),
    ]:
        check(alias is member)
        for action in MOVES:
            check(
                get_next_position(Position(3, 4), alias, action)
                == get_next_position(Position(3, 4), member, action)
            )

    # numpy integers as coordinates behave like ints
    for heading in HEADINGS:
        for action in MOVES:
            dy, dx = REF_DELTA[heading, action]
            result = get_next_position(
                Position(np.int64(2), np.int64(0)), heading, action
            )
            check((int(result.y), int(result.x)) == (2 + dy, dx), result)

    # repeated calls: results are equal but never leak shared mutable state
    first = [
        get_next_position(Position(0, 0), heading, action)
        for heading in HEADINGS
        for action in MOVES
    ]
    for _ in range(3):
        again = [
            get_next_position(Position(0, 0), heading, action)
            for heading in HEADINGS
            for action in MOVES
        ]
        check(first == again)
    # moving from the origin yields the displacement itself; using the result
    # in further arithmetic must not disturb later calls
    for position in first:
        _ = position + position
        _ = -position
    check(
        [
            get_next_position(Position(0, 0), heading, action).yx
            for heading in HEADINGS
            for action in MOVES
        ]
        == [REF_DELTA[heading, action] for heading in HEADINGS for action in MOVES]
    )

    # four moves forward/backward/left/right relative to any heading cancel
    for heading in HEADINGS:
        position = Position(5, 5)
        for action in MOVES:
            position = get_next_position(position, heading, action)
        check(position == Position(5, 5))

    # an invalid heading with a move action is an error (never a silent no-op)
    for bogus in [None, 0, 'F', Position(0, 1)]:
        try:
            get_next_position(Position(1, 1), bogus, Action.MOVE_FORWARD)
        except TypeError:
            check(True)
        else:
            check(False, 'bogus heading accepted', bogus)


# ------------------------------------------------------------ Area.contains

AREAS = [
    ((0, 0), (0, 0)),
    ((0, 0), (0, 5)),
    ((0, 5), (0, 0)),
    ((0, 2), (0, 4)),
    ((0, 4), (0, 2)),
    ((0, 6), (0, 6)),
    ((-6, 0), (-3, 3)),
    ((-2, 1), (-4, 0)),
    ((-5, -5), (-7, -3)),
    ((3, 9), (2, 2)),
    ((-3, 3), (5, 6)),
    ((0, 10**9), (-(10**9), 0)),
    ((2**70, 2**70 + 1), (-(2**70), 2**70)),
]


def tuples_supported() -> bool:
    try:
        Area((0, 1), (0, 1)).contains((0, 0))
    except AttributeError:
        return False  # pristine tree: positions only
    return True


def demo_area_contains():
    with_tuples = tuples_supported()
    for ys, xs in AREAS:
        area = Area(ys, xs)
        interesting_ys = sorted(
            {ys[0] - 2, ys[0] - 1, ys[0], ys[0] + 1, ys[1] - 1, ys[1], ys[1] + 1, ys[1] + 2, 0, -1}
        )
        interesting_xs = sorted(
            {xs[0] - 2, xs[0] - 1, xs[0], xs[0] + 1, xs[1] - 1, xs[1], xs[1] + 1, xs[1] + 2, 0, -1}
        )
        for y, x in itt.product(interesting_ys, interesting_xs):
            expected = ys[0] <= y <= ys[1] and xs[0] <= x <= xs[1]
            position = Position(y, x)
            result = area.contains(position)
            check(type(result) is bool and result == expected, area, y, x)
            check(position.yx == (y, x))  # argument untouched
            if with_tuples:
                for pair in [(y, x), [y, x]]:
                    result = area.contains(pair)
                    check(
                        type(result) is bool and result == expected,
                        area,
                        pair,
                    )
        # every position the area enumerates is contained, repeated calls agree
        if area.height * area.width <= 400:
            for selection in ['all', 'border', 'inside']:
                for position in area.positions(selection):
                    check(area.contains(position) is True)
                    check(area.contains(position) is True)
                    if with_tuples:
                        check(area.contains(position.yx) is True)

    # numpy integers behave like ints
    area = Area((0, 2), (0, 4))
    for y, x in itt.product(range(-1, 4), range(-1, 6)):
        expected = 0 <= y <= 2 and 0 <= x <= 4
        check(
            bool(area.contains(Position(np.int64(y), np.int64(x)))) == expected
        )
        if with_tuples:
            check(bool(area.contains((np.int64(y), np.int64(x)))) == expected)
            check(bool(area.contains(np.array([y, x]))) == expected)

    # a grid's own area: exactly the valid (non-wrapping) indices
    for height, width in [(1, 1), (1, 4), (4, 1), (2, 3), (5, 3)]:
        grid = Grid.from_shape((height, width))
        for y, x in itt.product(range(-2, height + 2), range(-2, width + 2)):
            expected = 0 <= y < height and 0 <= x < width
            check(grid.area.contains(Position(y, x)) is expected)
            if with_tuples:
                check(grid.area.contains((y, x)) is expected)

    if with_tuples:
        # things which are neither positions nor pairs are still errors
        for bogus in [None, 3, (1,), (1, 2, 3)]:
            try:
                Area((0, 1), (0, 1)).contains(bogus)
            except (TypeError, ValueError):
                check(True)
            else:
                check(False, 'bogus position accepted', bogus)


# ------------------------------------------------------------- Grid.subgrid


def labelled_grid(height, width):
    """Grid of distinct objects (distinct colours / types where possible)."""
    kinds = cell_kinds()
    return Grid(
        [
            [kinds[(y * width + x) % len(kinds)]() for x in range(width)]
            for y in range(height)
        ]
    )


def demo_subgrid():
    for height, width in [(1, 1), (1, 4), (4, 1), (2, 3), (3, 2), (4, 6)]:
        grid = labelled_grid(height, width)
        before = snapshot(grid)
        bounds_y = range(-3, height + 3)
        bounds_x = range(-3, width + 3)
        for ymin, ymax in itt.combinations_with_replacement(bounds_y, 2):
            for xmin, xmax in itt.combinations_with_replacement(bounds_x, 2):
                area = Area((ymin, ymax), (xmin, xmax))
                subgrid = grid.subgrid(area)
                check(
                    subgrid.shape
                    == Shape(ymax - ymin + 1, xmax - xmin + 1)
                )
                for y, x in itt.product(
                    range(ymin, ymax + 1), range(xmin, xmax + 1)
                ):
                    obj = subgrid.objects[y - ymin][x - xmin]
                    if 0 <= y < height and 0 <= x < width:
                        # reference: plain bounds, never a wrapped index
                        check(obj is grid.objects[y][x], area, y, x)
                    else:
                        check(type(obj) is Hidden, area, y, x)
        check(snapshot(grid) == before)

    # a far-away and a huge area
    grid = labelled_grid(2, 3)
    far = grid.subgrid(Area((100, 101), (-50, -48)))
    check(all(type(obj) is Hidden for row in far.objects for obj in row))
    big = grid.subgrid(Area((-20, 20), (-30, 30)))
    check(big.shape == Shape(41, 61))
    check(
        sum(type(obj) is not Hidden for row in big.objects for obj in row)
        <= 6
    )
    for y, x in itt.product(range(2), range(3)):
        check(big.objects[y + 20][x + 30] is grid.objects[y][x])


# ------------------------------------------------------------- observations

# hand-written rotation of a view offset (dy, dx) into the world frame
ROTATE = {
    F: lambda dy, dx: (dy, dx),
    R: lambda dy, dx: (dx, -dy),
    B: lambda dy, dx: (-dy, -dx),
    L: lambda dy, dx: (-dx, dy),
}

VIEW_AREAS = [
    ((-6, 0), (-3, 3)),  # shipped
    ((-2, 0), (-1, 1)),
    ((-3, 1), (-1, 2)),  # asymmetric
    ((0, 0), (0, 0)),  # degenerate: the agent's cell only
    ((-1, 2), (-4, 0)),  # asymmetric, mostly to the left
]


def demo_observations():
    for height, width in [(1, 4), (4, 1), (3, 5), (5, 3)]:
        grid = labelled_grid(height, width)
        # NOTE: Hidden cells in the world are indistinguishable from outside
        for ys, xs in VIEW_AREAS:
            view = Area(ys, xs)
            for y, x in itt.product(range(height), range(width)):
                for heading in HEADINGS:
                    state = State(grid, Agent(Position(y, x), heading))
                    observation = of.fully_transparent(state, area=view)
                    check(
                        observation.grid.shape
                        == Shape(ys[1] - ys[0] + 1, xs[1] - xs[0] + 1)
                    )
                    for dy, dx in itt.product(
                        range(ys[0], ys[1] + 1), range(xs[0], xs[1] + 1)
                    ):
                        wy, wx = ROTATE[heading](dy, dx)
                        wy, wx = y + wy, x + wx
                        obj = observation.grid.objects[dy - ys[0]][dx - xs[0]]
                        if 0 <= wy < height and 0 <= wx < width:
                            check(
                                obj == grid.objects[wy][wx],
                                (height, width),
                                view,
                                (y, x),
                                heading,
                                (dy, dx),
                            )
                        else:
                            check(type(obj) is Hidden)
                    check(observation.agent.position.yx == (-ys[0], -xs[0]))
                    check(observation.agent.orientation is F)
                    # the state is untouched
                    check(state.agent.position.yx == (y, x))
                    check(state.agent.orientation is heading)


# -------------------------------------------------------------- move / turn

SHAPES = [(1, 1), (1, 4), (4, 1), (2, 2), (2, 3), (3, 2), (3, 5), (5, 3)]


def demo_move_and_turn_exhaustive():
    kinds = cell_kinds()
    for height, width in SHAPES:
        for y, x in itt.product(range(height), range(width)):
            for heading in HEADINGS:
                for action in ALL_ACTIONS:
                    for kind in kinds:
                        grid = Grid.from_shape((height, width))
                        # surround the agent by the cell kind under test
                        for dy, dx in AHEAD.values():
                            ty, tx = y + dy, x + dx
                            if 0 <= ty < height and 0 <= tx < width:
                                grid[ty, tx] = kind()
                        held = Key(Color.BLUE)
                        state = State(
                            grid, Agent(Position(y, x), heading, held)
                        )
                        before = snapshot(grid)

                        tf.move_agent(state, action)

                        if action in MOVES:
                            dy, dx = REF_DELTA[heading, action]
                            ty, tx = y + dy, x + dx
                            inside = 0 <= ty < height and 0 <= tx < width
                            moves = inside and not ref_blocks(
                                grid.objects[ty][tx]
                            )
                            expected = (ty, tx) if moves else (y, x)
                        else:
                            expected = (y, x)

                        check(
                            state.agent.position.yx == expected,
                            (height, width),
                            (y, x),
                            heading,
                            action,
                            kind(),
                            state.agent.position,
                        )
                        check(state.agent.orientation is heading)
                        check(state.agent.grid_object is held)
                        check(snapshot(grid) == before)
                        # invariant: inside, not on a blocking cell
                        py, px = state.agent.position.yx
                        check(0 <= py < height and 0 <= px < width)
                        check(not ref_blocks(grid.objects[py][px]))

                        # turn on the resulting state
                        position = state.agent.position
                        tf.turn_agent(state, action)
                        expected_heading = REF_TURN.get(
                            (heading, action), heading
                        )
                        check(
                            state.agent.orientation is expected_heading,
                            heading,
                            action,
                            state.agent.orientation,
                        )
                        check(state.agent.position == position)
                        check(snapshot(grid) == before)


def demo_turn_algebra():
    for heading in HEADINGS:
        state = State(Grid.from_shape((2, 3)), Agent(Position(1, 2), heading))
        for first, second in [
            (Action.TURN_LEFT, Action.TURN_RIGHT),
            (Action.TURN_RIGHT, Action.TURN_LEFT),
        ]:
            tf.turn_agent(state, first)
            check(state.agent.orientation is not heading)
            tf.turn_agent(state, second)
            check(state.agent.orientation is heading)
        for action in TURNS:
            seen = []
            for _ in range(4):
                tf.turn_agent(state, action)
                seen.append(state.agent.orientation)
            check(state.agent.orientation is heading)
            check(len(set(seen)) == 4)
        check(state.agent.position == Position(1, 2))


def demo_walks():
    """Random walks on non-square grids with obstacles, step by step."""
    rng = np.random.default_rng(12345)
    kinds = cell_kinds()
    for height, width in [(1, 7), (7, 1), (3, 8), (8, 3), (6, 6)]:
        for _ in range(20):
            grid = Grid.from_shape((height, width))
            for y, x in itt.product(range(height), range(width)):
                if rng.random() < 0.45:
                    grid[y, x] = kinds[rng.integers(len(kinds))]()
            free = [
                (y, x)
                for y, x in itt.product(range(height), range(width))
                if not ref_blocks(grid.objects[y][x])
            ]
            if not free:
                continue
            y, x = free[rng.integers(len(free))]
            heading = HEADINGS[rng.integers(4)]
            state = State(grid, Agent(Position(y, x), heading))
            for _ in range(60):
                action = ALL_ACTIONS[rng.integers(len(ALL_ACTIONS))]
                tf.move_agent(state, action)
                tf.turn_agent(state, action)
                if action in MOVES:
                    dy, dx = REF_DELTA[heading, action]
                    ty, tx = y + dy, x + dx
                    if (
                        0 <= ty < height
                        and 0 <= tx < width
                        and not ref_blocks(grid.objects[ty][tx])
                    ):
                        y, x = ty, tx
                heading = REF_TURN.get((heading, action), heading)
                check(state.agent.position.yx == (y, x))
                check(state.agent.orientation is heading)


# --------------------------------------------- shipped configurations

COLORS4 = {Color.RED, Color.GREEN, Color.BLUE, Color.YELLOW}
NO_ACTUATE = MOVES + TURNS

# (name, reset function, transition function names, action space)
CONFIGS = [
    ('crossing.5x5', lambda rng: rf.crossing(Shape(5, 5), 1, Wall, rng=rng), ['move_agent', 'turn_agent'], NO_ACTUATE),
    ('crossing.7x7', lambda rng: rf.crossing(Shape(7, 7), 2, Wall, rng=rng), ['move_agent', 'turn_agent'], NO_ACTUATE),
    ('dynamic_obstacles.5x5', lambda rng: rf.dynamic_obstacles(Shape(5, 5), 1, False, rng=rng), ['move_agent', 'turn_agent', 'move_obstacles'], NO_ACTUATE),
    ('dynamic_obstacles.7x7', lambda rng: rf.dynamic_obstacles(Shape(7, 7), 2, False, rng=rng), ['move_agent', 'turn_agent', 'move_obstacles'], NO_ACTUATE),
    ('empty.4x4', lambda rng: rf.empty(Shape(4, 4), True, rng=rng), ['move_agent', 'turn_agent'], NO_ACTUATE),
    ('empty.8x8', lambda rng: rf.empty(Shape(8, 8), True, rng=rng), ['move_agent', 'turn_agent'], NO_ACTUATE),
    ('four_rooms.7x7', lambda rng: rf.rooms(Shape(7, 7), (2, 2), rng=rng), ['move_agent', 'turn_agent'], NO_ACTUATE),
    ('four_rooms.9x9', lambda rng: rf.rooms(Shape(9, 9), (2, 2), rng=rng), ['move_agent', 'turn_agent'], NO_ACTUATE),
    ('keydoor.5x5', lambda rng: rf.keydoor(Shape(5, 5), rng=rng), ['move_agent', 'turn_agent', 'actuate_door', 'pickndrop'], ALL_ACTIONS),
    ('keydoor.7x7', lambda rng: rf.keydoor(Shape(7, 7), rng=rng), ['move_agent', 'turn_agent', 'actuate_door', 'pickndrop'], ALL_ACTIONS),
    ('keydoor.9x9', lambda rng: rf.keydoor(Shape(9, 9), rng=rng), ['move_agent', 'turn_agent', 'actuate_door', 'pickndrop'], ALL_ACTIONS),
    ('memory.5x5', lambda rng: rf.memory(Shape(5, 5), COLORS4, rng=rng), ['move_agent', 'turn_agent'], NO_ACTUATE),
    ('memory.9x9', lambda rng: rf.memory(Shape(9, 9), COLORS4, rng=rng), ['move_agent', 'turn_agent'], NO_ACTUATE),
    ('memory_four_rooms.7x7', lambda rng: rf.memory_rooms(Shape(7, 7), (2, 2), COLORS4, 1, 2, rng=rng), ['move_agent', 'turn_agent'], NO_ACTUATE),
    ('memory_four_rooms.9x9', lambda rng: rf.memory_rooms(Shape(9, 9), (2, 2), COLORS4, 1, 2, rng=rng), ['move_agent', 'turn_agent'], NO_ACTUATE),
    ('memory_nine_rooms.10x10', lambda rng: rf.memory_rooms(Shape(10, 10), (3, 3), COLORS4, 1, 2, rng=rng), ['move_agent', 'turn_agent'], NO_ACTUATE),
    ('memory_nine_rooms.13x13', lambda rng: rf.memory_rooms(Shape(13, 13), (3, 3), COLORS4, 1, 2, rng=rng), ['move_agent', 'turn_agent'], NO_ACTUATE),
    ('nine_rooms.10x10', lambda rng: rf.rooms(Shape(10, 10), (3, 3), rng=rng), ['move_agent', 'turn_agent'], NO_ACTUATE),
    ('nine_rooms.13x13', lambda rng: rf.rooms(Shape(13, 13), (3, 3), rng=rng), ['move_agent', 'turn_agent'], NO_ACTUATE),
    ('teleport.5x5', lambda rng: rf.teleport(Shape(5, 5), rng=rng), ['move_agent', 'turn_agent', 'teleport'], NO_ACTUATE),
    ('teleport.7x7', lambda rng: rf.teleport(Shape(7, 7), rng=rng), ['move_agent', 'turn_agent', 'teleport'], NO_ACTUATE),
]  # fmt: skip


def rollout(config, seed, steps, *, also_all_actions=False):
    """Runs one episode-like history, checking every sub-step; returns trace."""
    _, reset, names, actions = config
    if also_all_actions:
        actions = ALL_ACTIONS
    functions = [tf.factory(name) for name in names]
    rng = make_rng(seed)
    action_rng = np.random.default_rng(seed + 1000)

    state = reset(rng)
    height, width = state.grid.shape.height, state.grid.shape.width
    trace = []

    def pose():
        return state.agent.position.yx, state.agent.orientation

    def check_invariant():
        (y, x), heading = pose()
        # NOTE: some reset functions yield numpy-integer coordinates, for
        # which comparisons give numpy booleans (with and without the patch)
        check(bool(state.grid.area.contains(state.agent.position)) is True)
        for dy, dx in AHEAD.values():
            check(
                bool(state.grid.area.contains(Position(y + dy, x + dx)))
                is bool(0 <= y + dy < height and 0 <= x + dx < width)
            )
        check(0 <= y < height and 0 <= x < width, config[0], seed, (y, x))
        check(not ref_blocks(state.grid.objects[y][x]), config[0], seed, (y, x))
        check(heading in HEADINGS)

    check_invariant()
    trace.append(pose())

    for _ in range(steps):
        action = actions[action_rng.integers(len(actions))]
        for name, function in zip(names, functions):
            (y, x), heading = pose()
            function(state, action, rng=rng)
            (ny, nx), nheading = pose()

            if name == 'move_agent':
                expected = (y, x)
                if action in MOVES:
                    dy, dx = REF_DELTA[heading, action]
                    ty, tx = y + dy, x + dx
                    if (
                        0 <= ty < height
                        and 0 <= tx < width
                        and not ref_blocks(state.grid.objects[ty][tx])
                    ):
                        expected = (ty, tx)
                check((ny, nx) == expected, config[0], seed, action)
                check(nheading is heading)
            elif name == 'turn_agent':
                check((ny, nx) == (y, x))
                check(nheading is REF_TURN.get((heading, action), heading))
            elif name == 'teleport':
                check(nheading is heading)
                if (ny, nx) != (y, x):
                    source = state.grid.objects[y][x]
                    target = state.grid.objects[ny][nx]
                    check(type(source) is Telepod and type(target) is Telepod)
                    check(source.color is target.color)
            else:
                # no other transition function changes the pose
                check(((ny, nx), nheading) == ((y, x), heading), name)
            check_invariant()
        trace.append(pose())

    return trace


def demo_shipped_configurations():
    for config in CONFIGS:
        for seed in range(6):
            trace = rollout(config, seed, 120)
            # re-seeding reproduces the history exactly
            check(trace == rollout(config, seed, 120), config[0], 're-seed')
        # all eight actions, even where the configuration ships only six
        rollout(config, 99, 120, also_all_actions=True)

    # several environments in one process: interleaving does not matter
    reference = {
        config[0]: rollout(config, 7, 40) for config in CONFIGS
    }
    for config in reversed(CONFIGS):
        check(rollout(config, 7, 40) == reference[config[0]], config[0])


def main():
    demo_area_contains()
    demo_subgrid()
    demo_observations()
    demo_get_next_position()
    demo_move_and_turn_exhaustive()
    demo_turn_algebra()
    demo_walks()
    demo_shipped_configurations()
    print(f'OK ({CHECKS} checks)')


if __name__ == '__main__':
    main()
