"""Check program for commit A (faster scans in `move_obstacles` / `teleport`).

Run as:  cd /tmp/wt7-C02 && /venv/bin/python -W ignore _seed/A/demo.py

Everything is compared against reference implementations written in this
file (straight transcriptions of the documented behaviour which only use the
public geometry/grid API), including the *state of the random generator*
after each call, i.e. the number and kind of random draws.
"""
import hashlib
import os
import subprocess
import sys

sys.path.insert(0, os.getcwd())

import numpy as np  # noqa: E402
import numpy.random as rnd  # noqa: E402

import gym_gridverse.rng as gv_rng  # noqa: E402
from gym_gridverse.action import Action  # noqa: E402
from gym_gridverse.agent import Agent  # noqa: E402
from gym_gridverse.debugging import reset_gv_debug  # noqa: E402
from gym_gridverse.envs import transition_functions as tfs  # noqa: E402
from gym_gridverse.envs.yaml.factory import factory_env_from_data  # noqa: E402
from gym_gridverse.geometry import (  # noqa: E402
    Orientation,
    Position,
    get_manhattan_boundary,
)
from gym_gridverse.grid import Grid  # noqa: E402
from gym_gridverse.grid_object import (  # noqa: E402
    Color,
    Exit,
    Floor,
    Key,
    MovingObstacle,
    Telepod,
    Wall,
)
from gym_gridverse.state import State  # noqa: E402

# --------------------------------------------------------------------------
# reference implementations


def ref_move_obstacles(state, action, *, rng):
    positions = [
        position
        for position in state.grid.area.positions()
        if isinstance(state.grid[position], MovingObstacle)
    ]
    for position in positions:
        candidates = []
        for neighbour in get_manhattan_boundary(position, distance=1):
            if state.grid.area.contains(neighbour) and isinstance(
                state.grid[neighbour], Floor
            ):
                candidates.append(neighbour)
        if len(candidates) == 0:
            continue  # no draw at all
        i = rng.choice(len(candidates))
        state.grid.swap(position, candidates[i])


def ref_teleport(state, action, *, rng):
    telepod = state.grid[state.agent.position]
    if not isinstance(telepod, Telepod):
        return
    positions = []
    for position in state.grid.area.positions():
        if position == state.agent.position:
            continue
        obj = state.grid[position]
        if isinstance(obj, Telepod) and obj.color == telepod.color:
            positions.append(position)
    if len(positions) == 0:
        return  # no draw at all
    state.agent.position = positions[rng.choice(len(positions))]


# --------------------------------------------------------------------------
# helpers


def rng_state(rng):
    state = rng.bit_generator.state
    return (
        state['state']['state'],
        state['state']['inc'],
        state['has_uint32'],
        state['uinteger'],
    )


def describe(state):
    """full structural description (types, colors, identities are separate)"""
    return (
        state.grid.shape.as_tuple,
        tuple(
            tuple(
                (type(obj).__name__, obj.color.name, int(obj.state_index))
                for obj in row
            )
            for row in state.grid.objects
        ),
        state.agent.position.yx,
        state.agent.orientation.name,
        type(state.agent.grid_object).__name__,
    )


def identity_layout(state):
    """which *object* (identity) sits in which cell"""
    return [[id(obj) for obj in row] for row in state.grid.objects]


def random_state(gen, height, width, *, walls, kinds):
    """random grid;  without `walls` obstacles touch the borders and corners"""
    objects = []
    for y in range(height):
        row = []
        for x in range(width):
            border = y in (0, height - 1) or x in (0, width - 1)
            if walls and border:
                row.append(Wall())
                continue
            k = gen.choice(len(kinds), p=[w for _, w in kinds])
            row.append(kinds[k][0]())
        objects.append(row)
    grid = Grid(objects)
    agent_position = Position(
        int(gen.integers(0, height)), int(gen.integers(0, width))
    )
    orientation = list(Orientation)[int(gen.integers(0, 4))]
    return State(grid, Agent(agent_position, orientation))


def clone(state):
    # NOTE: independent of gym_gridverse.utils.fast_copy on purpose
    objects = [
        [type(obj)(*ctor_args(obj)) for obj in row]
        for row in state.grid.objects
    ]
    agent = Agent(state.agent.position, state.agent.orientation)
    return State(Grid(objects), agent)


def ctor_args(obj):
    if isinstance(obj, (Telepod, Key, Exit)):
        return (obj.color,)
    return ()


SHAPES = [
    (1, 1),
    (1, 2),
    (2, 1),
    (1, 7),
    (7, 1),
    (2, 2),
    (3, 3),
    (3, 8),
    (8, 3),
    (4, 4),
    (5, 9),
    (9, 5),
    (6, 6),
    (11, 4),
]

# --------------------------------------------------------------------------
# 1. move_obstacles against the reference, on many grids


def check_move_obstacles():
    gen = rnd.default_rng(20240607)
    kinds_list = [
        [(MovingObstacle, 1.0)],  # nothing can move:  no draws at all
        [(Floor, 1.0)],  # no obstacles
        [(MovingObstacle, 0.5), (Floor, 0.5)],
        [(MovingObstacle, 0.25), (Floor, 0.5), (Wall, 0.25)],
        [(MovingObstacle, 0.1), (Floor, 0.8), (Exit, 0.1)],
        [(MovingObstacle, 0.7), (Floor, 0.2), (Wall, 0.1)],
    ]
    n = 0
    for height, width in SHAPES:
        for walls in (False, True):
            for kinds in kinds_list:
                for seed in range(6):
                    state = random_state(
                        gen, height, width, walls=walls, kinds=kinds
                    )
                    expected = clone(state)
                    ids_before = identity_layout(state)
                    rng_a, rng_b = rnd.default_rng(seed), rnd.default_rng(seed)
                    # several consecutive steps on the same state
                    for action in (Action.MOVE_FORWARD, Action.ACTUATE, Action.TURN_LEFT):
                        result = tfs.move_obstacles(state, action, rng=rng_a)
                        assert result is None
                        ref_move_obstacles(expected, action, rng=rng_b)
                        assert describe(state) == describe(expected), (
                            height,
                            width,
                            seed,
                        )
                        assert rng_state(rng_a) == rng_state(rng_b)
                    # objects are moved, never copied or re-created
                    ids_after = identity_layout(state)
                    assert sorted(sum(ids_before, [])) == sorted(
                        sum(ids_after, [])
                    )
                    n += 1
    return n


# 2. corner/border cases with hand-computed candidates


def check_neighbour_order():
    # a single obstacle in an otherwise free 3x4 grid, at every cell:  the
    # i-th free neighbour in the order above/right/below/left is chosen
    height, width = 3, 4
    for y in range(height):
        for x in range(width):
            expected_candidates = [
                (yy, xx)
                for yy, xx in [(y - 1, x), (y, x + 1), (y + 1, x), (y, x - 1)]
                if 0 <= yy < height and 0 <= xx < width
            ]
            for seed in range(40):
                grid = Grid.from_shape((height, width))
                obstacle = MovingObstacle()
                grid[y, x] = obstacle
                state = State(grid, Agent(Position(0, 0), Orientation.F))
                rng = rnd.default_rng(seed)
                i = rnd.default_rng(seed).choice(len(expected_candidates))
                tfs.move_obstacles(state, Action.MOVE_LEFT, rng=rng)
                yy, xx = expected_candidates[i]
                assert state.grid[yy, xx] is obstacle, (y, x, seed)
                assert isinstance(state.grid[y, x], Floor)

    # obstacles which move into the scan path are *not* moved twice, and
    # later obstacles see the cells vacated by earlier ones
    for seed in range(50):
        grid = Grid.from_shape((1, 5), factory=Wall)
        first, second = MovingObstacle(), MovingObstacle()
        grid[0, 1], grid[0, 2], grid[0, 3] = first, second, Floor()
        state = State(grid, Agent(Position(0, 0), Orientation.F))
        rng, rng_ref = rnd.default_rng(seed), rnd.default_rng(seed)
        tfs.move_obstacles(state, Action.MOVE_LEFT, rng=rng)
        # first:  no free neighbour -> no draw;  second:  exactly one free
        # neighbour (right), one draw
        assert rng_ref.choice(1) == 0
        assert state.grid[0, 1] is first and state.grid[0, 3] is second
        assert isinstance(state.grid[0, 2], Floor)
        assert rng_state(rng) == rng_state(rng_ref)


# 3. teleport against the reference


def check_teleport():
    gen = rnd.default_rng(77)
    red = lambda: Telepod(Color.RED)  # noqa: E731
    blue = lambda: Telepod(Color.BLUE)  # noqa: E731
    kinds_list = [
        [(red, 1.0)],
        [(red, 0.3), (Floor, 0.7)],
        [(red, 0.2), (blue, 0.2), (Floor, 0.5), (Wall, 0.1)],
        [(blue, 0.05), (Floor, 0.95)],
        [(Floor, 1.0)],
    ]
    n = teleported = 0
    for height, width in SHAPES:
        for kinds in kinds_list:
            for seed in range(12):
                state = random_state(
                    gen, height, width, walls=False, kinds=kinds
                )
                expected = clone(state)
                rng_a, rng_b = rnd.default_rng(seed), rnd.default_rng(seed)
                for action in (Action.MOVE_FORWARD, Action.PICK_N_DROP):
                    before = state.agent.position
                    tfs.teleport(state, action, rng=rng_a)
                    ref_teleport(expected, action, rng=rng_b)
                    assert describe(state) == describe(expected)
                    assert rng_state(rng_a) == rng_state(rng_b)
                    teleported += before != state.agent.position
                n += 1
    assert teleported > 100
    # a lonely telepod:  no partner, no draw, no exception
    grid = Grid.from_shape((2, 3))
    grid[1, 2] = Telepod(Color.GREEN)
    grid[0, 0] = Telepod(Color.RED)
    state = State(grid, Agent(Position(1, 2), Orientation.R))
    rng = rnd.default_rng(5)
    tfs.teleport(state, Action.MOVE_FORWARD, rng=rng)
    assert state.agent.position == Position(1, 2)
    assert rng_state(rng) == rng_state(rnd.default_rng(5))
    return n


# 4. whole environments:  reproducible, isolated, interleaved

ENV_DATA = {
    'obstacles-6x9': {
        'state_space': {
            'objects': ['Wall', 'Floor', 'Exit', 'MovingObstacle'],
            'colors': ['NONE'],
        },
        'observation_space': {
            'objects': ['Wall', 'Floor', 'Exit', 'MovingObstacle', 'Hidden'],
            'colors': ['NONE'],
        },
        'reset_function': {
            'name': 'dynamic_obstacles',
            'shape': [6, 9],
            'num_obstacles': 7,
            'random_agent': True,
        },
        'transition_functions': [
            {'name': 'move_agent'},
            {'name': 'turn_agent'},
            {'name': 'move_obstacles'},
        ],
        'reward_functions': [
            {'name': 'living_reward', 'reward': -0.05},
            {'name': 'bump_moving_obstacle', 'reward': -1.0},
            {'name': 'reach_exit', 'reward_on': 5.0, 'reward_off': 0.0},
        ],
        'observation_function': {
            'name': 'stochastic_raytracing',
            'area': [[-4, 0], [-2, 2]],
        },
        'terminating_function': {'name': 'reach_exit'},
    },
    'teleport-7x5': {
        'state_space': {
            'objects': ['Wall', 'Floor', 'Exit', 'Telepod', 'MovingObstacle'],
            'colors': ['NONE', 'RED'],
        },
        'observation_space': {
            'objects': [
                'Wall',
                'Floor',
                'Exit',
                'Telepod',
                'MovingObstacle',
                'Hidden',
            ],
            'colors': ['NONE', 'RED'],
        },
        'reset_function': {'name': 'teleport', 'shape': [7, 5]},
        'transition_functions': [
            {'name': 'move_agent'},
            {'name': 'turn_agent'},
            {'name': 'teleport'},
            {'name': 'move_obstacles'},
        ],
        'reward_functions': [{'name': 'living_reward', 'reward': -0.05}],
        'observation_function': {
            'name': 'partially_occluded',
            'area': [[-4, 0], [-2, 2]],
        },
        'terminating_function': {'name': 'reach_exit'},
    },
}

MOVES = [
    Action.MOVE_FORWARD,
    Action.MOVE_BACKWARD,
    Action.MOVE_LEFT,
    Action.MOVE_RIGHT,
    Action.TURN_LEFT,
    Action.TURN_RIGHT,
    Action.ACTUATE,
    Action.PICK_N_DROP,
]


def make_env(name):
    import copy

    return factory_env_from_data(copy.deepcopy(ENV_DATA[name]))


def snapshot(env, reward, done):
    observation = env.observation
    return (
        describe(env.state),
        tuple(
            tuple((type(obj).__name__, obj.color.name) for obj in row)
            for row in observation.grid.objects
        ),
        reward,
        done,
    )


def run(env, seed, actions):
    env.set_seed(seed)
    env.reset()
    trace = [snapshot(env, None, None)]
    for action in actions:
        reward, done = env.step(action)
        trace.append(snapshot(env, reward, done))
        if done:
            env.reset()
            trace.append(snapshot(env, None, None))
    return trace


def reference_trace(name, seed, actions):
    """same as `run`, but the dynamics use the reference implementations"""
    env = make_env(name)
    env.set_seed(seed)
    rng = env._rng
    env.reset()
    state = env.state
    env.functional_observation(state)
    trace = [describe(state)]
    names = [d['name'] for d in ENV_DATA[name]['transition_functions']]
    for action in actions:
        next_state = clone_with_agent_item(state)
        for fname in names:
            if fname == 'move_obstacles':
                ref_move_obstacles(next_state, action, rng=rng)
            elif fname == 'teleport':
                ref_teleport(next_state, action, rng=rng)
            else:
                getattr(tfs, fname)(next_state, action, rng=rng)
        done = env._termination_function(state, action, next_state)
        state = next_state
        # the observation is generated once per state (it may draw numbers)
        env.functional_observation(state)
        trace.append(describe(state))
        if done:
            state = env.functional_reset()
            env.functional_observation(state)
            trace.append(describe(state))
    return trace


def clone_with_agent_item(state):
    assert type(state.agent.grid_object).__name__ == 'NoneGridObject'
    return clone(state)


def check_environments():
    action_gen = rnd.default_rng(99)
    digest = hashlib.sha256()
    for name in ENV_DATA:
        for seed in (0, 1, 2, 17, 123456789):
            actions = [
                MOVES[int(i)] for i in action_gen.integers(0, len(MOVES), 60)
            ]

            # the library-level generator, and the legacy numpy/python ones,
            # are never touched by seeded environments
            env_a, env_b, noise = make_env(name), make_env(name), make_env(name)
            gv_rng.reset_gv_rng(4321)
            np.random.seed(1)
            import random

            random.seed(1)
            global_before = rng_state(gv_rng.get_gv_rng())
            np_before = np.random.get_state()[1].tobytes()
            py_before = random.getstate()

            trace_a = run(env_a, seed, actions)

            # second environment, interleaved with a third, noisy, one
            noise.set_seed(seed + 1)
            noise.reset()
            env_b.set_seed(seed)
            env_b.reset()
            trace_b = [snapshot(env_b, None, None)]
            for k, action in enumerate(actions):
                noise.step(MOVES[k % len(MOVES)])
                noise.observation
                reward, done = env_b.step(action)
                trace_b.append(snapshot(env_b, reward, done))
                if done:
                    noise.reset()
                    env_b.reset()
                    trace_b.append(snapshot(env_b, None, None))
            assert trace_a == trace_b, (name, seed)

            # same with the debug flag flipped
            reset_gv_debug(True)
            trace_c = run(make_env(name), seed, actions)
            reset_gv_debug(False)
            gv_rng.reset_gv_rng(4321)  # make_env itself uses the library rng
            assert trace_a == trace_c, (name, seed)

            assert rng_state(gv_rng.get_gv_rng()) == global_before
            assert np.random.get_state()[1].tobytes() == np_before
            assert random.getstate() == py_before

            # states agree with the reference dynamics, draw by draw
            reference = reference_trace(name, seed, actions)
            assert [s[0] for s in trace_a] == reference, (name, seed)

            digest.update(repr(trace_a).encode())
    return digest.hexdigest()


def main():
    if len(sys.argv) > 1 and sys.argv[1] == '--digest':
        print(check_environments())
        return

    n1 = check_move_obstacles()
    check_neighbour_order()
    n2 = check_teleport()
    digest = check_environments()

    # recorded reference (clean tree, numpy 2.x PCG64 streams)
    recorded = RECORDED_DIGEST
    assert recorded is None or digest == recorded, digest

    # other interpreter processes, other hash randomisation
    for hashseed in ('0', '1', '424242'):
        env = dict(os.environ, PYTHONHASHSEED=hashseed)
        out = subprocess.run(
            [sys.executable, '-W', 'ignore', __file__, '--digest'],
            env=env,
            capture_output=True,
            text=True,
            check=True,
        ).stdout.strip()
        assert out == digest, (hashseed, out, digest)

    print(f'OK move_obstacles cases={n1} teleport cases={n2} digest={digest}')


RECORDED_DIGEST = (
    '4ef4db85af501e715cc759a4d20aa125b9bcab49c20b047cfc0ee9548f3228b5'
)

if __name__ == '__main__':
    main()
