"""C18 demo (change A): area rotation / Area.from_positions agree with the
set-of-positions semantics and with an embedded reference implementation.

Exits 0 on the pristine tree and with the patch applied.
"""
import itertools as itt
import os
import sys

sys.path.insert(0, os.getcwd())

from gym_gridverse.geometry import (  # noqa: E402
    Area,
    Orientation,
    Position,
    Transform,
)
from gym_gridverse.grid import Grid  # noqa: E402
from gym_gridverse.grid_object import Floor, Wall, Exit, Hidden  # noqa: E402

O = Orientation
ORIENTATIONS = [O.F, O.R, O.B, O.L]
assert list(Orientation) == [O.FORWARD, O.BACKWARD, O.LEFT, O.RIGHT]


# --- reference implementations (verbatim spelled-out pristine behaviour) ---
def ref_rotate_position(o, p):
    return {
        O.F: (p.y, p.x),
        O.B: (-p.y, -p.x),
        O.R: (p.x, -p.y),
        O.L: (-p.x, p.y),
    }[o]


def ref_rotate_area(o, a):
    return {
        O.F: ((a.ymin, a.ymax), (a.xmin, a.xmax)),
        O.B: ((-a.ymax, -a.ymin), (-a.xmax, -a.xmin)),
        O.R: ((a.xmin, a.xmax), (-a.ymax, -a.ymin)),
        O.L: ((-a.xmax, -a.xmin), (a.ymin, a.ymax)),
    }[o]


def ref_from_positions(positions):
    ys = [p.y for p in positions]
    xs = [p.x for p in positions]
    return (min(ys), max(ys)), (min(xs), max(xs))


COORDS = [-(10**12), -7, -2, -1, 0, 1, 2, 5, 10**12 + 3]
BOUNDS = [(lo, hi) for lo in COORDS for hi in COORDS if lo <= hi]
AREAS = [Area(ys, xs) for ys in BOUNDS for xs in BOUNDS]
SMALL = [-3, -1, 0, 1, 2]
SMALL_BOUNDS = [(lo, hi) for lo in SMALL for hi in SMALL if lo <= hi]
SMALL_AREAS = [Area(ys, xs) for ys in SMALL_BOUNDS for xs in SMALL_BOUNDS]
POSITIONS = [Position(y, x) for y in COORDS for x in COORDS]

checks = 0

# 1. orientation * area == reference, exact types, both operand orders
for o, a in itt.product(ORIENTATIONS, AREAS):
    r = o * a
    assert type(r) is Area
    assert (r.ys, r.xs) == ref_rotate_area(o, a), (o, a, r)
    assert type(r.ys) is tuple and type(r.xs) is tuple
    assert all(type(v) is int for v in r.ys + r.xs)
    assert a * o == r
    assert r is not a
    assert (r.height, r.width) == (
        (a.height, a.width) if o in (O.F, O.B) else (a.width, a.height)
    )
    checks += 1

# 2. rotating an area rotates exactly its set of positions
for o, a in itt.product(ORIENTATIONS, SMALL_AREAS):
    assert set((o * a).positions()) == {o * p for p in a.positions()}
    for sel in ('border', 'inside'):
        assert set((o * a).positions(sel)) == {o * p for p in a.positions(sel)}
    # undone by the inverse, group action
    assert -o * (o * a) == a
    for o2 in ORIENTATIONS:
        assert o2 * (o * a) == (o2 * o) * a
    checks += 1

# 3. orientation * position == reference (linear, isometric)
for o, p in itt.product(ORIENTATIONS, POSITIONS):
    assert (o * p).yx == ref_rotate_position(o, p)
    assert abs((o * p).y) + abs((o * p).x) == abs(p.y) + abs(p.x)
for o, p, q in itt.product(ORIENTATIONS, POSITIONS[::7], POSITIONS[::5]):
    assert o * (p + q) == o * p + o * q
    assert o * (-p) == -(o * p)
    checks += 1

# 4. Area.from_positions
for a in AREAS[::3]:
    corners = [Position(a.ymin, a.xmin), Position(a.ymax, a.xmax)]
    anti = [Position(a.ymin, a.xmax), Position(a.ymax, a.xmin)]
    for ps in (corners, corners[::-1], anti, anti[::-1], corners + anti):
        assert Area.from_positions(ps) == a
        assert Area.from_positions(tuple(ps)) == a
        assert Area.from_positions(iter(ps)) == a  # one-pass iterables work
        assert Area.from_positions(p for p in ps) == a
    checks += 1
for a in SMALL_AREAS:
    ps = list(a.positions())
    assert Area.from_positions(ps) == a
    assert Area.from_positions(ps[::-1]) == a
    assert Area.from_positions(a.positions('border')) == a
for ps in (
    [Position(3, -4)],
    [Position(3, -4), Position(3, -4)],
    [Position(0, 0), Position(-5, 9), Position(2, -2), Position(-1, 10)],
):
    r = Area.from_positions(ps)
    assert (r.ys, r.xs) == ref_from_positions(ps)
    assert type(r.ys) is tuple and type(r.xs) is tuple
for empty in ([], (), iter([])):
    try:
        Area.from_positions(empty)
    except ValueError:
        pass
    else:
        raise AssertionError('empty positions must raise ValueError')
try:
    Area.from_positions([(1, 2)])
except AttributeError:
    pass
else:
    raise AssertionError('non-positions must raise AttributeError')

# 5. transforms on areas: composed == successive, exactly the set of positions
TRANSFORMS = [
    Transform(Position(y, x), o)
    for (y, x) in [(0, 0), (-3, 4), (7, -1), (10**9, -(10**9))]
    for o in ORIENTATIONS
]
IDENTITY = Transform(Position(0, 0), O.F)
for t in TRANSFORMS:
    assert t * IDENTITY == t and IDENTITY * t == t
    assert t * -t == IDENTITY and -t * t == IDENTITY
    for a in SMALL_AREAS[::4]:
        assert set((t * a).positions()) == {t * p for p in a.positions()}
        assert -t * (t * a) == a
        assert IDENTITY * a == a
        for t2 in TRANSFORMS[::3]:
            assert (t2 * t) * a == t2 * (t * a)
        checks += 1
for t1, t2, t3 in itt.product(TRANSFORMS[::3], TRANSFORMS[1::4], TRANSFORMS[2::5]):
    assert (t1 * t2) * t3 == t1 * (t2 * t3)

# 6. orientation group
for o in ORIENTATIONS:
    assert O.F * o == o and o * O.F == o
    assert o * -o == O.F and -o * o == O.F
    assert o * o * o * o == O.F
for o1, o2, o3 in itt.product(ORIENTATIONS, repeat=3):
    assert (o1 * o2) * o3 == o1 * (o2 * o3)
    assert o1 * o2 == o2 * o1

# 7. grid rotation preserves objects and is undone by the inverse; the view
#    subgrid of a rotated area has the rotated shape (non-square grids)
for h, w in [(1, 1), (1, 4), (3, 1), (2, 3), (4, 7)]:
    objs = [
        [Wall() if (y + x) % 3 == 0 else (Exit() if (y * x) % 4 == 1 else Floor())
         for x in range(w)]
        for y in range(h)
    ]
    ids = sorted(id(obj) for row in objs for obj in row)
    grid = Grid(objs)
    for o in ORIENTATIONS:
        rot = grid * o
        assert sorted(id(obj) for row in rot.objects for obj in row) == ids
        assert (rot * -o) == grid
        assert [[id(x) for x in r] for r in (rot * -o).objects] == [
            [id(x) for x in r] for r in objs
        ]
        expected = (h, w) if o in (O.F, O.B) else (w, h)
        assert rot.shape.as_tuple == expected
        # asymmetric view area, agent on corners/borders, all headings
        view = Area((-3, 1), (-1, 2))
        for pos in [Position(0, 0), Position(h - 1, w - 1), Position(0, w - 1), Position(h - 1, 0)]:
            pov_area = Transform(pos, o) * view
            assert (pov_area.ys, pov_area.xs) == (
                tuple(pos.y + v for v in ref_rotate_area(o, view)[0]),
                tuple(pos.x + v for v in ref_rotate_area(o, view)[1]),
            )
            sub = grid.subgrid(pov_area) * o
            assert sub.shape.as_tuple == (view.height, view.width)
            for p in pov_area.positions():
                inside = grid.area.contains(p)
                cell = grid.subgrid(pov_area)[p.y - pov_area.ymin, p.x - pov_area.xmin]
                assert (cell is grid[p]) if inside else isinstance(cell, Hidden)
            checks += 1

# 8. invalid areas are still rejected; non-geometry operands unsupported
for bad in [((1, 0), (0, 0)), ((0, 0), (3, 2))]:
    try:
        Area(*bad)
    except ValueError:
        pass
    else:
        raise AssertionError('decreasing bounds must raise')
for bad in (3, (0, 1), None, 'x'):
    try:
        O.R * bad
    except TypeError:
        pass
    else:
        raise AssertionError('unsupported operand must raise TypeError')

print(f'OK ({checks} scenario groups)')
