#!/usr/bin/env python
"""Demo for change A (C08, agent kinematics).

Checks, against a reference implementation embedded here (plain integer
arithmetic on compass headings, hard-coded blocking table), that

* `get_next_position` returns the commanded neighbouring cell for every
  heading x action x position (non-move actions return the very same object);
* `move_agent` displaces the agent by exactly one cell in the commanded
  direction iff the target is inside the grid and does not block movement,
  and otherwise changes nothing (every grid shape, every pose, every action,
  every kind of target cell);
* `turn_agent` rotates by a quarter turn and never displaces;
* no other transition function changes the pose, except `teleport`;
* in random histories of every shipped configuration (built through the python
  API) the agent is never outside the grid nor on a blocking cell, and runs
  are reproducible under re-seeding, with several environments interleaved.

Exits 0 on the pristine tree and with the change applied.
"""
import copy
import itertools as itt
import os
import sys

sys.path.insert(0, os.getcwd())

import numpy.random as rnd  # noqa: E402

from gym_gridverse.action import Action  # noqa: E402
from gym_gridverse.agent import Agent  # noqa: E402
from gym_gridverse.envs import reset_functions  # noqa: E402
from gym_gridverse.envs import transition_functions as tf  # noqa: E402
from gym_gridverse.envs.utils import get_next_position  # noqa: E402
from gym_gridverse.geometry import Orientation, Position, Shape  # noqa: E402
from gym_gridverse.grid import Grid  # noqa: E402
from gym_gridverse.grid_object import (  # noqa: E402
    Beacon,
    Box,
    Color,
    Door,
    Exit,
    Floor,
    Key,
    MovingObstacle,
    Telepod,
    Wall,
)
from gym_gridverse.state import State  # noqa: E402

CHECKS = 0


def check(condition, message):
    global CHECKS
    CHECKS += 1
    if not condition:
        print('FAIL:', message)
        sys.exit(1)


# ---------------------------------------------------------------- reference

# compass headings, clockwise;  the library calls them F(orward)=north,
# R(ight)=east, B(ackward)=south, L(eft)=west
COMPASS = [Orientation.F, Orientation.R, Orientation.B, Orientation.L]
UNIT = [(-1, 0), (0, 1), (1, 0), (0, -1)]  # (dy, dx) of N, E, S, W

# number of clockwise quarter turns between heading and direction of motion
MOVE_QUARTERS = {
    Action.MOVE_FORWARD: 0,
    Action.MOVE_RIGHT: 1,
    Action.MOVE_BACKWARD: 2,
    Action.MOVE_LEFT: 3,
}
TURN_QUARTERS = {Action.TURN_RIGHT: 1, Action.TURN_LEFT: 3}
OTHER_ACTIONS = [Action.ACTUATE, Action.PICK_N_DROP]
check(
    set(Action) == set(MOVE_QUARTERS) | set(TURN_QUARTERS) | set(OTHER_ACTIONS),
    'action set changed',
)


def ref_target(y, x, heading, action):
    """commanded cell of a move action, by integer arithmetic"""
    k = (COMPASS.index(heading) + MOVE_QUARTERS[action]) % 4
    dy, dx = UNIT[k]
    return y + dy, x + dx


def ref_blocks(obj):
    """hard-coded table of movement blocking, by type and status"""
    if isinstance(obj, (Wall, Box)):
        return True
    if isinstance(obj, Door):
        return obj.state is not Door.Status.OPEN
    if isinstance(
        obj, (Floor, Exit, Key, MovingObstacle, Telepod, Beacon)
    ):
        return False
    raise AssertionError(f'unknown object {obj!r}')


def target_objects():
    """every object type and status which may sit in a grid cell"""
    objs = [Floor(), Wall(), Exit(), MovingObstacle()]
    for color in Color:
        objs.append(Exit(color))
        objs.append(Key(color))
        objs.append(Telepod(color))
        objs.append(Beacon(color))
        for status in Door.Status:
            objs.append(Door(status, color))
    objs.append(Box(Floor()))
    objs.append(Box(Key(Color.RED)))
    objs.append(Box(Box(Floor())))
    return objs


def snapshot(state):
    return (
        state.agent.position.yx,
        state.agent.orientation,
        repr(state.agent.grid_object),
        [[repr(obj) for obj in row] for row in state.grid.objects],
        [[id(obj) for obj in row] for row in state.grid.objects],
    )


# ------------------------------------------------------ 1. get_next_position

# hard-coded expectations for a couple of cases
check(
    get_next_position(Position(3, 5), Orientation.F, Action.MOVE_FORWARD)
    == Position(2, 5),
    'north/forward',
)
check(
    get_next_position(Position(3, 5), Orientation.R, Action.MOVE_LEFT)
    == Position(2, 5),
    'east/left',
)
check(
    get_next_position(Position(3, 5), Orientation.L, Action.MOVE_BACKWARD)
    == Position(3, 6),
    'west/backward',
)
check(
    get_next_position(Position(0, 0), Orientation.B, Action.MOVE_RIGHT)
    == Position(0, -1),
    'south/right leaves through the west border',
)

for y, x in [(0, 0), (0, 7), (4, 0), (4, 7), (2, 3), (-1, -1), (1000, -1000)]:
    for heading in COMPASS:
        for action in Action:
            position = Position(y, x)
            result = get_next_position(position, heading, action)
            if action in MOVE_QUARTERS:
                check(
                    type(result) is Position
                    and result.yx == ref_target(y, x, heading, action),
                    f'get_next_position {position} {heading} {action} -> {result}',
                )
                check(
                    abs(result.y - y) + abs(result.x - x) == 1,
                    'moves are one cell long',
                )
                check(position.yx == (y, x), 'input position untouched')
            else:
                check(
                    result is position,
                    f'non-move {action} must return the position itself',
                )

# repeated calls give equal, independent results
first = get_next_position(Position(1, 1), Orientation.R, Action.MOVE_FORWARD)
second = get_next_position(Position(1, 1), Orientation.R, Action.MOVE_FORWARD)
check(first == second == Position(1, 2), 'repeated calls')
# the four moves from one pose reach the four distinct neighbours
for heading in COMPASS:
    targets = {
        get_next_position(Position(5, 5), heading, action).yx
        for action in MOVE_QUARTERS
    }
    check(targets == {(4, 5), (6, 5), (5, 4), (5, 6)}, 'four neighbours')
# opposite moves cancel
for heading in COMPASS:
    for a, b in [
        (Action.MOVE_FORWARD, Action.MOVE_BACKWARD),
        (Action.MOVE_LEFT, Action.MOVE_RIGHT),
    ]:
        p = Position(2, 2)
        q = get_next_position(get_next_position(p, heading, a), heading, b)
        check(q == p, 'opposite moves cancel')

# ------------------------------------------------------------ 2. move_agent

SHAPES = [(1, 1), (1, 4), (4, 1), (2, 3), (3, 2), (3, 5)]
TARGETS = target_objects()

for height, width in SHAPES:
    for y, x in itt.product(range(height), range(width)):
        for heading in COMPASS:
            for action in MOVE_QUARTERS:
                ty, tx = ref_target(y, x, heading, action)
                inside = 0 <= ty < height and 0 <= tx < width
                # outside targets are tried once, inside ones with every object
                for target in TARGETS if inside else [None]:
                    grid = Grid.from_shape((height, width))
                    if inside:
                        grid[ty, tx] = copy.deepcopy(target)
                    held = Key(Color.BLUE)
                    state = State(grid, Agent(Position(y, x), heading, held))
                    before = snapshot(state)
                    ret = tf.move_agent(state, action)
                    after = snapshot(state)

                    expected = (
                        (ty, tx)
                        if inside and not ref_blocks(target)
                        else (y, x)
                    )
                    check(ret is None, 'move_agent returns None')
                    check(
                        after[0] == expected,
                        f'{height}x{width} agent ({y},{x}) {heading} {action} '
                        f'target {target!r}: at {after[0]}, expected {expected}',
                    )
                    check(after[1:] == before[1:], 'only the position changes')
                    check(state.agent.grid_object is held, 'held object kept')
                    check(
                        0 <= after[0][0] < height and 0 <= after[0][1] < width,
                        'agent stays inside the grid',
                    )

            # non-move actions never change anything in move_agent
            for action in itt.chain(TURN_QUARTERS, OTHER_ACTIONS):
                grid = Grid.from_shape((height, width))
                state = State(grid, Agent(Position(y, x), heading))
                before = snapshot(state)
                tf.move_agent(state, action)
                check(snapshot(state) == before, f'move_agent ignores {action}')

# an agent boxed in by blocking cells (and borders) cannot move at all
grid = Grid.from_shape((3, 2), factory=Wall)
grid[1, 0] = Floor()
grid[1, 1] = Door(Door.Status.LOCKED, Color.NONE)
for heading in COMPASS:
    for action in Action:
        state = State(grid, Agent(Position(1, 0), heading))
        tf.move_agent(state, action)
        check(state.agent.position == Position(1, 0), 'boxed in')
# ... until the door is opened
grid[1, 1] = Door(Door.Status.OPEN, Color.NONE)
state = State(grid, Agent(Position(1, 0), Orientation.B))
tf.move_agent(state, Action.MOVE_LEFT)  # heading south, left is east
check(state.agent.position == Position(1, 1), 'through the open door')

# a walk around a 2x3 grid, hard-coded expectations
state = State(Grid.from_shape((2, 3)), Agent(Position(0, 0), Orientation.R))
walk = [
    (Action.MOVE_FORWARD, (0, 1)),
    (Action.MOVE_FORWARD, (0, 2)),
    (Action.MOVE_FORWARD, (0, 2)),  # east border
    (Action.MOVE_LEFT, (0, 2)),  # north border
    (Action.MOVE_RIGHT, (1, 2)),
    (Action.MOVE_RIGHT, (1, 2)),  # south border
    (Action.MOVE_BACKWARD, (1, 1)),
    (Action.MOVE_BACKWARD, (1, 0)),
    (Action.MOVE_BACKWARD, (1, 0)),  # west border
    (Action.MOVE_LEFT, (0, 0)),
]
for action, expected in walk:
    tf.move_agent(state, action)
    check(state.agent.position.yx == expected, f'walk {action} -> {expected}')
    check(state.agent.orientation is Orientation.R, 'walk keeps heading')

# ------------------------------------------------------------ 3. turn_agent

for heading in COMPASS:
    for action in Action:
        state = State(Grid.from_shape((2, 3)), Agent(Position(1, 2), heading))
        before = snapshot(state)
        check(tf.turn_agent(state, action) is None, 'turn_agent returns None')
        after = snapshot(state)
        quarters = TURN_QUARTERS.get(action, 0)
        expected = COMPASS[(COMPASS.index(heading) + quarters) % 4]
        check(after[1] is expected, f'turn {heading} {action} -> {after[1]}')
        check(after[0] == before[0], 'turns never displace')
        check(after[2:] == before[2:], 'turns touch nothing else')

    for first, second in [
        (Action.TURN_LEFT, Action.TURN_RIGHT),
        (Action.TURN_RIGHT, Action.TURN_LEFT),
    ]:
        state = State(Grid.from_shape((1, 1)), Agent(Position(0, 0), heading))
        tf.turn_agent(state, first)
        check(state.agent.orientation is not heading, 'a turn changes heading')
        tf.turn_agent(state, second)
        check(state.agent.orientation is heading, 'left/right restore')

    for action in TURN_QUARTERS:
        state = State(Grid.from_shape((1, 1)), Agent(Position(0, 0), heading))
        seen = []
        for _ in range(4):
            tf.turn_agent(state, action)
            seen.append(state.agent.orientation)
        check(seen[-1] is heading, 'four equal turns restore')
        check(len(set(seen)) == 4, 'four equal turns visit all headings')
        check(state.agent.position == Position(0, 0), 'no displacement')

# -------------------------------- 4. other transition functions and the pose

for heading in COMPASS:
    for action in Action:
        for target in TARGETS:
            for function in [tf.actuate_door, tf.actuate_box, tf.pickndrop]:
                grid = Grid.from_shape((3, 3))
                state = State(grid, Agent(Position(1, 1), heading, Key(Color.RED)))
                grid[state.agent.front()] = copy.deepcopy(target)
                function(state, action)
                check(
                    state.agent.position == Position(1, 1)
                    and state.agent.orientation is heading,
                    f'{function.__name__} changed the pose',
                )
        # ... also in a corner, facing outside
        for function in [tf.actuate_door, tf.actuate_box, tf.pickndrop]:
            state = State(Grid.from_shape((1, 1)), Agent(Position(0, 0), heading))
            function(state, action)
            check(
                state.agent.position == Position(0, 0)
                and state.agent.orientation is heading,
                'pose in a 1x1 grid',
            )

# move_obstacles moves obstacles, not the agent
for seed in range(5):
    grid = Grid.from_shape((3, 4))
    grid[0, 0] = MovingObstacle()
    grid[2, 3] = MovingObstacle()
    state = State(grid, Agent(Position(1, 1), Orientation.L))
    for action in Action:
        tf.move_obstacles(state, action, rng=rnd.default_rng(seed))
        check(
            state.agent.position == Position(1, 1)
            and state.agent.orientation is Orientation.L,
            'move_obstacles changed the pose',
        )

# teleport:  only from a telepod, only to the paired telepod, heading kept
for heading in COMPASS:
    grid = Grid.from_shape((2, 5))
    grid[0, 1] = Telepod(Color.RED)
    grid[1, 4] = Telepod(Color.RED)
    grid[1, 0] = Telepod(Color.BLUE)  # unpaired
    for (y, x), expected in [
        ((0, 1), (1, 4)),
        ((1, 4), (0, 1)),
        ((1, 0), (1, 0)),
        ((0, 0), (0, 0)),
    ]:
        state = State(grid, Agent(Position(y, x), heading))
        tf.teleport(state, Action.MOVE_FORWARD, rng=rnd.default_rng(0))
        check(state.agent.position.yx == expected, 'teleport destination')
        check(state.agent.orientation is heading, 'teleport keeps heading')

# ------------------------------------------ 5. histories of shipped configs

COLORS = {Color.RED, Color.GREEN, Color.BLUE, Color.YELLOW}
MOVE_TURN = ['move_agent', 'turn_agent']
CONFIGS = [
    ('crossing', dict(shape=Shape(5, 5), num_rivers=1, object_type=Wall), MOVE_TURN),
    ('crossing', dict(shape=Shape(7, 7), num_rivers=2, object_type=Wall), MOVE_TURN),
    (
        'dynamic_obstacles',
        dict(shape=Shape(5, 5), num_obstacles=1, random_agent=False),
        MOVE_TURN + ['move_obstacles'],
    ),
    (
        'dynamic_obstacles',
        dict(shape=Shape(7, 7), num_obstacles=2, random_agent=False),
        MOVE_TURN + ['move_obstacles'],
    ),
    ('empty', dict(shape=Shape(4, 4), random_agent=True), MOVE_TURN),
    ('empty', dict(shape=Shape(8, 8), random_agent=True), MOVE_TURN),
    ('rooms', dict(shape=Shape(7, 7), layout=(2, 2)), MOVE_TURN),
    ('rooms', dict(shape=Shape(9, 9), layout=(2, 2)), MOVE_TURN),
    ('rooms', dict(shape=Shape(10, 10), layout=(3, 3)), MOVE_TURN),
    ('rooms', dict(shape=Shape(13, 13), layout=(3, 3)), MOVE_TURN),
    ('keydoor', dict(shape=Shape(5, 5)), MOVE_TURN + ['actuate_door', 'pickndrop']),
    ('keydoor', dict(shape=Shape(7, 7)), MOVE_TURN + ['actuate_door', 'pickndrop']),
    ('keydoor', dict(shape=Shape(9, 9)), MOVE_TURN + ['actuate_door', 'pickndrop']),
    ('memory', dict(shape=Shape(5, 5), colors=COLORS), MOVE_TURN),
    ('memory', dict(shape=Shape(9, 9), colors=COLORS), MOVE_TURN),
    (
        'memory_rooms',
        dict(shape=Shape(7, 7), layout=(2, 2), colors=COLORS, num_beacons=1, num_exits=2),
        MOVE_TURN,
    ),
    (
        'memory_rooms',
        dict(shape=Shape(9, 9), layout=(2, 2), colors=COLORS, num_beacons=1, num_exits=2),
        MOVE_TURN,
    ),
    (
        'memory_rooms',
        dict(shape=Shape(10, 10), layout=(3, 3), colors=COLORS, num_beacons=1, num_exits=2),
        MOVE_TURN,
    ),
    (
        'memory_rooms',
        dict(shape=Shape(13, 13), layout=(3, 3), colors=COLORS, num_beacons=1, num_exits=2),
        MOVE_TURN,
    ),
    ('teleport', dict(shape=Shape(5, 5)), MOVE_TURN + ['teleport']),
    ('teleport', dict(shape=Shape(7, 7)), MOVE_TURN + ['teleport']),
    # not shipped, but legal:  non-square grids
    ('empty', dict(shape=Shape(4, 9), random_agent=True), MOVE_TURN),
    ('keydoor', dict(shape=Shape(5, 8)), MOVE_TURN + ['actuate_door', 'pickndrop']),
    ('teleport', dict(shape=Shape(7, 5)), MOVE_TURN + ['teleport']),
]
ACTIONS = list(Action)


def make(config):
    name, kwargs, transition_names = config
    reset = reset_functions.factory(name, **kwargs)
    transitions = [tf.factory(n) for n in transition_names]
    return reset, transitions


def rollout(config, seed, steps):
    """random history;  checks each step against the reference kinematics"""
    reset, transitions = make(config)
    rng = rnd.default_rng(seed)
    policy = rnd.default_rng(seed + 1000)
    state = reset(rng=rng)
    trace = []
    for _ in range(steps):
        height, width = state.grid.shape.height, state.grid.shape.width
        y, x = state.agent.position.yx
        check(0 <= y < height and 0 <= x < width, 'agent inside the grid')
        check(
            not ref_blocks(state.grid[y, x]),
            f'agent on a blocking cell {state.grid[y, x]!r}',
        )
        check(
            not state.grid[y, x].blocks_movement, 'agent on a blocking cell'
        )
        trace.append((y, x, state.agent.orientation))

        action = ACTIONS[policy.integers(len(ACTIONS))]
        heading = state.agent.orientation

        # expected pose after move_agent and turn_agent
        ey, ex = y, x
        if action in MOVE_QUARTERS:
            ty, tx = ref_target(y, x, heading, action)
            if (
                0 <= ty < height
                and 0 <= tx < width
                and not ref_blocks(state.grid[ty, tx])
            ):
                ey, ex = ty, tx
        eheading = COMPASS[
            (COMPASS.index(heading) + TURN_QUARTERS.get(action, 0)) % 4
        ]

        for transition in transitions[:2]:
            transition(state, action, rng=rng)
        check(
            state.agent.position.yx == (ey, ex)
            and state.agent.orientation is eheading,
            f'{config[0]} step {action}: pose {state.agent.position} '
            f'{state.agent.orientation}, expected {(ey, ex)} {eheading}',
        )
        for transition in transitions[2:]:
            on_telepod = isinstance(state.grid[state.agent.position], Telepod)
            transition(state, action, rng=rng)
            check(state.agent.orientation is eheading, 'heading kept')
            if not (transition.func is tf.teleport and on_telepod):
                check(state.agent.position.yx == (ey, ex), 'position kept')
    return trace


for config in CONFIGS:
    for seed in range(3):
        trace = rollout(config, seed, 150)
        check(len(trace) == 150, 'trace length')

# re-seeding reproduces, also with several environments interleaved
config_a = next(c for c in CONFIGS if c[0] == 'dynamic_obstacles')
config_b = next(c for c in CONFIGS if c[0] == 'teleport')
t1 = rollout(config_a, 7, 100)
t2 = rollout(config_b, 7, 100)
t3 = rollout(config_a, 7, 100)
t4 = rollout(config_b, 7, 100)
check(t1 == t3 and t2 == t4, 're-seeding reproduces the history')

# the chain combinator gives the same kinematics
for heading in COMPASS:
    for action in Action:
        s1 = State(Grid.from_shape((3, 4)), Agent(Position(0, 3), heading))
        s2 = State(Grid.from_shape((3, 4)), Agent(Position(0, 3), heading))
        tf.chain(
            s1, action, transition_functions=[tf.move_agent, tf.turn_agent]
        )
        tf.move_agent(s2, action)
        tf.turn_agent(s2, action)
        check(s1.agent == s2.agent, 'chain')
        s3 = tf.transition_with_copy(tf.move_agent, s2, action)
        check(s3 is not s2 and s3.agent is not s2.agent, 'copy')

print(f'OK ({CHECKS} checks)')
