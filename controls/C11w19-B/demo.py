"""Demo for property C11 (stochastic dynamics obey their rules for every random outcome).

Self-contained;  exits 0 on the pristine tree and with the change applied.

Three families of checks:

1. exhaustive:  `move_obstacles` and `teleport` are driven with a scripted rng
   which enumerates *every* resolution of every random choice;  the set of
   outcomes (tracked at the level of object identities) is compared with an
   independent model of the rules written in this file;
2. reference:  the pristine implementations are embedded below and compared
   with the library for real numpy generators (same final state, same
   generator state afterwards), through direct calls, the module-level rng,
   `factory`, `chain` and `transition_with_copy`, with repeated calls, several
   states in one process and re-seeding;
3. (only if present) the new `choice_or_none` helper against the pristine
   try / except spelling (same element, same use of the generator, argument
   not modified).
"""
import itertools as itt
import os
import random
import sys

# run from the worktree root:  the package of the worktree is the one tested
sys.path.insert(0, os.getcwd())

from gym_gridverse.action import Action
from gym_gridverse.agent import Agent
from gym_gridverse.envs import reset_functions
from gym_gridverse.envs.transition_functions import factory as transition_factory
from gym_gridverse.envs.transition_functions import (
    move_obstacles,
    teleport,
    transition_with_copy,
)
from gym_gridverse.geometry import Orientation, Position, Shape
from gym_gridverse.grid import Grid
from gym_gridverse.grid_object import (
    Beacon,
    Box,
    Color,
    Door,
    Exit,
    Floor,
    Key,
    MovingObstacle,
    Telepod,
    Wall,
)
from gym_gridverse.rng import make_rng, reset_gv_rng
from gym_gridverse.state import State

checks = 0


def check(condition, message):
    global checks
    checks += 1
    if not condition:
        print('FAILED:', message)
        sys.exit(1)


# ---------------------------------------------------------------------------
# scripted rng:  enumerates all resolutions of all random choices


class ScriptRng:
    """Quacks like `numpy.random.Generator` for `choice(n)`.

    Follows the given script, then answers 0;  records the number of
    alternatives of every (successful) choice.
    """

    def __init__(self, script):
        self.script = list(script)
        self.ns = []

    def choice(self, n, *args, **kwargs):
        check(not args and not kwargs, 'unexpected arguments to rng.choice')
        n = int(n)
        if n <= 0:
            # same as numpy
            raise ValueError('a must be a positive integer')
        k = len(self.ns)
        self.ns.append(n)
        i = self.script[k] if k < len(self.script) else 0
        check(0 <= i < n, 'script out of range')
        return i


def enumerate_outcomes(run):
    """runs `run(rng)` for every resolution of the random choices

    Returns the list of (script, ns, result), in lexicographic order of scripts.
    """
    outcomes = []
    stack = [[]]
    while stack:
        script = stack.pop()
        rng = ScriptRng(script)
        result = run(rng)
        if len(rng.ns) > len(script):
            k = len(script)
            for i in reversed(range(rng.ns[k])):
                stack.append(script + [i])
        else:
            outcomes.append((tuple(script), tuple(rng.ns), result))
    return outcomes


# ---------------------------------------------------------------------------
# embedded reference implementations (pristine code, spelled out in full)


def ref_neighbours(position):
    y, x = position.y, position.x
    # top, right, bottom, left
    return [
        Position(y - 1, x),
        Position(y, x + 1),
        Position(y + 1, x),
        Position(y, x - 1),
    ]


def ref_in_grid(grid, position):
    return (
        0 <= position.y < grid.shape.height
        and 0 <= position.x < grid.shape.width
    )


def ref_all_positions(grid):
    return [
        Position(y, x)
        for y in range(grid.shape.height)
        for x in range(grid.shape.width)
    ]


def ref_move_obstacles(state, action, *, rng):
    positions = [
        position
        for position in ref_all_positions(state.grid)
        if isinstance(state.grid[position], MovingObstacle)
    ]

    for position in positions:
        next_positions = [
            next_position
            for next_position in ref_neighbours(position)
            if ref_in_grid(state.grid, next_position)
            and isinstance(state.grid[next_position], Floor)
        ]

        try:
            i = rng.choice(len(next_positions))
        except ValueError:
            pass
        else:
            p, q = position, next_positions[i]
            a, b = state.grid[p], state.grid[q]
            state.grid[p] = b
            state.grid[q] = a


def ref_teleport(state, action, *, rng):
    telepod = state.grid[state.agent.position]

    if isinstance(telepod, Telepod):
        positions = [
            position
            for position in ref_all_positions(state.grid)
            if position != state.agent.position
            and isinstance(state.grid[position], Telepod)
            and state.grid[position].color == telepod.color
        ]
        try:
            i = rng.choice(len(positions))
        except ValueError:
            pass
        else:
            state.agent.position = positions[i]


# ---------------------------------------------------------------------------
# scenario generation

SHAPES = [
    (1, 1),
    (1, 2),
    (2, 1),
    (1, 5),
    (5, 1),
    (2, 2),
    (2, 3),
    (3, 2),
    (3, 5),
    (5, 3),
    (4, 4),
    (4, 7),
]

COLORS = [Color.NONE, Color.RED, Color.BLUE]


def make_cell(r, kind):
    if kind == 'floor':
        return Floor()
    if kind == 'wall':
        return Wall()
    if kind == 'obstacle':
        return MovingObstacle()
    if kind == 'telepod':
        return Telepod(r.choice(COLORS))
    if kind == 'exit':
        return Exit()
    if kind == 'key':
        return Key(r.choice(COLORS))
    if kind == 'door':
        return Door(r.choice(list(Door.Status)), r.choice(COLORS))
    if kind == 'box':
        return Box(Floor())
    if kind == 'beacon':
        return Beacon(r.choice(COLORS))
    raise AssertionError(kind)


def random_objects(r, shape, weights, max_obstacles):
    height, width = shape
    kinds, ws = zip(*weights.items())
    objects = [
        [make_cell(r, r.choices(kinds, ws)[0]) for _ in range(width)]
        for _ in range(height)
    ]
    # bounds the size of the exhaustive enumerations
    obstacles = [
        (y, x)
        for y in range(height)
        for x in range(width)
        if isinstance(objects[y][x], MovingObstacle)
    ]
    r.shuffle(obstacles)
    for y, x in obstacles[max_obstacles:]:
        objects[y][x] = Floor()
    return objects


OBSTACLE_WEIGHTS = {
    'floor': 8,
    'wall': 2,
    'obstacle': 4,
    'telepod': 1,
    'exit': 1,
    'key': 1,
    'door': 1,
    'box': 1,
    'beacon': 1,
}

TELEPOD_WEIGHTS = {
    'floor': 5,
    'wall': 2,
    'obstacle': 1,
    'telepod': 6,
    'exit': 1,
    'key': 1,
    'beacon': 1,
}


def handmade_obstacle_layouts():
    F, W, M = Floor, Wall, MovingObstacle
    return [
        [[M()]],
        [[F()]],
        [[M(), M()]],
        [[M()], [F()]],
        [[F(), M(), M()]],
        [[M(), F(), M()]],
        [[M(), M(), F()]],
        [[M(), F()], [F(), M()]],
        # obstacles in the four corners and on the borders of a non-square grid
        [
            [M(), F(), M(), F(), M()],
            [F(), W(), F(), W(), F()],
            [M(), F(), F(), F(), M()],
        ],
        # boxed-in obstacle, freed only by the movement of an earlier one
        [
            [W(), M(), W()],
            [F(), M(), W()],
            [W(), W(), W()],
        ],
        # obstacle whose only free cell is taken by an earlier one
        [
            [M(), F(), M()],
            [W(), W(), W()],
        ],
        # obstacle moving forward in the iteration order (must not move twice)
        [
            [M(), F(), F(), F()],
            [W(), F(), F(), F()],
        ],
        # non-floor neighbours are never destinations
        [
            [Exit(), Key(Color.RED), Telepod(Color.RED)],
            [Box(F()), M(), Door(Door.Status.OPEN, Color.NONE)],
            [Beacon(Color.NONE), F(), Telepod(Color.RED)],
        ],
    ]


def handmade_telepod_layouts():
    F, W, T = Floor, Wall, Telepod
    R, B, N = Color.RED, Color.BLUE, Color.NONE
    return [
        [[T(R)]],
        [[T(R), T(R)]],
        [[T(R)], [T(B)]],
        [[T(N), F(), T(N)]],
        [[T(N), T(R), T(N), T(R), T(N)]],
        [
            [T(R), F(), T(B), W()],
            [F(), T(R), F(), T(B)],
            [T(N), F(), T(R), F()],
        ],
        [
            [T(B), T(B)],
            [T(B), T(B)],
            [T(R), T(N)],
        ],
    ]


# ---------------------------------------------------------------------------
# identity-level snapshots


def snapshot(state, index):
    """layout as a tuple of rows of indices of the (identical) initial objects"""
    return tuple(
        tuple(
            index[id(state.grid[Position(y, x)])]
            for x in range(state.grid.shape.width)
        )
        for y in range(state.grid.shape.height)
    )


def identity_index(objects):
    flat = [obj for row in objects for obj in row]
    check(len({id(obj) for obj in flat}) == len(flat), 'distinct objects')
    return {id(obj): i for i, obj in enumerate(flat)}


# ---------------------------------------------------------------------------
# independent model of the obstacle rule, over layouts of indices


def model_obstacle_outcomes(objects):
    """list of final layouts, one for every resolution, in lexicographic order"""
    height, width = len(objects), len(objects[0])
    kinds = {}
    layout = {}
    i = 0
    for y in range(height):
        for x in range(width):
            kinds[i] = (
                'obstacle'
                if isinstance(objects[y][x], MovingObstacle)
                else 'floor'
                if isinstance(objects[y][x], Floor)
                else 'other'
            )
            layout[y, x] = i
            i += 1

    # each obstacle gets exactly one turn, in row-major order of the initial layout
    turns = [
        (y, x)
        for y in range(height)
        for x in range(width)
        if kinds[layout[y, x]] == 'obstacle'
    ]

    finals = []

    def recurse(layout, k):
        if k == len(turns):
            finals.append(
                tuple(
                    tuple(layout[y, x] for x in range(width))
                    for y in range(height)
                )
            )
            return

        y, x = turns[k]
        free = [
            (yy, xx)
            for yy, xx in [(y - 1, x), (y, x + 1), (y + 1, x), (y, x - 1)]
            if 0 <= yy < height
            and 0 <= xx < width
            and kinds[layout[yy, xx]] == 'floor'
        ]
        if not free:
            # stays, only if it has no free neighbour at its turn
            recurse(layout, k + 1)
            return

        for yy, xx in free:
            next_layout = dict(layout)
            next_layout[y, x] = layout[yy, xx]
            next_layout[yy, xx] = layout[y, x]
            recurse(next_layout, k + 1)

    recurse(layout, 0)
    return finals, kinds


def check_obstacle_invariants(initial, final, kinds, name):
    flat_initial = [i for row in initial for i in row]
    flat_final = [i for row in final for i in row]
    # nothing lost, nothing duplicated
    check(sorted(flat_final) == flat_initial, f'{name}: permutation')

    position_initial = {
        i: (y, x) for y, row in enumerate(initial) for x, i in enumerate(row)
    }
    position_final = {
        i: (y, x) for y, row in enumerate(final) for x, i in enumerate(row)
    }
    for i, kind in kinds.items():
        (y0, x0), (y1, x1) = position_initial[i], position_final[i]
        if kind == 'other':
            check((y0, x0) == (y1, x1), f'{name}: non-floor cells untouched')
        if kind == 'obstacle':
            # moved at most once
            check(
                abs(y0 - y1) + abs(x0 - x1) <= 1, f'{name}: moved at most once'
            )
            # only ever on cells which were floor or held an obstacle
            check(
                kinds[initial[y1][x1]] in ('floor', 'obstacle'),
                f'{name}: obstacle on non-floor cell',
            )


def exhaustive_obstacles(objects_factory, name, functions):
    for fname, function in functions:
        objects = objects_factory()
        index = identity_index(objects)
        model_finals, kinds = model_obstacle_outcomes(objects)
        initial = tuple(
            tuple(index[id(obj)] for obj in row) for row in objects
        )

        def run(rng):
            state = State(
                Grid([list(row) for row in objects]),
                Agent(Position(0, 0), Orientation.F),
            )
            function(state, Action.MOVE_FORWARD, rng=rng)
            check(
                state.agent.position == Position(0, 0)
                and state.agent.orientation is Orientation.F,
                f'{name}/{fname}: agent untouched by obstacles',
            )
            return snapshot(state, index)

        outcomes = enumerate_outcomes(run)
        finals = [result for _, _, result in outcomes]
        check(
            finals == model_finals,
            f'{name}/{fname}: outcomes differ from the model of the rules',
        )
        for final in finals:
            check_obstacle_invariants(initial, final, kinds, f'{name}/{fname}')

        # every free neighbour of the first obstacle is a possible destination
        first = [i for i in sorted(kinds) if kinds[i] == 'obstacle'][:1]
        for i in first:
            width = len(objects[0])
            y, x = divmod(i, width)
            free = {
                (yy, xx)
                for yy, xx in [(y - 1, x), (y, x + 1), (y + 1, x), (y, x - 1)]
                if 0 <= yy < len(objects)
                and 0 <= xx < width
                and kinds[initial[yy][xx]] == 'floor'
            }
            # (a later obstacle may swap with the floor left behind, never with
            # the obstacle itself, so the first obstacle's final cell is its
            # destination)
            reached = {
                (yy, xx)
                for final in finals
                for yy, row in enumerate(final)
                for xx, j in enumerate(row)
                if j == i
            }
            check(
                reached == (free or {(y, x)}),
                f'{name}/{fname}: every free neighbour is possible',
            )


def exhaustive_teleport(objects_factory, name, functions):
    objects = objects_factory()
    height, width = len(objects), len(objects[0])
    for fname, function in functions:
        for y, x, orientation, action in itt.product(
            range(height), range(width), Orientation, Action
        ):
            objects = objects_factory()
            index = identity_index(objects)
            initial = tuple(
                tuple(index[id(obj)] for obj in row) for row in objects
            )
            held = Key(Color.RED)

            here = objects[y][x]
            partners = (
                sorted(
                    (yy, xx)
                    for yy in range(height)
                    for xx in range(width)
                    if (yy, xx) != (y, x)
                    and isinstance(objects[yy][xx], Telepod)
                    and objects[yy][xx].color == here.color
                )
                if isinstance(here, Telepod)
                else []
            )

            def run(rng):
                state = State(
                    Grid([list(row) for row in objects]),
                    Agent(Position(y, x), orientation, held),
                )
                function(state, action, rng=rng)
                check(
                    snapshot(state, index) == initial,
                    f'{name}/{fname}: grid untouched by teleport',
                )
                check(
                    state.agent.orientation is orientation
                    and state.agent.grid_object is held,
                    f'{name}/{fname}: heading and item untouched',
                )
                return state.agent.position.yx

            outcomes = enumerate_outcomes(run)
            if partners:
                check(
                    [ns for _, ns, _ in outcomes]
                    == [(len(partners),)] * len(partners),
                    f'{name}/{fname}: one choice among the partners',
                )
                check(
                    [result for _, _, result in outcomes] == partners,
                    f'{name}/{fname}: each partner is possible, nothing else',
                )
            else:
                check(
                    outcomes == [((), (), (y, x))],
                    f'{name}/{fname}: no displacement without a partner',
                )


# ---------------------------------------------------------------------------
# comparison with the reference for real generators


def states_equal(a, b):
    return a.grid == b.grid and a.agent == b.agent


def generator_state(rng):
    return rng.bit_generator.state


def compare_with_reference(objects_factory, name, seeds, steps=4):
    objects = objects_factory()
    height, width = len(objects), len(objects[0])
    positions = [(y, x) for y in range(height) for x in range(width)]

    lib_both = transition_factory(
        'chain',
        transition_functions=[
            transition_factory('move_obstacles'),
            transition_factory('teleport'),
        ],
    )

    def ref_both(state, action, *, rng):
        ref_move_obstacles(state, action, rng=rng)
        ref_teleport(state, action, rng=rng)

    for seed in seeds:
        r = random.Random(seed)
        y, x = r.choice(positions)
        orientation = r.choice(list(Orientation))

        for lib, ref, label in [
            (move_obstacles, ref_move_obstacles, 'move_obstacles'),
            (teleport, ref_teleport, 'teleport'),
            (lib_both, ref_both, 'chain'),
        ]:
            # explicit generators
            state_lib = State(
                Grid(objects_factory()), Agent(Position(y, x), orientation)
            )
            state_ref = State(
                Grid(objects_factory()), Agent(Position(y, x), orientation)
            )
            rng_lib, rng_ref = make_rng(seed), make_rng(seed)
            for _ in range(steps):
                action = r.choice(list(Action))
                lib(state_lib, action, rng=rng_lib)
                ref(state_ref, action, rng=rng_ref)
                check(
                    states_equal(state_lib, state_ref),
                    f'{name}/{label}: same state as reference (seed {seed})',
                )
                check(
                    generator_state(rng_lib) == generator_state(rng_ref),
                    f'{name}/{label}: same use of the generator (seed {seed})',
                )

            # library-level generator, re-seeded;  non in-place variant
            state_lib = State(
                Grid(objects_factory()), Agent(Position(y, x), orientation)
            )
            state_ref = State(
                Grid(objects_factory()), Agent(Position(y, x), orientation)
            )
            gv_rng = reset_gv_rng(seed)
            rng_ref = make_rng(seed)
            for _ in range(steps):
                action = r.choice(list(Action))
                next_state_lib = transition_with_copy(lib, state_lib, action)
                check(
                    next_state_lib is not state_lib
                    and states_equal(state_lib, state_ref),
                    f'{name}/{label}: copy leaves the state alone',
                )
                ref(state_ref, action, rng=rng_ref)
                state_lib = next_state_lib
                check(
                    states_equal(state_lib, state_ref),
                    f'{name}/{label}: same state as reference (gv rng)',
                )
                check(
                    generator_state(gv_rng) == generator_state(rng_ref),
                    f'{name}/{label}: same use of the gv generator',
                )


def compare_on_reset_states():
    """states of the actual environments, several alive in one process"""
    for seed in range(6):
        states = [
            reset_functions.dynamic_obstacles(
                Shape(6, 9), num_obstacles=5, rng=make_rng(seed)
            ),
            reset_functions.dynamic_obstacles(
                Shape(4, 4), num_obstacles=2, rng=make_rng(seed)
            ),
            reset_functions.teleport(Shape(5, 8), rng=make_rng(seed)),
            reset_functions.teleport(Shape(7, 4), rng=make_rng(seed)),
        ]
        rngs_lib = [make_rng(seed + 100) for _ in states]
        rngs_ref = [make_rng(seed + 100) for _ in states]
        states_lib = list(states)
        states_ref = [
            State(
                Grid(
                    [
                        [s.grid[Position(y, x)] for x in range(s.grid.shape.width)]
                        for y in range(s.grid.shape.height)
                    ]
                ),
                Agent(s.agent.position, s.agent.orientation, s.agent.grid_object),
            )
            for s in states
        ]
        r = random.Random(seed)
        for step in range(12):
            # interleaved steps of several environments
            for k in range(len(states)):
                action = r.choice(list(Action))
                if step % 3 == 0:
                    # put the agent on some telepod, if any
                    telepods = [
                        p
                        for p in ref_all_positions(states_lib[k].grid)
                        if isinstance(states_lib[k].grid[p], Telepod)
                    ]
                    if telepods:
                        p = r.choice(telepods)
                        states_lib[k].agent.position = p
                        states_ref[k].agent.position = p

                count = sum(
                    isinstance(states_lib[k].grid[p], MovingObstacle)
                    for p in ref_all_positions(states_lib[k].grid)
                )
                move_obstacles(states_lib[k], action, rng=rngs_lib[k])
                teleport(states_lib[k], action, rng=rngs_lib[k])
                ref_move_obstacles(states_ref[k], action, rng=rngs_ref[k])
                ref_teleport(states_ref[k], action, rng=rngs_ref[k])
                check(
                    states_equal(states_lib[k], states_ref[k]),
                    'reset states: same as reference',
                )
                check(
                    generator_state(rngs_lib[k])
                    == generator_state(rngs_ref[k]),
                    'reset states: same use of the generator',
                )
                check(
                    count
                    == sum(
                        isinstance(states_lib[k].grid[p], MovingObstacle)
                        for p in ref_all_positions(states_lib[k].grid)
                    ),
                    'reset states: number of obstacles',
                )


# ---------------------------------------------------------------------------
# the new helper, when present


def check_choice_helper():
    try:
        from gym_gridverse.envs.utils import choice_or_none
    except ImportError:
        return

    for seed in range(20):
        rng_lib, rng_ref = make_rng(seed), make_rng(seed)
        r = random.Random(seed)
        for _ in range(30):
            n = r.choice([0, 0, 1, 2, 3, 4, 7])
            data = [Position(r.randrange(-3, 9), r.randrange(-3, 9)) for _ in range(n)]
            data = r.choice([list, tuple])(data)
            before = list(data)

            result = choice_or_none(rng_lib, data)

            # reference: the pristine spelling
            try:
                i = rng_ref.choice(len(data))
            except ValueError:
                expected = None
            else:
                expected = data[i]

            check(
                (result is None and expected is None) or result is expected,
                'choice_or_none: same element as the pristine spelling',
            )
            check((result is None) == (n == 0), 'choice_or_none: None iff empty')
            check(
                generator_state(rng_lib) == generator_state(rng_ref),
                'choice_or_none: same use of the generator',
            )
            check(
                list(data) == before
                and all(a is b for a, b in zip(data, before)),
                'choice_or_none: data not modified',
            )

    # an empty sequence leaves the generator untouched
    rng = make_rng(3)
    state_before = generator_state(rng)
    check(choice_or_none(rng, []) is None, 'choice_or_none: empty list')
    check(choice_or_none(rng, ()) is None, 'choice_or_none: empty tuple')
    check(generator_state(rng) == state_before, 'choice_or_none: untouched')

    # falsy elements are returned as such
    outcomes = enumerate_outcomes(lambda rng: choice_or_none(rng, [0, 1, 2]))
    check(
        [result for _, _, result in outcomes] == [0, 1, 2],
        'choice_or_none: every element is possible',
    )


# ---------------------------------------------------------------------------


def main():
    obstacle_functions = [
        ('direct', move_obstacles),
        ('factory', transition_factory('move_obstacles')),
        (
            'chain',
            transition_factory(
                'chain', transition_functions=[move_obstacles]
            ),
        ),
    ]
    teleport_functions = [
        ('direct', teleport),
        ('factory', transition_factory('teleport')),
    ]

    scenarios = []
    for k, layout in enumerate(handmade_obstacle_layouts()):
        # handmade layouts hold fresh objects;  rebuild them on every call
        scenarios.append(
            (
                f'handmade-obstacles-{k}',
                (lambda k=k: handmade_obstacle_layouts()[k]),
                'obstacles',
            )
        )
    for k, layout in enumerate(handmade_telepod_layouts()):
        scenarios.append(
            (
                f'handmade-telepods-{k}',
                (lambda k=k: handmade_telepod_layouts()[k]),
                'telepods',
            )
        )
    for seed in range(40):
        shape = SHAPES[seed % len(SHAPES)]
        scenarios.append(
            (
                f'random-obstacles-{seed}-{shape}',
                (
                    lambda seed=seed, shape=shape: random_objects(
                        random.Random(seed), shape, OBSTACLE_WEIGHTS, 5
                    )
                ),
                'obstacles',
            )
        )
        scenarios.append(
            (
                f'random-telepods-{seed}-{shape}',
                (
                    lambda seed=seed, shape=shape: random_objects(
                        random.Random(1000 + seed), shape, TELEPOD_WEIGHTS, 2
                    )
                ),
                'telepods',
            )
        )

    for name, objects_factory, kind in scenarios:
        exhaustive_obstacles(
            objects_factory,
            name,
            obstacle_functions if kind == 'obstacles' else obstacle_functions[:1],
        )
        exhaustive_teleport(
            objects_factory,
            name,
            teleport_functions if kind == 'telepods' else teleport_functions[:1],
        )
        compare_with_reference(objects_factory, name, seeds=range(5))

    compare_on_reset_states()
    check_choice_helper()

    print(f'OK ({checks} checks, {len(scenarios)} scenarios)')


if __name__ == '__main__':
    main()
