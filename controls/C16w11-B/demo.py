"""Demo for change B (spaces.py: contains() scans the grid once and stops early).

Run from the worktree root:  /venv/bin/python _seed/B/demo.py

Exits 0 on the pristine tree and with the patch applied.  It checks property
C16 (faithful numeric representations) against a reference implementation that
is embedded in this file, on members of many spaces, and it pins the membership
test itself -- ``StateSpace.contains`` / ``ObservationSpace.contains``, which
delimits the states the property quantifies over and which ``convert`` consults
in debug mode -- against an embedded reference on members and on many kinds of
non-members (offending cell first / last / in the middle, wrong type, wrong
colour, both, wrong shape, agent outside, wrong item, ...).
"""
import itertools as itt
import os
import random
import sys

import numpy as np

sys.path.insert(0, os.getcwd())  # the worktree root: import *this* tree

from gym_gridverse.agent import Agent
from gym_gridverse.debugging import reset_gv_debug
from gym_gridverse.envs import observation_functions, reset_functions
from gym_gridverse.geometry import Area, Orientation, Position, Shape
from gym_gridverse.grid import Grid
from gym_gridverse.grid_object import (
    Beacon,
    Color,
    Door,
    Exit,
    Floor,
    GridObject,
    Hidden,
    Key,
    MovingObstacle,
    NoneGridObject,
    Telepod,
    Wall,
    grid_object_registry,
)
from gym_gridverse.observation import Observation
from gym_gridverse.representations.observation_representations import (
    make_observation_representation,
)
from gym_gridverse.representations.state_representations import (
    make_state_representation,
)
from gym_gridverse.rng import make_rng
from gym_gridverse.spaces import ObservationSpace, StateSpace
from gym_gridverse.state import State

reset_gv_debug(True)  # convert() then also runs space.contains()

NAMES = ['default', 'no-overlap', 'compact']
CHECKS = 0


def check(condition, *message):
    global CHECKS
    CHECKS += 1
    if not condition:
        print('FAILED:', *message)
        sys.exit(1)


# ---------------------------------------------------------------- reference


def all_objects(object_type, colors):
    """exhaustively all instances of a type with colours from `colors`"""
    colors = sorted(set(colors) | {Color.NONE}, key=lambda c: c.value)
    if object_type in (Floor, Wall, MovingObstacle, NoneGridObject, Hidden):
        return [object_type()]
    if object_type in (Exit, Key, Telepod, Beacon):
        return [object_type(color) for color in colors]
    if object_type is Door:
        return [
            Door(status, color) for status in Door.Status for color in colors
        ]
    raise AssertionError(object_type)


def raw_triple(obj):
    """(type, status, colour) read without GridObject helpers"""
    return (
        list(grid_object_registry.data).index(type(obj)),
        obj.state_index,
        obj.color.value,
    )


class Reference:
    """reference per-object encodings for a set of types and colours"""

    def __init__(self, name, types, colors):
        self.name = name
        self.types = sorted(
            set(types), key=lambda t: list(grid_object_registry.data).index(t)
        )
        self.colors = sorted(set(colors) | {Color.NONE}, key=lambda c: c.value)
        indices = [list(grid_object_registry.data).index(t) for t in self.types]
        self.max_type = max(indices)
        self.max_num_states = max(t.num_states() for t in self.types)
        self.max_color = max(c.value for c in self.colors)

        # compact tables: consecutive integers, types, then statuses, then colours
        counter = itt.count()
        self.compact_type = {t: next(counter) for t in self.types}
        self.compact_status = {
            (t, j): next(counter)
            for t in self.types
            for j in range(t.num_states())
        }
        self.compact_color = {c: next(counter) for c in self.colors}
        self.compact_size = next(counter)

    def encode(self, obj):
        i, j, k = raw_triple(obj)
        if self.name == 'default':
            return (i, j, k)
        if self.name == 'no-overlap':
            return (
                i,
                self.max_type + 1 + j,
                self.max_type + 1 + self.max_num_states + 1 + k,
            )
        if self.name == 'compact':
            return (
                self.compact_type[type(obj)],
                self.compact_status[type(obj), j],
                self.compact_color[obj.color],
            )
        raise AssertionError(self.name)

    def upper_bound(self):
        if self.name == 'default':
            return (self.max_type, self.max_num_states, self.max_color)
        if self.name == 'no-overlap':
            return (
                self.max_type,
                self.max_type + 1 + self.max_num_states,
                self.max_type + 1 + self.max_num_states + 1 + self.max_color,
            )
        return (
            max(self.compact_type.values()),
            max(self.compact_status.values()),
            max(self.compact_color.values()),
        )


def reference_grid(ref, grid):
    """(H, W, 3) array read from the raw nested list, never through Grid[...]"""
    height, width = len(grid.objects), len(grid.objects[0])
    out = np.zeros((height, width, 3), int)
    for y in range(height):
        for x in range(width):
            out[y, x] = ref.encode(grid.objects[y][x])
    return out


def reference_marker(grid, agent):
    out = np.zeros((len(grid.objects), len(grid.objects[0])), int)
    out[agent.position.y, agent.position.x] = 1
    return out


def reference_agent(grid, agent):
    height, width = len(grid.objects), len(grid.objects[0])
    out = np.zeros(6)
    out[0] = (2 * agent.position.y - height + 1) / (height - 1)
    out[1] = (2 * agent.position.x - width + 1) / (width - 1)
    out[2 + agent.orientation.value] = 1
    return out


def rep_key(rep):
    """hashable stand-in for a representation: equal keys iff equal arrays"""
    return tuple(
        (key, rep[key].shape, (rep[key] + 0.0).tobytes()) for key in sorted(rep)
    )


def reps_equal(r1, r2):
    return r1.keys() == r2.keys() and all(
        np.array_equal(r1[key], r2[key]) for key in r1
    )


def raw_equal(a, b, *, with_orientation):
    """equality of states/observations decided on raw data only"""
    if len(a.grid.objects) != len(b.grid.objects):
        return False
    if len(a.grid.objects[0]) != len(b.grid.objects[0]):
        return False
    for row_a, row_b in zip(a.grid.objects, b.grid.objects):
        for obj_a, obj_b in zip(row_a, row_b):
            if type(obj_a) is not type(obj_b) or raw_triple(
                obj_a
            ) != raw_triple(obj_b):
                return False
    if (a.agent.position.y, a.agent.position.x) != (
        b.agent.position.y,
        b.agent.position.x,
    ):
        return False
    if with_orientation and a.agent.orientation is not b.agent.orientation:
        return False
    return raw_triple(a.agent.grid_object) == raw_triple(b.agent.grid_object)


# ------------------------------------------------------ per-object encodings


def check_object_encodings(name, ref, grid_object_rep, pool):
    codes = {}
    for obj in pool:
        code = tuple(int(v) for v in grid_object_rep.convert(obj))
        check(code == ref.encode(obj), name, obj, code, ref.encode(obj))
        # repeated calls and a freshly built equal object agree
        again = tuple(int(v) for v in grid_object_rep.convert(obj))
        check(code == again, 'repeated convert', name, obj)
        codes.setdefault(code, []).append(obj)
    # lossless: different objects get different codes
    for code, objs in codes.items():
        check(
            all(raw_triple(o) == raw_triple(objs[0]) for o in objs),
            'collision',
            name,
            code,
            objs,
        )
    space = grid_object_rep.space
    check(
        tuple(int(v) for v in space.upper_bound) == ref.upper_bound(),
        'upper bound',
        name,
        space.upper_bound,
        ref.upper_bound(),
    )
    check(tuple(int(v) for v in space.lower_bound) == (0, 0, 0), 'lower bound')
    for code in codes:
        check(space.contains(np.array(code)), 'code outside space', name, code)

    channels = [set(code[c] for code in codes) for c in range(3)]
    # every colour of the space, also those no object of the pool can take
    # (the colour channel does not depend on the type of the probe)
    for color in ref.colors:
        probe = NoneGridObject()  # always a type of the representation
        probe.color = color
        value = int(grid_object_rep.convert(probe)[2])
        check(value == ref.encode(probe)[2], 'colour probe', name, color)
        channels[2].add(value)
    check(len(channels[2]) == len(ref.colors), 'colour channel is injective')
    if name in ('no-overlap', 'compact'):
        for c1, c2 in itt.combinations(range(3), 2):
            check(
                max(channels[c1]) < min(channels[c2]),
                'channels overlap',
                name,
                channels,
            )
    if name == 'compact':
        used = set().union(*channels)
        check(
            used == set(range(ref.compact_size)),
            'compact values not consecutive from zero',
            sorted(used),
            ref.compact_size,
        )


# ---------------------------------------------------------- random members


def agent_positions(height, width):
    """corners, border midpoints, centre"""
    ys = sorted({0, height // 2, height - 1})
    xs = sorted({0, width // 2, width - 1})
    return [Position(y, x) for y in ys for x in xs]


def random_grid(rnd, height, width, pool):
    return Grid(
        [[rnd.choice(pool) for _ in range(width)] for _ in range(height)]
    )


def clone_grid(grid):
    """an equal grid made of freshly built, distinct objects"""

    def clone(obj):
        if isinstance(obj, Door):
            return Door(obj.state, obj.color)
        if isinstance(obj, (Exit, Key, Telepod, Beacon)):
            return type(obj)(obj.color)
        return type(obj)()

    return Grid([[clone(obj) for obj in row] for row in grid.objects])


def state_scenarios(rnd, shape, grid_pool, item_pool):
    height, width = shape.height, shape.width
    states = []
    base_grids = [random_grid(rnd, height, width, grid_pool) for _ in range(3)]
    # a grid filled with one single object: every cell must get the same entry
    base_grids.append(
        Grid([[grid_pool[-1] for _ in range(width)] for _ in range(height)])
    )
    for grid in base_grids:
        for position in agent_positions(height, width):
            orientation = rnd.choice(list(Orientation))
            item = rnd.choice(item_pool)
            states.append(State(grid, Agent(position, orientation, item)))
    grid = base_grids[0]
    corner = Position(height - 1, width - 1)
    # all four headings in a corner
    for orientation in Orientation:
        states.append(State(grid, Agent(corner, orientation)))
    # every held item in a corner
    for item in item_pool:
        states.append(State(grid, Agent(corner, Orientation.L, item)))
    # equal copy built from fresh objects; single-cell variations
    states.append(State(clone_grid(grid), Agent(corner, Orientation.F)))
    for y, x in [(0, 0), (height - 1, 0), (0, width - 1), (height - 1, width - 1)]:
        for obj in rnd.sample(grid_pool, min(3, len(grid_pool))):
            variant = clone_grid(grid)
            variant.objects[y][x] = obj
            states.append(State(variant, Agent(corner, Orientation.F)))
    # two cells swapped
    swapped = clone_grid(grid)
    swapped.swap(Position(0, 0), Position(height - 1, width - 1))
    states.append(State(swapped, Agent(corner, Orientation.F)))
    return states


def check_members(
    name, kind, space, representation, ref, members, *, with_orientation
):
    converted = []
    spaces = representation.space
    for member in members:
        check(space.contains(member), 'member not contained', kind, member)
        rep = representation.convert(member)
        again = representation.convert(member)
        check(reps_equal(rep, again), 'convert is not repeatable')
        expected_keys = {'grid', 'agent_id_grid', 'item'}
        if kind == 'state':
            expected_keys.add('agent')
        check(set(rep) == expected_keys, 'keys', rep.keys())

        # positional: entry (y, x) is the encoding of the object in (y, x)
        check(
            np.array_equal(rep['grid'], reference_grid(ref, member.grid)),
            'grid representation',
            name,
            kind,
            member,
        )
        check(rep['grid'].shape == member.grid.shape.as_tuple + (3,), 'shape')
        # agent marker exactly at the agent's cell
        check(
            np.array_equal(
                rep['agent_id_grid'], reference_marker(member.grid, member.agent)
            ),
            'agent marker',
            name,
            kind,
            member,
        )
        check(rep['agent_id_grid'].sum() == 1, 'one marker')
        check(
            tuple(rep['item']) == ref.encode(member.agent.grid_object), 'item'
        )
        if kind == 'state':
            check(
                np.array_equal(
                    rep['agent'], reference_agent(member.grid, member.agent)
                ),
                'agent array',
                member,
            )
        for key, array in rep.items():
            check(
                spaces[key].contains(array),
                'representation outside of its space',
                name,
                kind,
                key,
            )
        converted.append(rep)

    # lossless on all pairs; equal ones hash alike
    equalities = pair_equalities(members, with_orientation)
    keys = [rep_key(rep) for rep in converted]
    check(reps_equal(converted[0], converted[0]), 'reflexive')
    for i, j in itt.combinations(range(len(members)), 2):
        if (i + j) % 7 == 0:  # the fast comparison agrees with numpy's
            check(
                (keys[i] == keys[j]) == reps_equal(converted[i], converted[j]),
                'rep_key',
            )
        check(
            equalities[i, j] == (keys[i] == keys[j]),
            'faithfulness',
            name,
            kind,
            members[i],
            members[j],
        )


_PAIR_EQUALITIES = {}


def pair_equalities(members, with_orientation):
    """library equality of all pairs (checked against raw equality and hashes),
    computed once per list of members and shared by the three encodings"""
    try:
        return _PAIR_EQUALITIES[id(members)][1]
    except KeyError:
        pass
    equalities = {}
    for (i, m1), (j, m2) in itt.combinations(enumerate(members), 2):
        equal = m1 == m2
        if (i + j) % 5 == 0:
            check(equal == (m2 == m1) and equal != (m1 != m2), 'symmetry')
        check(
            equal == raw_equal(m1, m2, with_orientation=with_orientation),
            'library equality differs from raw equality',
            m1,
            m2,
        )
        if equal:
            check(hash(m1) == hash(m2), 'hash of equal members', m1, m2)
            check(hash(m1.grid) == hash(m2.grid), 'hash of equal grids')
            check(hash(m1.agent) == hash(m2.agent), 'hash of equal agents')
        equalities[i, j] = equal
    _PAIR_EQUALITIES[id(members)] = (members, equalities)  # keeps the id alive
    return equalities


def observation_scenarios(rnd, shape, grid_pool, item_pool):
    height, width = shape.height, shape.width
    position = Position(height - 1, width // 2)
    observations = []
    grids = [random_grid(rnd, height, width, grid_pool) for _ in range(4)]
    grids.append(
        Grid([[Hidden() for _ in range(width)] for _ in range(height)])
    )
    for grid in grids:
        item = rnd.choice(item_pool)
        observations.append(
            Observation(grid, Agent(position, Orientation.F, item))
        )
    grid = grids[0]
    for item in item_pool:
        observations.append(
            Observation(grid, Agent(position, Orientation.F, item))
        )
    observations.append(
        Observation(clone_grid(grid), Agent(position, Orientation.F))
    )
    for y, x in {(0, 0), (height - 1, 0), (0, width - 1), (height - 1, width - 1)}:
        for obj in rnd.sample(grid_pool, min(3, len(grid_pool))):
            variant = clone_grid(grid)
            variant.objects[y][x] = obj
            observations.append(
                Observation(variant, Agent(position, Orientation.F))
            )
    # agent markers elsewhere (legal members of the space as well)
    for other in agent_positions(height, width)[:4]:
        observations.append(Observation(grid, Agent(other, Orientation.F)))
    return observations


TYPE_SUBSETS = [
    [Floor, Wall],
    [Floor, Door],
    [Wall, Floor, Exit, Door, Key],
    [Key, Telepod, Beacon, MovingObstacle, Floor],
    [Floor, Wall, Exit, Door, Key, MovingObstacle, Telepod, Beacon],
]
COLOR_SUBSETS = [
    [],
    [Color.RED],
    [Color.GREEN, Color.YELLOW],
    list(Color),
]
STATE_SHAPES = [Shape(2, 2), Shape(2, 5), Shape(4, 3), Shape(3, 7)]
OBSERVATION_SHAPES = [Shape(1, 1), Shape(1, 3), Shape(3, 1), Shape(2, 3), Shape(5, 3), Shape(3, 5)]


def main_spaces():
    rnd = random.Random(16)
    for types, colors in itt.product(TYPE_SUBSETS, COLOR_SUBSETS):
        grid_pool = [o for t in types for o in all_objects(t, colors)]
        item_pool = grid_pool + [NoneGridObject()]
        observation_pool = grid_pool + [Hidden()]

        for shape in STATE_SHAPES:
            space = StateSpace(shape, types, colors)
            members = state_scenarios(rnd, shape, grid_pool, item_pool)
            for name in NAMES:
                ref = Reference(name, types + [NoneGridObject], colors)
                representation = make_state_representation(name, space)
                if shape == STATE_SHAPES[0]:
                    check_object_encodings(
                        name,
                        ref,
                        representation.representations[
                            'grid'
                        ].grid_object_representation,
                        item_pool,
                    )
                check_members(
                    name,
                    'state',
                    space,
                    representation,
                    ref,
                    members,
                    with_orientation=True,
                )

        for shape in OBSERVATION_SHAPES:
            space = ObservationSpace(shape, types, colors)
            members = observation_scenarios(
                rnd, shape, observation_pool, item_pool
            )
            for name in NAMES:
                ref = Reference(name, types + [NoneGridObject, Hidden], colors)
                representation = make_observation_representation(name, space)
                if shape == OBSERVATION_SHAPES[0]:
                    check_object_encodings(
                        name,
                        ref,
                        representation.representations[
                            'grid'
                        ].grid_object_representation,
                        observation_pool + [NoneGridObject()],
                    )
                check_members(
                    name,
                    'observation',
                    space,
                    representation,
                    ref,
                    members,
                    with_orientation=False,
                )


# ----------------------------------------------------- environments in use


def main_environments():
    """states from reset functions, observations from observation functions"""
    types = [Floor, Wall, Exit, Door, Key]
    colors = [Color.YELLOW]
    for state_shape, observation_shape in [
        (Shape(5, 7), Shape(3, 5)),
        (Shape(8, 5), Shape(4, 3)),
        (Shape(6, 6), Shape(7, 7)),  # view larger than the grid
    ]:
        state_space = StateSpace(state_shape, types, colors)
        observation_space = ObservationSpace(observation_shape, types, colors)

        states, observations = [], []
        for seed in [0, 1, 0, 2, 1]:  # re-seeding repeats states
            state = reset_functions.keydoor(state_shape, rng=make_rng(seed))
            positions = agent_positions(state_shape.height, state_shape.width)
            for position, orientation in itt.product(positions, Orientation):
                moved = State(
                    state.grid, Agent(position, orientation, Key(Color.YELLOW))
                )
                states.append(moved)
                for function in [
                    observation_functions.fully_transparent,
                    observation_functions.partially_occluded,
                    observation_functions.raytracing,
                ]:
                    observations.append(
                        function(
                            moved, area=observation_space.area, rng=make_rng(3)
                        )
                    )
            states.append(state)

        rnd = random.Random(5)
        states = rnd.sample(states, 60)
        observations = rnd.sample(observations, 80)
        for name in NAMES:
            check_members(
                name,
                'state',
                state_space,
                make_state_representation(name, state_space),
                Reference(name, types + [NoneGridObject], colors),
                states,
                with_orientation=True,
            )
            check_members(
                name,
                'observation',
                observation_space,
                make_observation_representation(name, observation_space),
                Reference(name, types + [NoneGridObject, Hidden], colors),
                observations,
                with_orientation=False,
            )


def raises(exception_type, function):
    try:
        function()
    except exception_type:
        return True
    except Exception as error:  # pylint: disable=broad-except
        print('unexpected exception', type(error), error)
        return False
    return False



# ------------------------------------------------------- membership, pinned


def reference_state_contains(shape, types, colors, state):
    colors = set(colors) | {Color.NONE}
    rows = state.grid.objects
    if (len(rows), len(rows[0])) != (shape.height, shape.width):
        return False
    for row in rows:
        for obj in row:
            if not any(type(obj) is t for t in types):
                return False
            if not any(obj.color is c for c in colors):
                return False
    y, x = state.agent.position.y, state.agent.position.x
    if not (0 <= y <= shape.height - 1 and 0 <= x <= shape.width - 1):
        return False
    if not isinstance(state.agent.orientation, Orientation):
        return False
    item = state.agent.grid_object
    if not any(type(item) is t for t in list(types) + [NoneGridObject]):
        return False
    return any(item.color is c for c in colors)


def reference_observation_contains(shape, types, colors, observation):
    colors = set(colors) | {Color.NONE}
    rows = observation.grid.objects
    if (len(rows), len(rows[0])) != (shape.height, shape.width):
        return False
    for row in rows:
        for obj in row:
            if not any(type(obj) is t for t in list(types) + [Hidden]):
                return False
            if not any(obj.color is c for c in colors):
                return False
    y, x = observation.agent.position.y, observation.agent.position.x
    if not (0 <= y < shape.height and 0 <= x < shape.width):
        return False
    item = observation.agent.grid_object
    if not any(type(item) is t for t in list(types) + [NoneGridObject]):
        return False
    return any(item.color is c for c in colors)


def foreign_objects(types, colors):
    """objects which do not belong: wrong type, wrong colour, or both"""
    colors = set(colors) | {Color.NONE}
    all_types = [Floor, Wall, Exit, Door, Key, MovingObstacle, Telepod, Beacon]
    other_types = [t for t in all_types if t not in types]
    other_colors = [c for c in Color if c not in colors]
    out = []
    for t in other_types:
        out.extend(all_objects(t, colors)[:2])  # wrong type, fine colour
    for t in types:
        for c in other_colors[:2]:
            if t in (Exit, Key, Telepod, Beacon):
                out.append(t(c))  # fine type, wrong colour
            elif t is Door:
                out.append(Door(Door.Status.CLOSED, c))
    for t in other_types:
        for c in other_colors[:1]:
            if t in (Exit, Key, Telepod, Beacon):
                out.append(t(c))  # wrong type and wrong colour
    return out


def with_cell(grid, y, x, obj):
    variant = clone_grid(grid)
    variant.objects[y][x] = obj
    return variant


def cells_to_disturb(height, width):
    """first, last, corners, and a middle cell"""
    return sorted(
        {
            (0, 0),
            (0, width - 1),
            (height - 1, 0),
            (height - 1, width - 1),
            (height // 2, width // 2),
        }
    )


def state_candidates(rnd, shape, types, colors, grid_pool, item_pool):
    height, width = shape.height, shape.width
    inside = Position(height - 1, 0)
    candidates = state_scenarios(rnd, shape, grid_pool, item_pool)[:30]
    grid = random_grid(rnd, height, width, grid_pool)
    foreign = foreign_objects(types, colors)
    # a single offending cell, at awkward places
    for (y, x), obj in itt.product(cells_to_disturb(height, width), foreign):
        candidates.append(
            State(with_cell(grid, y, x, obj), Agent(inside, Orientation.B))
        )
    for obj in [Hidden(), NoneGridObject()]:  # never in a state grid
        candidates.append(
            State(with_cell(grid, 0, 0, obj), Agent(inside, Orientation.B))
        )
        candidates.append(
            State(
                with_cell(grid, height - 1, width - 1, obj),
                Agent(inside, Orientation.B),
            )
        )
    # two offending cells of different kinds, in both orders
    if len(foreign) >= 2:
        first, last = foreign[0], foreign[-1]
        for a, b in [(first, last), (last, first)]:
            variant = with_cell(grid, 0, 0, a)
            variant.objects[height - 1][width - 1] = b
            candidates.append(State(variant, Agent(inside, Orientation.B)))
    # every cell offending
    for obj in foreign[:3]:
        candidates.append(
            State(
                Grid([[obj for _ in range(width)] for _ in range(height)]),
                Agent(inside, Orientation.B),
            )
        )
    # wrong shapes (also with offending content, and with a far away agent)
    for h, w in [(width, height), (height + 1, width), (height, width - 1), (1, 1)]:
        other = random_grid(rnd, h, w, grid_pool)
        candidates.append(State(other, Agent(Position(0, 0), Orientation.F)))
        candidates.append(
            State(other, Agent(Position(h + 3, w + 3), Orientation.F))
        )
        if foreign:
            candidates.append(
                State(
                    with_cell(other, 0, 0, foreign[0]),
                    Agent(Position(0, 0), Orientation.F),
                )
            )
    # agent just outside, on each side; numpy integers as coordinates
    for y, x in [(-1, 0), (0, -1), (height, 0), (0, width), (height, width)]:
        candidates.append(State(grid, Agent(Position(y, x), Orientation.F)))
    candidates.append(
        State(grid, Agent(Position(np.int64(height - 1), np.int64(0)), Orientation.F))
    )
    candidates.append(
        State(grid, Agent(Position(np.int64(height), np.int64(0)), Orientation.F))
    )
    # items: foreign type, foreign colour, Hidden, and not-an-orientation
    for obj in foreign + [Hidden()]:
        candidates.append(State(grid, Agent(inside, Orientation.L, obj)))
    candidates.append(State(grid, Agent(inside, 0)))
    candidates.append(State(grid, Agent(inside, 'F')))
    return candidates


def observation_candidates(rnd, shape, types, colors, grid_pool, item_pool):
    height, width = shape.height, shape.width
    position = Position(height - 1, width // 2)
    candidates = observation_scenarios(rnd, shape, grid_pool, item_pool)[:30]
    grid = random_grid(rnd, height, width, grid_pool)
    foreign = foreign_objects(types, colors)
    for (y, x), obj in itt.product(
        cells_to_disturb(height, width), foreign + [NoneGridObject()]
    ):
        candidates.append(
            Observation(with_cell(grid, y, x, obj), Agent(position, Orientation.F))
        )
    for y, x in cells_to_disturb(height, width):  # Hidden is fine anywhere
        candidates.append(
            Observation(
                with_cell(grid, y, x, Hidden()), Agent(position, Orientation.F)
            )
        )
    for h, w in [(width, height), (height + 1, width), (height, width + 2), (1, 1)]:
        if (h, w) == (height, width):
            continue
        other = random_grid(rnd, h, w, grid_pool)
        candidates.append(
            Observation(other, Agent(Position(0, 0), Orientation.F))
        )
        candidates.append(
            Observation(other, Agent(Position(h - 1, w - 1), Orientation.F))
        )
    for y, x in [(-1, 0), (0, -1), (height, 0), (0, width), (height, width)]:
        candidates.append(
            Observation(grid, Agent(Position(y, x), Orientation.F))
        )
    for obj in foreign + [Hidden()]:
        candidates.append(
            Observation(grid, Agent(position, Orientation.F, obj))
        )
    return candidates


def main_membership():
    rnd = random.Random(61)
    counts = {True: 0, False: 0}
    for types, colors in itt.product(TYPE_SUBSETS, COLOR_SUBSETS):
        grid_pool = [o for t in types for o in all_objects(t, colors)]
        item_pool = grid_pool + [NoneGridObject()]
        observation_pool = grid_pool + [Hidden()]

        for shape in [Shape(2, 2), Shape(2, 5), Shape(4, 3)]:
            space = StateSpace(shape, types, colors)
            # two spaces over the same lists, and a space built from tuples
            twin = StateSpace(shape, tuple(types), tuple(colors))
            representations = [
                make_state_representation(name, space) for name in NAMES
            ]
            for state in state_candidates(
                rnd, shape, types, colors, grid_pool, item_pool
            ):
                expected = reference_state_contains(shape, types, colors, state)
                counts[expected] += 1
                result = space.contains(state)
                check(bool(result) is expected, 'state membership', state)
                check(bool(twin.contains(state)) is expected, 'twin space')
                check(bool(space.contains(state)) is expected, 'asked twice')
                if not isinstance(state.agent.position.y, np.integer):
                    check(result is expected, 'plain bool', result)
                for representation in representations:
                    if expected:
                        reset_gv_debug(True)
                        checked = representation.convert(state)
                        reset_gv_debug(False)
                        unchecked = representation.convert(state)
                        reset_gv_debug(True)
                        check(reps_equal(checked, unchecked), 'debug flag')
                    else:
                        check(
                            raises(
                                ValueError,
                                lambda: representation.convert(state),
                            ),
                            'convert accepts a non-member in debug mode',
                            state,
                        )

        for shape in [Shape(1, 1), Shape(1, 3), Shape(3, 1), Shape(2, 3), Shape(3, 5)]:
            space = ObservationSpace(shape, types, colors)
            representations = [
                make_observation_representation(name, space) for name in NAMES
            ]
            for observation in observation_candidates(
                rnd, shape, types, colors, observation_pool, item_pool
            ):
                expected = reference_observation_contains(
                    shape, types, colors, observation
                )
                counts[expected] += 1
                result = space.contains(observation)
                check(result is expected, 'observation membership', observation)
                check(space.contains(observation) is expected, 'asked twice')
                for representation in representations:
                    if expected:
                        reset_gv_debug(True)
                        checked = representation.convert(observation)
                        reset_gv_debug(False)
                        unchecked = representation.convert(observation)
                        reset_gv_debug(True)
                        check(reps_equal(checked, unchecked), 'debug flag')
                    else:
                        check(
                            raises(
                                ValueError,
                                lambda: representation.convert(observation),
                            ),
                            'convert accepts a non-member in debug mode',
                            observation,
                        )
    check(counts[True] > 1000 and counts[False] > 1000, 'coverage', counts)

    # the space follows later edits of its public list of types, as it always did
    space = StateSpace(Shape(2, 3), [Floor, Wall], [])
    state = State(
        Grid([[Floor(), Wall(), Key(Color.NONE)], [Floor(), Floor(), Floor()]]),
        Agent(Position(0, 0), Orientation.F),
    )
    check(space.contains(state) is False, 'Key not yet in the space')
    space.object_types.append(Key)
    check(space.contains(state) is True, 'Key appended to object_types')
    space.object_types.remove(Key)
    check(space.contains(state) is False, 'Key removed again')
    # an empty list of types contains nothing
    check(
        StateSpace(Shape(2, 3), [], list(Color)).contains(state) is False,
        'empty list of types',
    )


def main_new_type_registered_later():
    """types registered by another environment later do not disturb encodings"""
    types, colors = [Floor, Wall, Door, Key], [Color.RED, Color.BLUE]
    space = StateSpace(Shape(3, 4), types, colors)
    rnd = random.Random(1)
    pool = [o for t in types for o in all_objects(t, colors)]
    members = state_scenarios(rnd, Shape(3, 4), pool, pool + [NoneGridObject()])
    representations = {
        name: make_state_representation(name, space) for name in NAMES
    }
    before = {
        name: [representations[name].convert(m) for m in members]
        for name in NAMES
    }

    class DemoLateObject(GridObject):  # registers itself
        state_index = 0
        color = Color.NONE
        blocks_movement = False
        blocks_vision = False
        holdable = False

        @classmethod
        def can_be_represented_in_state(cls):
            return True

        @classmethod
        def num_states(cls):
            return 1

    check(DemoLateObject in grid_object_registry, 'registered')
    for name in NAMES:
        fresh = make_state_representation(name, space)
        for member, old in zip(members, before[name]):
            check(reps_equal(representations[name].convert(member), old), 'same instance')
            check(reps_equal(fresh.convert(member), old), 'fresh instance')

    # a space which includes the late type works too
    late_types = types + [DemoLateObject]
    late_space = StateSpace(Shape(3, 4), late_types, colors)
    late_pool = pool + [DemoLateObject()]
    late_members = state_scenarios(
        rnd, Shape(3, 4), late_pool, late_pool + [NoneGridObject()]
    )
    for name in NAMES:
        check_members(
            name,
            'state',
            late_space,
            make_state_representation(name, late_space),
            Reference(name, late_types + [NoneGridObject], colors),
            late_members,
            with_orientation=True,
        )



if __name__ == '__main__':
    main_membership()
    main_spaces()
    main_environments()
    main_new_type_registered_later()
    print(f'demo B: all {CHECKS} checks passed')
