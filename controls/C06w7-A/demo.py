"""Check program for the ray-counting refactor of the raytracing visibilities.

Run as:  cd /tmp/wt7-C06 && /venv/bin/python -W ignore _seed/A/demo.py

Everything is compared against an independent re-implementation (rays, ray
counts, flood fill, view extraction) contained in this file.  The program
must exit 0 both on the clean tree and with the commit applied.
"""
import itertools as itt
import math
import os
import random
import sys

sys.path.insert(0, os.getcwd())

import numpy as np

from gym_gridverse.action import Action
from gym_gridverse.agent import Agent
from gym_gridverse.envs import observation_functions as ofs
from gym_gridverse.envs import visibility_functions as vfs
from gym_gridverse.envs.yaml import factory as yfactory
from gym_gridverse.geometry import Area, Orientation, Position
from gym_gridverse.grid import Grid
from gym_gridverse.grid_object import (
    Color,
    Door,
    Exit,
    Floor,
    Hidden,
    Key,
    MovingObstacle,
    Wall,
)
from gym_gridverse.state import State

CHECKS = 0


def check(condition, *info):
    global CHECKS
    CHECKS += 1
    if not condition:
        raise AssertionError(info)


# --------------------------------------------------------------------------
# independent reference implementation
# --------------------------------------------------------------------------

_REF_RAYS = {}


def ref_ray(py, px, h, w, rad, step=0.01):
    dy = step * math.sin(rad)
    dx = step * math.cos(rad)
    cells, seen = [], set()
    i = 0
    while True:
        y, x = round(float(py) + i * dy), round(float(px) + i * dx)
        if not (0 <= y < h and 0 <= x < w):
            break
        if (y, x) not in seen:
            seen.add((y, x))
            cells.append((y, x))
        i += 1
    return cells


def ref_rays_fancy(py, px, h, w):
    key = (py, px, h, w)
    if key not in _REF_RAYS:
        ys = np.linspace(0, h, num=h + 1) - 0.5 - py
        xs = np.linspace(0, w, num=w + 1) - 0.5 - px
        yys, xxs = np.meshgrid(ys, xs)
        radians = np.sort(np.arctan2(yys, xxs), axis=None)
        _REF_RAYS[key] = [ref_ray(py, px, h, w, rad) for rad in radians]
    return _REF_RAYS[key]


def ref_counts(opaque, py, px):
    """the textbook form:  every ray is followed to its end"""
    h, w = opaque.shape
    num = np.zeros((h, w), dtype=int)
    den = np.zeros((h, w), dtype=int)
    for ray in ref_rays_fancy(py, px, h, w):
        light = True
        for y, x in ray:
            if light:
                num[y, x] += 1
            den[y, x] += 1
            if opaque[y, x]:
                light = False
    return num, den


def ref_raytracing(opaque, py, px, absolute=True, threshold=1):
    num, den = ref_counts(opaque, py, px)
    if absolute:
        return num >= threshold
    with np.errstate(all='ignore'):
        return (num / den) >= threshold


def ref_partially_occluded(opaque, py, px):
    h, w = opaque.shape
    result = np.zeros((h, w), dtype=bool)
    for sx in (-1, +1):
        marked = np.zeros((h, w), dtype=bool)
        stack = [(py, px)]
        while stack:
            y, x = stack.pop()
            if not (0 <= y < h and 0 <= x < w) or marked[y, x]:
                continue
            marked[y, x] = True
            if not opaque[y, x]:
                stack += [(y - 1, x), (y, x + sx), (y - 1, x + sx)]
        result |= marked
    return result


def ref_connected(visible, opaque, py, px):
    """every visible cell is the agent cell or touches (8-adjacency) a cell
    reached from the agent through visible transparent cells"""
    h, w = opaque.shape
    if not visible[py, px]:
        return False
    reached = np.zeros((h, w), dtype=bool)
    ok = np.zeros((h, w), dtype=bool)
    ok[py, px] = True
    stack = [(py, px)]
    while stack:
        y, x = stack.pop()
        if reached[y, x]:
            continue
        reached[y, x] = True
        for dy, dx in itt.product((-1, 0, 1), repeat=2):
            yy, xx = y + dy, x + dx
            if 0 <= yy < h and 0 <= xx < w:
                ok[yy, xx] = True
                if visible[yy, xx] and not opaque[yy, xx]:
                    stack.append((yy, xx))
    return bool(np.all(ok[visible]))


def rotate(orientation, y, x):
    if orientation is Orientation.F:
        return y, x
    if orientation is Orientation.B:
        return -y, -x
    if orientation is Orientation.R:
        return x, -y
    if orientation is Orientation.L:
        return -x, y
    raise AssertionError


def ref_view(state, area):
    """pov cell -> world coordinates (or None) and pov opacity"""
    h, w = area.height, area.width
    ay, ax = state.agent.position.y, state.agent.position.x
    world = {}
    opaque = np.ones((h, w), dtype=bool)
    for y in range(h):
        for x in range(w):
            ry, rx = rotate(state.agent.orientation, y + area.ymin, x + area.xmin)
            wy, wx = ay + ry, ax + rx
            if 0 <= wy < state.grid.shape.height and 0 <= wx < state.grid.shape.width:
                world[y, x] = (wy, wx)
                opaque[y, x] = bool(state.grid[wy, wx].blocks_vision)
            else:
                world[y, x] = None
    return world, opaque


# --------------------------------------------------------------------------
# helpers
# --------------------------------------------------------------------------

OPAQUE_FACTORIES = [
    Wall,
    lambda: Door(Door.Status.CLOSED, Color.RED),
    lambda: Door(Door.Status.LOCKED, Color.BLUE),
]
TRANSPARENT_FACTORIES = [
    Floor,
    Exit,
    lambda: Key(Color.GREEN),
    lambda: Door(Door.Status.OPEN, Color.YELLOW),
    MovingObstacle,
]


def make_grid(opaque, rnd):
    return Grid(
        [
            [
                rnd.choice(OPAQUE_FACTORIES if o else TRANSPARENT_FACTORIES)()
                for o in row
            ]
            for row in opaque
        ]
    )


def rng_state(rng):
    return repr(rng.bit_generator.state)


RECORDED = []  # (callable, expected result) replayed at the end of the program


def lib_raytracing(grid, pos, **kwargs):
    first = vfs.raytracing(grid, pos, **kwargs)
    check(first.dtype == bool and first.flags.writeable and first.flags.owndata)
    # results are fresh arrays:  scribbling over one must not affect the next
    keep = first.copy()
    first[...] = ~first
    second = vfs.raytracing(grid, pos, **kwargs)
    check(not np.shares_memory(first, second))
    check(np.array_equal(keep, second), 'second call differs', pos, kwargs)
    return second


def check_visibility_functions(opaque, rnd, thorough):
    h, w = opaque.shape
    grid = make_grid(opaque, rnd)
    grid_snapshot = [list(row) for row in grid.objects]

    for py, px in itt.product(range(h), range(w)):
        pos = Position(py, px)
        num, den = ref_counts(opaque, py, px)
        vis1 = ref_raytracing(opaque, py, px)

        # default parameters
        vis = lib_raytracing(grid, pos)
        check(vis.shape == (h, w))
        check(np.array_equal(vis, vis1), 'raytracing', opaque, pos)
        check(vis[py, px], 'agent cell hidden')
        check(ref_connected(vis, opaque, py, px), 'not connected', opaque, pos)

        if thorough:
            # absolute thresholds pin down the lit-ray counts exactly
            for threshold in list(range(-1, int(den.max()) + 2)) + [0.5, 2.5, np.float64(3)]:
                got = lib_raytracing(grid, pos, absolute_counts=True, threshold=threshold)
                check(np.array_equal(got, num >= threshold), 'abs', threshold)
            # relative thresholds pin down the ratios
            for threshold in [0, 0.0, 0.2, 0.25, 1 / 3, 0.5, 2 / 3, 0.75, 0.999, 1, 1.0, 1.5, -1.0]:
                got = lib_raytracing(grid, pos, absolute_counts=False, threshold=threshold)
                want = ref_raytracing(opaque, py, px, False, threshold)
                check(np.array_equal(got, want), 'rel', threshold, opaque, pos)

        # monotone:  opening a visible opaque cell hides nothing
        if thorough:
            for y, x in itt.product(range(h), range(w)):
                if vis1[y, x] and opaque[y, x]:
                    saved = grid[y, x]
                    grid[y, x] = Floor()
                    opened = vfs.raytracing(grid, pos)
                    grid[y, x] = saved
                    check(np.all(opened[vis1]), 'not monotone', opaque, pos, (y, x))

        # stochastic variant:  same draws, same result, within the bounds
        with np.errstate(all='ignore'):
            probs = np.nan_to_num(num / den)
        for seed in range(3 if thorough else 1):
            rng_lib = np.random.default_rng(seed)
            rng_ref = np.random.default_rng(seed)
            got = vfs.stochastic_raytracing(grid, pos, rng=rng_lib)
            want = rng_ref.random((h, w)) < probs
            check(got.shape == (h, w) and got.dtype == bool)
            check(np.array_equal(got, want), 'stochastic', opaque, pos, seed)
            check(rng_state(rng_lib) == rng_state(rng_ref), 'rng consumption')
            check(not np.any(got & ~vis1), 'shows what raytracing cannot show')
            check(np.all(got[(num == den) & (den > 0)]), 'hides a fully lit cell')
            check(got.flags.writeable and got.flags.owndata)

        # deterministic functions do not touch the rng
        rng = np.random.default_rng(7)
        before = rng_state(rng)
        vfs.raytracing(grid, pos, rng=rng)
        check(rng_state(rng) == before)

        # partially occluded (bottom row only)
        if py == h - 1:
            got = vfs.partially_occluded(grid, pos)
            want = ref_partially_occluded(opaque, py, px)
            check(np.array_equal(got, want), 'partially_occluded', opaque, pos)
            check(got[py, px])
            check(ref_connected(got, opaque, py, px))
        else:
            try:
                vfs.partially_occluded(grid, pos)
            except NotImplementedError:
                check(True)
            else:
                check(False, 'partially_occluded accepted', pos)

        RECORDED.append((grid, pos, vis1))

    # visibilities never modify the grid
    check(all(a is b for ra, rb in zip(grid.objects, grid_snapshot) for a, b in zip(ra, rb)))

    # out of grid viewpoints keep failing the same way (and are not cached)
    for bad in [Position(-1, 0), Position(0, -1), Position(h, 0), Position(0, w), Position(h, w)]:
        for _ in range(2):
            for function in (vfs.raytracing, vfs.stochastic_raytracing):
                try:
                    function(grid, bad)
                except ValueError as error:
                    check('is not inside area' in str(error))
                else:
                    check(False, 'accepted out of grid viewpoint', bad)


# --------------------------------------------------------------------------
# observation level
# --------------------------------------------------------------------------

AREAS = [
    Area((0, 0), (0, 0)),
    Area((-1, 0), (-1, 1)),
    Area((-2, 0), (-1, 1)),
    Area((-3, 0), (-2, 2)),
    Area((-2, 0), (0, 3)),
    Area((-1, 0), (-3, 0)),
    Area((-2, 1), (-1, 2)),
    Area((-1, 2), (-2, 1)),
    Area((0, 2), (0, 1)),
]

REPLACEMENTS = [
    Wall,
    Floor,
    lambda: Key(Color.RED),
    lambda: Door(Door.Status.OPEN, Color.GREEN),
    lambda: Door(Door.Status.CLOSED, Color.GREEN),
]


def expected_observation_grid(state, area, visible, world):
    rows = []
    for y in range(area.height):
        row = []
        for x in range(area.width):
            if visible[y, x] and world[y, x] is not None:
                row.append(state.grid[world[y, x]])
            else:
                row.append(Hidden())
        rows.append(row)
    return rows


def check_observation(state, area, name, function, rnd, interfere):
    world, opaque = ref_view(state, area)
    py, px = -area.ymin, -area.xmin

    if name == 'partially_occluded' and area.ymax != 0:
        try:
            function(state)
        except NotImplementedError:
            check(True)
        else:
            check(False, 'partially_occluded accepted', area)
        return

    if name == 'partially_occluded':
        visible = ref_partially_occluded(opaque, py, px)
    elif name == 'raytracing':
        visible = ref_raytracing(opaque, py, px)
    elif name == 'raytracing_half':
        visible = ref_raytracing(opaque, py, px, False, 0.5)
    else:
        raise AssertionError(name)

    observation = function(state)
    expected = expected_observation_grid(state, area, visible, world)
    check(observation.grid.shape.height == area.height)
    check(observation.grid.shape.width == area.width)
    for y in range(area.height):
        for x in range(area.width):
            got, want = observation.grid[y, x], expected[y][x]
            check(type(got) is type(want) and got == want, name, area, (y, x))
            if not isinstance(want, Hidden):
                # visible cells alias the objects of the state
                check(got is want, 'aliasing changed')
    check(observation.agent.position == Position(py, px))
    check(observation.agent.orientation is Orientation.F)
    check(observation.agent.grid_object is state.agent.grid_object)
    check(visible[py, px])

    # NOTE: with a relative threshold a cell can be hidden although some lit
    # ray crosses it, so non interference is only claimed for the defaults
    if not interfere or name == 'raytracing_half':
        return

    # non interference:  hidden and out of view cells carry no information
    shown = {
        world[y, x]
        for y in range(area.height)
        for x in range(area.width)
        if visible[y, x] and world[y, x] is not None
    }
    for wy in range(state.grid.shape.height):
        for wx in range(state.grid.shape.width):
            if (wy, wx) in shown:
                continue
            saved = state.grid[wy, wx]
            for factory in REPLACEMENTS:
                state.grid[wy, wx] = factory()
                other = function(state)
                check(other.grid == observation.grid, 'interference', name, area, (wy, wx))
                check(other.agent == observation.agent)
                check(
                    all(
                        type(other.grid[p]) is type(observation.grid[p])
                        for p in observation.grid.area.positions()
                    )
                )
            state.grid[wy, wx] = saved


def observation_functions_under_test():
    functions = {
        'partially_occluded': lambda area: ofs.factory('partially_occluded', area=area),
        'raytracing': lambda area: ofs.factory('raytracing', area=area),
        'raytracing_half': lambda area: ofs.factory(
            'from_visibility',
            area=area,
            visibility_function=vfs.factory(
                'raytracing', absolute_counts=False, threshold=0.5
            ),
        ),
    }
    return functions


def check_observations(rnd, shapes, patterns, interfere):
    functions = observation_functions_under_test()
    for (h, w) in shapes:
        for _ in range(patterns):
            density = rnd.choice([0.0, 0.2, 0.4, 0.7])
            opaque = np.array(
                [[rnd.random() < density for _ in range(w)] for _ in range(h)]
            )
            grid = make_grid(opaque, rnd)
            for ay, ax in itt.product(range(h), range(w)):
                for orientation in (Orientation.F, Orientation.R, Orientation.B, Orientation.L):
                    held = rnd.choice([None, Key(Color.BLUE)])
                    state = State(grid, Agent(Position(ay, ax), orientation, held))
                    for area in AREAS:
                        for name, make in functions.items():
                            check_observation(
                                state, area, name, make(area), rnd, interfere
                            )
                        # stochastic:  reproducible and bounded
                        world, opq = ref_view(state, area)
                        py, px = -area.ymin, -area.xmin
                        num, den = ref_counts(opq, py, px)
                        with np.errstate(all='ignore'):
                            probs = np.nan_to_num(num / den)
                        function = ofs.factory('stochastic_raytracing', area=area)
                        seed = rnd.randrange(1000)
                        rng_lib = np.random.default_rng(seed)
                        rng_ref = np.random.default_rng(seed)
                        observation = function(state, rng=rng_lib)
                        visible = rng_ref.random(probs.shape) < probs
                        check(rng_state(rng_lib) == rng_state(rng_ref))
                        expected = expected_observation_grid(state, area, visible, world)
                        for y in range(area.height):
                            for x in range(area.width):
                                got, want = observation.grid[y, x], expected[y][x]
                                check(type(got) is type(want) and got == want)


def check_yaml_factory():
    function = yfactory.factory_observation_function(
        {
            'name': 'from_visibility',
            'area': [[-3, 0], [-2, 2]],
            'visibility_function': {
                'name': 'raytracing',
                'absolute_counts': False,
                'threshold': 0.5,
            },
        }
    )
    rnd = random.Random(99)
    area = Area((-3, 0), (-2, 2))
    for h, w in [(4, 6), (5, 3)]:
        opaque = np.array([[rnd.random() < 0.3 for _ in range(w)] for _ in range(h)])
        grid = make_grid(opaque, rnd)
        for ay, ax in itt.product(range(h), range(w)):
            for orientation in Orientation:
                state = State(grid, Agent(Position(ay, ax), orientation))
                check_observation(state, area, 'raytracing_half', function, rnd, False)


def check_environment():
    """whole environments built twice in the same process, all actions, seeds"""
    data = {
        'state_space': {'objects': ['Wall', 'Floor', 'Exit', 'MovingObstacle'], 'colors': ['NONE']},
        'observation_space': {'objects': ['Wall', 'Floor', 'Exit', 'MovingObstacle'], 'colors': ['NONE']},
        'reset_function': {'name': 'dynamic_obstacles', 'shape': [6, 8], 'num_obstacles': 3, 'random_agent': True},
        'transition_functions': [{'name': 'move_agent'}, {'name': 'turn_agent'}, {'name': 'move_obstacles'}],
        'reward_functions': [{'name': 'living_reward', 'reward': -1.0}],
        'terminating_function': {'name': 'reach_exit'},
    }
    area = Area((-4, 0), (-2, 2))
    traces = []
    for name in ['raytracing', 'partially_occluded', 'stochastic_raytracing']:
        for instance in range(2):
            env_data = dict(data)
            env_data['observation_function'] = {'name': name, 'area': [[-4, 0], [-2, 2]]}
            env = yfactory.factory_env_from_data(env_data)
            trace = []
            for seed in range(4):
                env.set_seed(seed)
                rnd = random.Random(seed)
                env.reset()
                for _ in range(25):
                    state = env.state
                    observation = env.observation
                    world, opaque = ref_view(state, area)
                    py, px = -area.ymin, -area.xmin
                    if name == 'stochastic_raytracing':
                        bound = ref_raytracing(opaque, py, px)
                        num, den = ref_counts(opaque, py, px)
                        for y in range(area.height):
                            for x in range(area.width):
                                hidden = isinstance(observation.grid[y, x], Hidden)
                                if not bound[y, x]:
                                    check(hidden)
                                if num[y, x] == den[y, x] > 0 and world[y, x] is not None:
                                    check(not hidden)
                    else:
                        visible = (
                            ref_raytracing(opaque, py, px)
                            if name == 'raytracing'
                            else ref_partially_occluded(opaque, py, px)
                        )
                        expected = expected_observation_grid(state, area, visible, world)
                        for y in range(area.height):
                            for x in range(area.width):
                                got, want = observation.grid[y, x], expected[y][x]
                                check(type(got) is type(want) and got == want, name, seed)
                    trace.append(
                        tuple(
                            type(observation.grid[p]).__name__
                            for p in observation.grid.area.positions()
                        )
                    )
                    _, done = env.step(rnd.choice(list(Action)))
                    if done:
                        env.reset()
            traces.append((name, trace))
    # the second environment of each kind behaves like the first
    for (n1, t1), (n2, t2) in zip(traces[0::2], traces[1::2]):
        check(n1 == n2 and t1 == t2, 'second environment differs', n1)


def main():
    rnd = random.Random(20240607)

    # exhaustive opacity patterns of small (also degenerate) grids
    for h, w in [(1, 1), (1, 2), (2, 1), (1, 4), (3, 1), (2, 2), (2, 3), (3, 2), (3, 3), (2, 4)]:
        for bits in itt.product([False, True], repeat=h * w):
            check_visibility_functions(np.array(bits).reshape(h, w), rnd, thorough=True)

    # larger, mostly non-square grids with random patterns
    for h, w in [(3, 5), (5, 3), (4, 4), (4, 7), (7, 4), (6, 5), (1, 7), (7, 1), (5, 8)]:
        patterns = [np.zeros((h, w), dtype=bool), np.ones((h, w), dtype=bool)]
        for density in (0.1, 0.25, 0.5):
            for _ in range(3):
                patterns.append(
                    np.array([[rnd.random() < density for _ in range(w)] for _ in range(h)])
                )
        for index, opaque in enumerate(patterns):
            check_visibility_functions(opaque, rnd, thorough=index % 3 == 0)

    # observations:  small worlds with interference checks, larger ones without
    check_observations(rnd, [(2, 3), (3, 2), (3, 4)], patterns=2, interfere=True)
    check_observations(rnd, [(4, 6), (6, 3), (1, 5), (5, 5)], patterns=2, interfere=False)
    check_yaml_factory()
    check_environment()

    # replay in a different order:  cached data did not go stale
    rnd.shuffle(RECORDED)
    for grid, pos, want in RECORDED[:4000]:
        check(np.array_equal(vfs.raytracing(grid, pos), want), 'replay', pos)

    print(f'OK ({CHECKS} checks)')


if __name__ == '__main__':
    main()
