"""Demo for change B (Orientation.__mul__ / __rmul__: rotation table, corners).

Run from the worktree root:  /venv/bin/python _seed/B/demo.py

Checks the geometry operators against formulas hard-coded here, then property
C05 (observations are sound) and equality with a reference implementation
embedded here, on pristine and patched trees alike.
"""
import copy
import itertools as itt
import os
import sys

# run from the worktree root:  import the worktree's gym_gridverse
sys.path.insert(0, os.getcwd())

import numpy as np
import numpy.random as rnd

from gym_gridverse.agent import Agent
from gym_gridverse.envs import observation_functions as of
from gym_gridverse.envs.visibility_functions import visibility_function_registry
from gym_gridverse.geometry import (
    Area,
    Orientation,
    Position,
    Shape,
    Transform,
)
from gym_gridverse.grid import Grid
from gym_gridverse.grid_object import (
    Beacon,
    Box,
    Color,
    Door,
    Exit,
    Floor,
    Hidden,
    Key,
    MovingObstacle,
    NoneGridObject,
    Telepod,
    Wall,
)
from gym_gridverse.rng import reset_gv_rng
from gym_gridverse.state import State

NAMES = [
    'fully_transparent',
    'partially_occluded',
    'raytracing',
    'stochastic_raytracing',
]

checks = 0


def check(condition, message):
    global checks
    checks += 1
    if not condition:
        print('FAIL:', message)
        sys.exit(1)


# ---------------------------------------------------------------- reference


def ref_rotate(orientation, y, x):
    """view-relative offset (y, x) -> world-relative offset"""
    if orientation is Orientation.F:
        return y, x
    if orientation is Orientation.B:
        return -y, -x
    if orientation is Orientation.R:
        return x, -y
    if orientation is Orientation.L:
        return -x, y
    raise AssertionError


def ref_world_cell(state, area, py, px):
    """world coordinates of the observation cell (py, px)"""
    dy, dx = ref_rotate(state.agent.orientation, py + area.ymin, px + area.xmin)
    return state.agent.position.y + dy, state.agent.position.x + dx


def ref_in_grid(state, wy, wx):
    return 0 <= wy < state.grid.shape.height and 0 <= wx < state.grid.shape.width


def ref_observation(state, area, visibility_function, rng):
    """reference from_visibility: returns (cells, agent position)

    cells[py][px] is either the very world object or the string 'hidden'.
    """
    height, width = area.height, area.width
    pov = [
        [
            state.grid.objects[wy][wx]
            if ref_in_grid(state, wy, wx)
            else Hidden()
            for wy, wx in (
                ref_world_cell(state, area, py, px) for px in range(width)
            )
        ]
        for py in range(height)
    ]
    anchor = Position(-area.ymin, -area.xmin)
    visibility = visibility_function(Grid(pov), anchor, rng=rng)
    assert visibility.shape == (height, width)
    cells = [
        [
            pov[py][px]
            if visibility[py, px] and not isinstance(pov[py][px], Hidden)
            else 'hidden'
            for px in range(width)
        ]
        for py in range(height)
    ]
    return cells, anchor


# ------------------------------------------------------------------ checks


def check_sound(state, area, observation, label):
    height, width = area.height, area.width
    check(
        observation.grid.shape.as_tuple == (height, width),
        f'{label}: shape {observation.grid.shape} != {(height, width)}',
    )
    check(
        len(observation.grid.objects) == height
        and all(len(row) == width for row in observation.grid.objects),
        f'{label}: ragged observation grid',
    )
    check(
        observation.agent.position == Position(-area.ymin, -area.xmin),
        f'{label}: agent not at the anchor',
    )
    check(
        observation.agent.orientation is Orientation.F,
        f'{label}: agent not facing forward',
    )
    check(
        observation.agent.grid_object is state.agent.grid_object,
        f'{label}: held item changed',
    )
    for py in range(height):
        for px in range(width):
            cell = observation.grid[Position(py, px)]
            wy, wx = ref_world_cell(state, area, py, px)
            if ref_in_grid(state, wy, wx):
                check(
                    isinstance(cell, Hidden)
                    or cell is state.grid.objects[wy][wx],
                    f'{label}: cell {(py, px)} shows {cell!r}, '
                    f'world {(wy, wx)} has {state.grid.objects[wy][wx]!r}',
                )
            else:
                check(
                    isinstance(cell, Hidden),
                    f'{label}: out-of-grid cell {(py, px)} shows {cell!r}',
                )


def check_equal_reference(observation, cells, label):
    for py, row in enumerate(cells):
        for px, expected in enumerate(row):
            cell = observation.grid[Position(py, px)]
            if isinstance(expected, str):
                check(
                    isinstance(cell, Hidden),
                    f'{label}: cell {(py, px)} should be hidden, is {cell!r}',
                )
            else:
                check(
                    cell is expected,
                    f'{label}: cell {(py, px)} is {cell!r}, expected {expected!r}',
                )


def snapshot(state):
    return (
        [[id(obj) for obj in row] for row in state.grid.objects],
        state.agent.position,
        state.agent.orientation,
        id(state.agent.grid_object),
    )


def outcome(function, *args, **kwargs):
    try:
        return function(*args, **kwargs), None
    except (NotImplementedError, ValueError, IndexError) as error:
        return None, type(error)


def check_scenario(state, area, seed, label):
    before = snapshot(state)

    for name in NAMES:
        visibility_function = visibility_function_registry[name]
        expected, expected_error = outcome(
            ref_observation,
            state,
            area,
            visibility_function,
            rnd.default_rng(seed),
        )

        spellings = {
            'module': getattr(of, name),
            'registry': of.observation_function_registry[name],
            'factory': of.factory(name, area=area),
        }
        for spelling, function in spellings.items():
            tag = f'{label} {name} via {spelling}'
            kwargs = {} if spelling == 'factory' else {'area': area}
            observation, error = outcome(
                function, state, rng=rnd.default_rng(seed), **kwargs
            )
            check(
                error is expected_error,
                f'{tag}: raised {error}, reference raised {expected_error}',
            )
            if error is not None:
                continue

            check_sound(state, area, observation, tag)
            cells, anchor = expected
            check(observation.agent.position == anchor, f'{tag}: anchor')
            check_equal_reference(observation, cells, tag)

            if name == 'fully_transparent':
                # every in-grid cell of the view is shown
                for py in range(area.height):
                    for px in range(area.width):
                        wy, wx = ref_world_cell(state, area, py, px)
                        if ref_in_grid(state, wy, wx):
                            check(
                                observation.grid[Position(py, px)]
                                is state.grid.objects[wy][wx],
                                f'{tag}: in-grid cell {(py, px)} not shown',
                            )

            # the wrapper is `from_visibility` with the visibility function of
            # the same name, with the same rng stream
            direct = of.from_visibility(
                state,
                area=area,
                visibility_function=visibility_function,
                rng=rnd.default_rng(seed),
            )
            check(direct.grid == observation.grid, f'{tag}: != from_visibility')
            check(direct.agent == observation.agent, f'{tag}: agent differs')

            # repeated call, same seed:  same observation
            again = function(state, rng=rnd.default_rng(seed), **kwargs)
            check(again.grid == observation.grid, f'{tag}: not repeatable')

        # without explicit rng:  the library rng, re-seeded, gives the same
        # stream as an explicit generator with the same seed
        reset_gv_rng(seed)
        implicit, error = outcome(getattr(of, name), state, area=area)
        check(error is expected_error, f'{label} {name}: implicit rng error')
        if error is None:
            check_sound(state, area, implicit, f'{label} {name} implicit rng')
            check_equal_reference(
                implicit, expected[0], f'{label} {name} implicit rng'
            )

    check(snapshot(state) == before, f'{label}: state was modified')



# --------------------------------------------------------------- operators


def ref_rotate_area(orientation, area):
    """hard-coded rotation of an area, as ((ymin, ymax), (xmin, xmax))"""
    ymin, ymax, xmin, xmax = area.ymin, area.ymax, area.xmin, area.xmax
    if orientation is Orientation.F:
        return (ymin, ymax), (xmin, xmax)
    if orientation is Orientation.B:
        return (-ymax, -ymin), (-xmax, -xmin)
    if orientation is Orientation.R:
        return (xmin, xmax), (-ymax, -ymin)
    if orientation is Orientation.L:
        return (-xmax, -xmin), (ymin, ymax)
    raise AssertionError


REF_COMPOSE = {
    ('F', 'F'): 'F', ('F', 'R'): 'R', ('F', 'B'): 'B', ('F', 'L'): 'L',
    ('R', 'F'): 'R', ('R', 'R'): 'B', ('R', 'B'): 'L', ('R', 'L'): 'F',
    ('B', 'F'): 'B', ('B', 'R'): 'L', ('B', 'B'): 'F', ('B', 'L'): 'R',
    ('L', 'F'): 'L', ('L', 'R'): 'F', ('L', 'B'): 'R', ('L', 'L'): 'B',
}  # fmt: skip


def is_plain_area(area):
    return (
        type(area) is Area
        and type(area.ys) is tuple
        and type(area.xs) is tuple
        and all(type(v) is int for v in area.ys + area.xs)
    )


def check_operators():
    span = range(-4, 5)
    positions = [Position(y, x) for y in span for x in span]
    bounds = [(a, b) for a in range(-3, 4) for b in range(a, 4)]
    areas = [Area(ys, xs) for ys in bounds for xs in bounds]
    areas.append(Area((-1000000, 7), (3, 2**40)))  # extreme but legal

    for orientation in Orientation:
        # orientation * orientation
        for other in Orientation:
            expected = getattr(
                Orientation, REF_COMPOSE[orientation.name[0], other.name[0]]
            )
            check(orientation * other is expected, 'orientation product')
            check(orientation.__rmul__(other) is expected, 'orientation rmul')

        # orientation * position, on either side
        for position in positions:
            expected = Position(
                *ref_rotate(orientation, position.y, position.x)
            )
            for result in [
                orientation * position,
                position * orientation,
                orientation.__mul__(position),
                orientation.__rmul__(position),
            ]:
                check(
                    type(result) is Position
                    and result == expected
                    and hash(result) == hash(expected)
                    and type(result.y) is int
                    and type(result.x) is int,
                    f'{orientation} * {position} = {result}, not {expected}',
                )
            # the argument is not modified, the result is a new position
            check(orientation * position is not position, 'new position')

        # orientation * area, on either side
        for area in areas:
            ys, xs = ref_rotate_area(orientation, area)
            expected = Area(ys, xs)
            for result in [
                orientation * area,
                area * orientation,
                orientation.__rmul__(area),
            ]:
                check(
                    is_plain_area(result)
                    and result == expected
                    and (result.ys, result.xs) == (ys, xs)
                    and hash(result) == hash(expected),
                    f'{orientation} * {area} = {result}, not {expected}',
                )
            # an area is the set of its positions:  rotating it rotates them
            if area.height * area.width <= 12:
                rotated = {orientation * p for p in area.positions()}
                check(
                    rotated == set((orientation * area).positions()),
                    f'{orientation} * {area}: positions differ',
                )
            # inverse rotation
            check(-orientation * (orientation * area) == area, 'inverse')

        # foreign operands are refused, on either side
        for foreign in [3, 2.5, 'F', None, (0, 1), [Position(0, 0)], Shape(3, 2)]:
            check(
                orientation.__mul__(foreign) is NotImplemented,
                f'__mul__ accepted {foreign!r}',
            )
            check(
                orientation.__rmul__(foreign) is NotImplemented,
                f'__rmul__ accepted {foreign!r}',
            )
            for product in [
                lambda: orientation * foreign,
                lambda: foreign * orientation,
            ]:
                try:
                    product()
                except TypeError:
                    check(True, '')
                else:
                    check(False, f'product with {foreign!r} accepted')

    # transforms:  translation after rotation
    for orientation in Orientation:
        for origin in [Position(0, 0), Position(3, -2), Position(-7, 11)]:
            transform = Transform(origin, orientation)
            for position in positions[::7]:
                dy, dx = ref_rotate(orientation, position.y, position.x)
                expected = Position(origin.y + dy, origin.x + dx)
                check(transform * position == expected, 'transform * position')
                check(position * transform == expected, 'position * transform')
                check((-transform) * expected == position, '-transform')
            for area in areas[::5]:
                ys, xs = ref_rotate_area(orientation, area)
                expected = Area(
                    (origin.y + ys[0], origin.y + ys[1]),
                    (origin.x + xs[0], origin.x + xs[1]),
                )
                result = transform * area
                check(
                    is_plain_area(result) and result == expected,
                    f'{transform} * {area} = {result}, not {expected}',
                )
                check(area * transform == expected, 'area * transform')
                check((-transform) * result == area, '-transform * area')
            for other in Orientation:
                check(
                    transform * other is orientation * other,
                    'transform * orientation',
                )
                inner = Transform(Position(1, 2), other)
                dy, dx = ref_rotate(orientation, 1, 2)
                check(
                    transform * inner
                    == Transform(
                        Position(origin.y + dy, origin.x + dx),
                        orientation * other,
                    ),
                    'transform * transform',
                )

    # grids:  rotation on either side, consistent with rotating positions
    objects = [[Key(Color.NONE), Wall(), Floor()], [Floor(), Exit(), Wall()]]
    grid = Grid(objects)
    for orientation in Orientation:
        rotated = grid * orientation
        check((orientation * grid) == rotated, 'orientation * grid')
        check(
            orientation.__mul__(grid) is NotImplemented, 'grid is not rotated here'
        )
        # the view area whose rotation is the grid's own area
        inverse = {'F': 'F', 'B': 'B', 'L': 'R', 'R': 'L'}[orientation.name[0]]
        ys, xs = ref_rotate_area(getattr(Orientation, inverse), grid.area)
        check(
            ref_rotate_area(orientation, Area(ys, xs))
            == (grid.area.ys, grid.area.xs),
            'inverse rotation of the grid area',
        )
        check(
            rotated.shape.as_tuple == (ys[1] - ys[0] + 1, xs[1] - xs[0] + 1),
            'rotated grid shape',
        )
        # rotated[p] is grid[orientation * (p + view area's corner)]
        for position in rotated.area.positions():
            y, x = ref_rotate(
                orientation, position.y + ys[0], position.x + xs[0]
            )
            check(rotated[position] is objects[y][x], 'rotated grid content')

# --------------------------------------------------------------- scenarios

OBJECT_FACTORIES = [
    Floor,
    Floor,
    Floor,
    Wall,
    Wall,
    lambda: Exit(),
    lambda: Exit(Color.GREEN),
    lambda: Door(Door.Status.OPEN, Color.RED),
    lambda: Door(Door.Status.CLOSED, Color.NONE),
    lambda: Door(Door.Status.LOCKED, Color.YELLOW),
    lambda: Key(Color.NONE),
    lambda: Key(Color.BLUE),
    MovingObstacle,
    lambda: Box(Key(Color.RED)),
    lambda: Telepod(Color.NONE),
    lambda: Beacon(Color.GREEN),
    Hidden,  # a Hidden object in the world is also legal
]

HELD = [None, Key(Color.NONE), Key(Color.YELLOW), Box(Floor())]

AREAS = [
    Area((0, 0), (0, 0)),  # just the agent
    Area((-6, 0), (-3, 3)),  # default minigrid-like view
    Area((-2, 0), (-1, 1)),
    Area((-3, 0), (-4, 1)),  # asymmetric, agent on the last row
    Area((-1, 0), (0, 5)),  # agent in the bottom-left corner of the view
    Area((-2, 2), (-2, 2)),  # agent in the middle
    Area((-1, 3), (-2, 0)),  # asymmetric, sees more behind than ahead
    Area((0, 2), (0, 1)),  # agent in the top-left corner of the view
    Area((-4, 0), (0, 0)),  # a column
    Area((0, 0), (-5, 2)),  # a row
    Area((-9, 0), (-8, 8)),  # much larger than the grids
    Area((1, 2), (-1, 1)),  # does not contain the agent
    Area((-3, -1), (2, 3)),  # does not contain the agent
]


def random_grid(rng, height, width):
    return Grid(
        [
            [
                OBJECT_FACTORIES[rng.integers(len(OBJECT_FACTORIES))]()
                for _ in range(width)
            ]
            for _ in range(height)
        ]
    )


def main():
    check_operators()
    rng = rnd.default_rng(20260927)

    # ---- every position x heading on small grids of awkward shapes
    scenario = 0
    for (height, width) in [(1, 1), (1, 4), (5, 1), (2, 3), (4, 7), (6, 5)]:
        grid = random_grid(rng, height, width)
        positions = list(grid.area.positions())
        if len(positions) > 9:  # corners, borders and a few inner cells
            corners = [
                Position(0, 0),
                Position(0, width - 1),
                Position(height - 1, 0),
                Position(height - 1, width - 1),
            ]
            picks = rng.choice(len(positions), size=5, replace=False)
            positions = corners + [positions[i] for i in picks]

        for position, orientation in itt.product(positions, Orientation):
            areas = [AREAS[i] for i in rng.choice(len(AREAS), size=3)]
            for area in areas:
                held = HELD[rng.integers(len(HELD))]
                state = State(
                    grid, Agent(position, orientation, copy.deepcopy(held))
                )
                seed = int(rng.integers(1000))
                check_scenario(
                    state,
                    area,
                    seed,
                    f'[{scenario}] {height}x{width} {position} '
                    f'{orientation.name} {area}',
                )
                scenario += 1

    # ---- every area, every heading, agent in a corner of a non-square grid
    grid = random_grid(rng, 3, 6)
    for area, orientation in itt.product(AREAS, Orientation):
        for position in [Position(0, 0), Position(2, 5), Position(1, 3)]:
            state = State(grid, Agent(position, orientation, Key(Color.NONE)))
            check_scenario(
                state,
                area,
                7,
                f'[{scenario}] 3x6 {position} {orientation.name} {area}',
            )
            scenario += 1

    # ---- hard-coded expectation:  a wall hides what is behind it
    W, F, K = Wall(), Floor(), Key(Color.NONE)
    grid = Grid(
        [
            [K, Floor(), Floor()],
            [W, Wall(), Wall()],
            [Floor(), F, Floor()],
        ]
    )
    state = State(grid, Agent(Position(2, 1), Orientation.F))
    area = Area((-2, 0), (-1, 1))
    observation = of.fully_transparent(state, area=area)
    check(observation.grid[Position(0, 0)] is K, 'transparent shows the key')
    for name in ['partially_occluded', 'raytracing']:
        observation = getattr(of, name)(state, area=area)
        check(
            isinstance(observation.grid[Position(0, 0)], Hidden),
            f'{name}: key behind the wall is hidden',
        )
        check(observation.grid[Position(1, 0)] is W, f'{name}: wall is shown')
        check(observation.grid[Position(2, 1)] is F, f'{name}: own cell shown')

    # same state seen by an agent facing right from the left column
    state = State(grid, Agent(Position(2, 0), Orientation.R))
    observation = of.fully_transparent(state, area=Area((-2, 0), (-1, 1)))
    expected = [
        [Wall, Floor, Hidden],  # two cells ahead:  world x = 2
        [Wall, Floor, Hidden],  # one cell ahead:  world x = 1
        [Wall, Floor, Hidden],  # own column;  left is north, right is outside
    ]
    for py, px in itt.product(range(3), range(3)):
        check(
            type(observation.grid[Position(py, px)]) is expected[py][px],
            f'facing right: cell {(py, px)} is '
            f'{observation.grid[Position(py, px)]!r}',
        )
    check(observation.grid[Position(0, 0)] is grid[Position(1, 2)], 'R (0,0)')
    check(observation.grid[Position(2, 1)] is grid[Position(2, 0)], 'R (2,1)')
    check(observation.grid[Position(2, 0)] is W, 'R (2,0)')

    # ---- a wrong-shaped visibility mask is still refused, same message
    def bad_visibility(grid, position, *, rng=None):
        return np.ones((2, 2), dtype=bool)

    try:
        of.from_visibility(
            state, area=Area((-2, 0), (-1, 1)), visibility_function=bad_visibility
        )
    except ValueError as error:
        check(
            str(error)
            == 'incorrect visibility shape ((2, 2)), should be (3, 3)',
            f'unexpected message {error}',
        )
    else:
        check(False, 'wrong visibility shape accepted')

    # ---- custom visibility functions registered later still work, and the
    # built-in wrappers keep using the built-in visibility functions
    def checkerboard(grid, position, *, rng=None):
        ys, xs = np.indices((grid.shape.height, grid.shape.width))
        return (ys + xs) % 2 == 0

    if 'demo_checkerboard' not in visibility_function_registry:
        visibility_function_registry.register(
            checkerboard, name='demo_checkerboard'
        )
    grid = random_grid(rng, 4, 5)
    for orientation in Orientation:
        state = State(grid, Agent(Position(3, 4), orientation))
        area = Area((-2, 1), (-3, 1))
        observation = of.from_visibility(
            state,
            area=area,
            visibility_function=visibility_function_registry[
                'demo_checkerboard'
            ],
        )
        check_sound(state, area, observation, f'checkerboard {orientation.name}')
        cells, _ = ref_observation(state, area, checkerboard, None)
        check_equal_reference(
            observation, cells, f'checkerboard {orientation.name}'
        )
        check_scenario(state, area, 3, f'after registering {orientation.name}')

    # ---- factory keeps its validation
    for bad in [lambda: of.factory('fully_transparent'), lambda: of.factory('nope', area=area)]:
        try:
            bad()
        except ValueError:
            check(True, '')
        else:
            check(False, 'factory accepted bad arguments')

    # the held NoneGridObject default is reported as such
    state = State(grid, Agent(Position(0, 0), Orientation.B))
    observation = of.raytracing(state, area=Area((-1, 0), (-1, 1)))
    check(isinstance(observation.agent.grid_object, NoneGridObject), 'no item')

    print(f'OK: {scenario} scenarios, {checks} checks')


if __name__ == '__main__':
    main()
