"""Demo for change A (Orientation * Area through rotated corners).

Run from the worktree root:  /venv/bin/python _seed/A/demo.py

Exits 0 on the pristine tree and with the patch applied.  Checks

1. the geometry that the observation functions rely on (Orientation * Area,
   Transform * Area, Position + Area) against a reference written here with
   plain integers, on a sweep of (also degenerate, also far-away) areas;
2. property C07: for a broad set of states, all four quarter turns of the
   whole world, many view areas and every deterministic built-in observation
   function, the observation does not change; and it equals a reference
   observation computed in this file cell by cell.
"""
import itertools as itt
import os
import random
import sys

import numpy as np

# run from the worktree root:  make `import gym_gridverse` pick up the worktree
sys.path.insert(0, os.getcwd())

from gym_gridverse.agent import Agent
from gym_gridverse.envs.observation_functions import (
    fully_transparent,
    observation_function_registry,
    partially_occluded,
    raytracing,
    stochastic_raytracing,
)
from gym_gridverse.envs.visibility_functions import visibility_function_registry
from gym_gridverse.geometry import Area, Orientation, Position, Transform
from gym_gridverse.grid import Grid
from gym_gridverse.grid_object import (
    Beacon,
    Box,
    Color,
    Door,
    Exit,
    Floor,
    Hidden,
    Key,
    MovingObstacle,
    NoneGridObject,
    Telepod,
    Wall,
)
from gym_gridverse.state import State

CHECKS = 0


def check(condition, message):
    global CHECKS
    CHECKS += 1
    if not condition:
        print('FAIL:', message)
        sys.exit(1)


# ---------------------------------------------------------------------------
# reference geometry, plain integers
# ---------------------------------------------------------------------------

ORIENTATIONS = [Orientation.F, Orientation.R, Orientation.B, Orientation.L]
# quarter turns clockwise (as seen on screen, y pointing down)
CLOCKWISE = {
    Orientation.F: Orientation.R,
    Orientation.R: Orientation.B,
    Orientation.B: Orientation.L,
    Orientation.L: Orientation.F,
}


def ref_rotate_point(orientation, y, x):
    """agent-frame offset (y, x) -> world-frame offset, agent facing `orientation`"""
    if orientation is Orientation.F:
        return y, x
    if orientation is Orientation.B:
        return -y, -x
    if orientation is Orientation.R:
        return x, -y
    if orientation is Orientation.L:
        return -x, y
    raise AssertionError


def ref_rotate_area(orientation, ys, xs):
    points = [
        ref_rotate_point(orientation, y, x)
        for y in range(ys[0], ys[1] + 1)
        for x in range(xs[0], xs[1] + 1)
    ]
    pys, pxs = zip(*points)
    return (min(pys), max(pys)), (min(pxs), max(pxs))


def check_geometry():
    bounds = [-7, -3, -1, 0, 1, 2, 6]
    intervals = [(a, b) for a in bounds for b in bounds if a <= b]
    for ys, xs in itt.product(intervals, intervals):
        area = Area(ys, xs)
        for orientation in ORIENTATIONS:
            exp_ys, exp_xs = ref_rotate_area(orientation, ys, xs)

            rotated = orientation * area
            check(type(rotated) is Area, 'Orientation * Area is an Area')
            check(
                (rotated.ys, rotated.xs) == (exp_ys, exp_xs),
                f'{orientation} * {area} = {rotated}, expected {exp_ys} {exp_xs}',
            )
            check(
                all(type(v) is int for v in rotated.ys + rotated.xs),
                'integer bounds',
            )
            check(area * orientation == rotated, 'reflected operand')
            # a fresh, equal, hashable value;  operand untouched
            check((area.ys, area.xs) == (ys, xs), 'operand untouched')
            check(hash(rotated) == hash(Area(exp_ys, exp_xs)), 'hash')
            # shape swaps on odd quarter turns only
            odd = orientation in (Orientation.R, Orientation.L)
            check(
                (rotated.height, rotated.width)
                == ((area.width, area.height) if odd else (area.height, area.width)),
                'shape of the rotated area',
            )
            # group structure:  rotating back gives the original area
            check(-orientation * rotated == area, 'inverse rotation')
            for other in ORIENTATIONS:
                check(
                    other * (orientation * area) == (other * orientation) * area,
                    'composition of rotations',
                )

            # rigid-body transform of an area
            for py, px in [(0, 0), (3, -2), (-5, 4)]:
                transform = Transform(Position(py, px), orientation)
                moved = transform * area
                check(
                    (moved.ys, moved.xs)
                    == (
                        (py + exp_ys[0], py + exp_ys[1]),
                        (px + exp_xs[0], px + exp_xs[1]),
                    ),
                    f'{transform} * {area}',
                )
                check(area * transform == moved, 'reflected transform')

    # every position of an area lands inside the rotated area, and the
    # rotated area has no more cells than the original one
    for ys, xs in [((-2, 0), (-1, 3)), ((0, 0), (0, 0)), ((1, 4), (-6, -6))]:
        area = Area(ys, xs)
        for orientation in ORIENTATIONS:
            rotated = orientation * area
            images = {orientation * p for p in area.positions()}
            check(images == set(rotated.positions()), 'image of the positions')

    # things that are not geometric objects are still refused
    for bad in [1, 'F', None, (0, 0)]:
        try:
            Orientation.R * bad
        except TypeError:
            pass
        else:
            check(False, f'Orientation * {bad!r} must raise TypeError')
    # malformed areas are still refused at construction
    for ys, xs in [((1, 0), (0, 0)), ((0, 0), (3, 2))]:
        try:
            Area(ys, xs)
        except ValueError:
            pass
        else:
            check(False, 'decreasing interval must raise ValueError')


# ---------------------------------------------------------------------------
# worlds
# ---------------------------------------------------------------------------

COLORS = list(Color)


def make_object(spec):
    kind = spec[0]
    if kind == 'floor':
        return Floor()
    if kind == 'wall':
        return Wall()
    if kind == 'exit':
        return Exit(spec[1])
    if kind == 'door':
        return Door(spec[1], spec[2])
    if kind == 'key':
        return Key(spec[1])
    if kind == 'obstacle':
        return MovingObstacle()
    if kind == 'box':
        return Box(make_object(spec[1]))
    if kind == 'telepod':
        return Telepod(spec[1])
    if kind == 'beacon':
        return Beacon(spec[1])
    if kind == 'hidden':
        return Hidden()
    if kind == 'none':
        return NoneGridObject()
    raise AssertionError(kind)


def random_spec(rnd):
    r = rnd.random()
    if r < 0.40:
        return ('floor',)
    if r < 0.62:
        return ('wall',)
    kind = rnd.choice(
        ['exit', 'door', 'key', 'obstacle', 'box', 'telepod', 'beacon', 'hidden']
    )
    if kind in ('exit', 'key', 'telepod', 'beacon'):
        return (kind, rnd.choice(COLORS))
    if kind == 'door':
        return (kind, rnd.choice(list(Door.Status)), rnd.choice(COLORS))
    if kind == 'box':
        return (kind, rnd.choice([('floor',), ('key', Color.NONE), ('wall',)]))
    return (kind,)


def rotate_world_clockwise(specs, agent):
    """one quarter turn of the whole world, on plain data

    specs: list of rows of object specs;  agent: (y, x, orientation, held)
    cell (y, x) of an H x W world moves to (x, H - 1 - y) of a W x H world.
    """
    height, width = len(specs), len(specs[0])
    rotated = [[None] * height for _ in range(width)]
    for y in range(height):
        for x in range(width):
            rotated[x][height - 1 - y] = specs[y][x]
    y, x, orientation, held = agent
    return rotated, (x, height - 1 - y, CLOCKWISE[orientation], held)


def build_state(specs, agent):
    grid = Grid([[make_object(spec) for spec in row] for row in specs])
    y, x, orientation, held = agent
    return State(
        grid,
        Agent(
            Position(y, x),
            orientation,
            None if held is None else make_object(held),
        ),
    )


def signature_object(obj):
    return (type(obj).__name__, obj.state_index, obj.color)


def signature(observation):
    grid = observation.grid
    cells = tuple(
        tuple(
            signature_object(grid[y, x]) for x in range(grid.shape.width)
        )
        for y in range(grid.shape.height)
    )
    agent = observation.agent
    return (
        cells,
        agent.position.yx,
        agent.orientation,
        signature_object(agent.grid_object),
    )


def reference_view(specs, agent, area_ys, area_xs):
    """egocentric view, cell by cell, nothing hidden but the outside"""
    height, width = len(specs), len(specs[0])
    ay, ax, orientation, _ = agent
    rows = []
    for ry in range(area_ys[0], area_ys[1] + 1):
        row = []
        for rx in range(area_xs[0], area_xs[1] + 1):
            dy, dx = ref_rotate_point(orientation, ry, rx)
            wy, wx = ay + dy, ax + dx
            inside = 0 <= wy < height and 0 <= wx < width
            row.append(make_object(specs[wy][wx]) if inside else Hidden())
        rows.append(row)
    return rows


def outcome(function, state, area, **kwargs):
    try:
        return 'ok', function(state, area=area, **kwargs)
    except (ValueError, NotImplementedError, IndexError) as error:
        return type(error).__name__, None


AREAS = [
    # (ys, xs), agent frame:  the usual ones
    ((-6, 0), (-3, 3)),
    ((-2, 0), (-1, 1)),
    # asymmetric, agent on the bottom row
    ((-3, 0), (-1, 2)),
    ((-1, 0), (-4, 0)),
    ((-4, 0), (0, 0)),
    # a single cell
    ((0, 0), (0, 0)),
    # agent strictly inside / behind included
    ((-2, 1), (-2, 1)),
    ((-1, 3), (-1, 0)),
    # area which does not contain the agent at all
    ((-4, -2), (1, 3)),
    ((2, 3), (-5, -4)),
]

FUNCTIONS = [
    ('fully_transparent', fully_transparent, 'fully_transparent'),
    ('partially_occluded', partially_occluded, 'partially_occluded'),
    ('raytracing', raytracing, 'raytracing'),
]


def check_world(specs, agent):
    # the four rotated copies of the world
    worlds = [(specs, agent)]
    for _ in range(3):
        worlds.append(rotate_world_clockwise(*worlds[-1]))
    # a fourth quarter turn is the identity
    again = rotate_world_clockwise(*worlds[-1])
    check(again == worlds[0], 'four quarter turns')

    for area_ys, area_xs in AREAS:
        area = Area(area_ys, area_xs)
        for name, function, visibility_name in FUNCTIONS:
            results = []
            for w_specs, w_agent in worlds:
                state = build_state(w_specs, w_agent)
                before = signature_grid(state.grid)
                kind, observation = outcome(function, state, area)
                # repeated call, same result;  state untouched
                kind2, observation2 = outcome(function, state, area)
                check(kind == kind2, 'repeatable outcome')
                check(signature_grid(state.grid) == before, 'state untouched')
                check(
                    state.agent.position.yx == (w_agent[0], w_agent[1])
                    and state.agent.orientation is w_agent[2],
                    'agent untouched',
                )
                if kind == 'ok':
                    check(observation == observation2, 'repeatable observation')
                    check(
                        signature(observation) == signature(observation2),
                        'repeatable signature',
                    )
                results.append((kind, observation, w_specs, w_agent))

            kinds = {kind for kind, *_ in results}
            check(
                len(kinds) == 1,
                f'{name} {area}: outcomes differ across rotations: {kinds}',
            )
            if kinds != {'ok'}:
                continue

            first = results[0][1]
            for kind, observation, w_specs, w_agent in results:
                # C07 proper
                check(
                    observation == first and first == observation,
                    f'{name} {area} agent={w_agent[:3]}: observation changed',
                )
                check(
                    signature(observation) == signature(first),
                    f'{name} {area} agent={w_agent[:3]}: signature changed',
                )
                check(hash(observation.grid) == hash(first.grid), 'hash')

                # reference, computed here
                view = Grid(reference_view(w_specs, w_agent, area_ys, area_xs))
                pov = Position(-area_ys[0], -area_xs[0])
                visibility = visibility_function_registry[visibility_name](
                    view, pov
                )
                for y in range(area.height):
                    for x in range(area.width):
                        if not visibility[y, x]:
                            view[y, x] = Hidden()
                check(
                    (observation.grid.shape.height, observation.grid.shape.width)
                    == (area.height, area.width),
                    'shape of the observation',
                )
                check(observation.grid == view, f'{name} {area}: reference grid')
                check(
                    signature(observation)[0]
                    == tuple(
                        tuple(signature_object(o) for o in row)
                        for row in view.objects
                    ),
                    f'{name} {area}: reference signature',
                )
                check(observation.agent.position == pov, 'pov position')
                check(observation.agent.orientation is Orientation.F, 'pov F')

        # seeded stochastic function: same stream, same observation
        sigs = set()
        kinds = set()
        for w_specs, w_agent in worlds:
            state = build_state(w_specs, w_agent)
            kind, observation = outcome(
                stochastic_raytracing,
                state,
                area,
                rng=np.random.default_rng(1234),
            )
            kinds.add(kind)
            if kind == 'ok':
                sigs.add(signature(observation))
        check(len(kinds) == 1 and len(sigs) <= 1, 'seeded stochastic raytracing')


def signature_grid(grid):
    return tuple(
        tuple(signature_object(obj) for obj in row) for row in grid.objects
    )


def main():
    check(
        {'fully_transparent', 'partially_occluded', 'raytracing'}
        <= set(observation_function_registry.keys()),
        'built-in observation functions registered',
    )

    check_geometry()

    rnd = random.Random(20240607)
    shapes = [(1, 1), (1, 5), (4, 1), (2, 3), (5, 4), (3, 7)]
    n_worlds = 0
    for height, width in shapes:
        # corners, borders, inside
        spots = {
            (0, 0),
            (0, width - 1),
            (height - 1, 0),
            (height - 1, width - 1),
            (height // 2, width // 2),
            (0, width // 2),
            (height // 2, 0),
        }
        specs = [
            [random_spec(rnd) for _ in range(width)] for _ in range(height)
        ]
        for (y, x), orientation in itt.product(sorted(spots), ORIENTATIONS):
            held = rnd.choice([None, ('key', Color.NONE), ('key', Color.BLUE)])
            check_world(specs, (y, x, orientation, held))
            n_worlds += 1

    # an all-floor and an all-wall world
    for spec in [('floor',), ('wall',)]:
        specs = [[spec] * 3 for _ in range(2)]
        for orientation in ORIENTATIONS:
            check_world(specs, (1, 2, orientation, None))
            n_worlds += 1

    print(f'ok: {n_worlds} worlds x 4 rotations, {CHECKS} checks')


if __name__ == '__main__':
    main()
