"""Demo for change A (no-overlap channel offsets computed once).

Run from the worktree root:  /venv/bin/python _seed/A/demo.py

Exits 0 both on the pristine tree and with the patch applied.  It checks
property C15 (every converted array lies, key by key, inside the declared
space: shape, dtype, bounds; also through gym Box spaces when gym is
importable) and the equality of every array / space with a reference
implementation embedded below, which is written from scratch (closed
formulas, no code shared with the library).
"""
import inspect
import itertools
import os
import random
import sys
from functools import partial

import numpy as np

# the script lives in <worktree>/_seed/<X>/;  import the worktree's package
sys.path.insert(
    0, os.path.dirname(os.path.dirname(os.path.dirname(os.path.abspath(__file__))))
)

from gym_gridverse.action import Action
from gym_gridverse.agent import Agent
from gym_gridverse.envs import reset_functions as reset_fs
from gym_gridverse.envs import transition_functions as transition_fs
from gym_gridverse.envs.gridworld import GridWorld
from gym_gridverse.envs.observation_functions import (
    observation_function_registry,
)
from gym_gridverse.geometry import Orientation, Position, Shape
from gym_gridverse.grid import Grid
from gym_gridverse.grid_object import (
    Beacon,
    Box,
    Color,
    Door,
    Exit,
    Floor,
    Hidden,
    Key,
    MovingObstacle,
    NoneGridObject,
    Telepod,
    Wall,
)
from gym_gridverse.observation import Observation
from gym_gridverse.outer_env import OuterEnv
from gym_gridverse.representations import representation as representation_m
from gym_gridverse.representations.observation_representations import (
    make_observation_representation,
)
from gym_gridverse.representations.spaces import SpaceType
from gym_gridverse.representations.state_representations import (
    make_state_representation,
)
from gym_gridverse.spaces import ActionSpace, ObservationSpace, StateSpace
from gym_gridverse.state import State

NAMES = ['default', 'no-overlap', 'compact']
USER_TYPES = [Floor, Wall, Exit, Door, Key, MovingObstacle, Box, Telepod, Beacon]
REAL_COLORS = [Color.RED, Color.GREEN, Color.BLUE, Color.YELLOW]
INT = np.dtype(int)

checks = 0


def check(condition, *message):
    global checks
    checks += 1
    if not condition:
        print('FAILED:', *message)
        sys.exit(1)


# --------------------------------------------------------------------------
# reference implementation (closed formulas)
# --------------------------------------------------------------------------


def ref_types(kind, object_types):
    extra = {NoneGridObject} if kind == 'state' else {NoneGridObject, Hidden}
    return set(object_types) | extra


def ref_colors(colors):
    return set(colors) | {Color.NONE}


def ref_item_upper(name, types, colors):
    T = max(t.type_index() for t in types)
    S = max(t.num_states() for t in types)  # sic: num-states, not num-states - 1
    C = max(c.value for c in colors)
    if name == 'default':
        return [T, S, C]
    if name == 'no-overlap':
        return [T, T + S + 1, T + S + C + 2]
    n_types = len(types)
    n_states = sum(t.num_states() for t in types)
    n_colors = len(colors)
    return [
        n_types - 1,
        n_types + n_states - 1,
        n_types + n_states + n_colors - 1,
    ]


def ref_item_convert(name, types, colors, obj):
    ti, si, ci = obj.type_index(), obj.state_index, obj.color.value
    if name == 'default':
        return [ti, si, ci]
    T = max(t.type_index() for t in types)
    S = max(t.num_states() for t in types)
    if name == 'no-overlap':
        return [ti, T + 1 + si, T + S + 2 + ci]
    n_types = len(types)
    n_states = sum(t.num_states() for t in types)
    type_rank = sum(1 for t in types if t.type_index() < ti)
    states_before = sum(
        t.num_states() for t in types if t.type_index() < ti
    )
    color_rank = sum(1 for c in colors if c.value < ci)
    return [
        type_rank,
        n_types + states_before + si,
        n_types + n_states + color_rank,
    ]


def ref_grid(name, types, colors, grid):
    out = np.empty((grid.shape.height, grid.shape.width, 3), dtype=int)
    for y in range(grid.shape.height):
        for x in range(grid.shape.width):
            out[y, x, :] = ref_item_convert(name, types, colors, grid[y, x])
    return out


def ref_agent_id_grid(grid, agent):
    out = np.zeros((grid.shape.height, grid.shape.width), dtype=int)
    out[agent.position.y, agent.position.x] = 1
    return out


def ref_agent(grid, agent):
    h, w = grid.shape.height, grid.shape.width
    out = [0.0] * 6
    out[0] = (2 * agent.position.y - h + 1) / (h - 1)
    out[1] = (2 * agent.position.x - w + 1) / (w - 1)
    out[2 + agent.orientation.value] = 1.0
    return np.array(out)


# --------------------------------------------------------------------------
# gym layer (optional)
# --------------------------------------------------------------------------

try:
    import gym  # noqa

    def local_to_gym_space(space):
        # same spelling as gym_gridverse.gym.outer_space_to_gym_space, used
        # when that module cannot be imported (it pulls in the yaml factory)
        return gym.spaces.Dict(
            {
                k: gym.spaces.Box(
                    low=v.lower_bound,
                    high=v.upper_bound,
                    dtype=float
                    if v.space_type is SpaceType.CONTINUOUS
                    else int,
                )
                for k, v in space.items()
            }
        )

    try:
        from gym_gridverse.gym import (
            outer_space_to_gym_space as to_gym_space,
        )
    except Exception:  # pragma: no cover
        to_gym_space = local_to_gym_space

except Exception:  # pragma: no cover
    gym = None
    to_gym_space = None


# --------------------------------------------------------------------------
# generic checks
# --------------------------------------------------------------------------


def check_in_space(space, array, where):
    """the C15 property, for one key"""
    check(isinstance(array, np.ndarray), where, 'not an array')
    check(array.shape == space.shape, where, 'shape', array.shape, space.shape)
    check(
        array.shape == space.lower_bound.shape == space.upper_bound.shape,
        where,
        'bound shapes',
    )
    if space.space_type is SpaceType.CONTINUOUS:
        check(np.issubdtype(array.dtype, np.floating), where, array.dtype)
    else:
        check(array.dtype == INT, where, 'dtype', array.dtype)
        check(space.lower_bound.dtype == INT, where, 'lower dtype')
        check(space.upper_bound.dtype == INT, where, 'upper dtype')
    check(bool(np.all(space.lower_bound <= array)), where, 'lower bound')
    check(bool(np.all(array <= space.upper_bound)), where, 'upper bound')
    check(space.contains(array), where, 'Space.contains')


def check_item_space(name, types, colors, space, where):
    upper = ref_item_upper(name, types, colors)
    check(space.space_type is SpaceType.CATEGORICAL, where, 'space type')
    check(space.lower_bound.dtype == INT and space.upper_bound.dtype == INT, where)
    check(space.lower_bound.tolist() == [0, 0, 0], where, 'lower')
    check(
        space.upper_bound.tolist() == upper,
        where,
        'upper',
        space.upper_bound.tolist(),
        upper,
    )


def check_dict(kind, name, rep, space_obj, thing, where):
    """converts a state / observation and checks everything about it"""
    types = ref_types(kind, space_obj.object_types)
    colors = ref_colors(space_obj.colors)
    h, w = space_obj.grid_shape.height, space_obj.grid_shape.width

    space = rep.space
    arrays = rep.convert(thing)
    keys = {'grid', 'agent_id_grid', 'item'} | (
        {'agent'} if kind == 'state' else set()
    )
    check(set(space) == keys and set(arrays) == keys, where, 'keys')

    for key in keys:
        check_in_space(space[key], arrays[key], (where, key))

    # spaces
    check_item_space(name, types, colors, space['item'], (where, 'item space'))
    upper = ref_item_upper(name, types, colors)
    check(space['grid'].shape == (h, w, 3), where, 'grid space shape')
    check(
        np.array_equal(space['grid'].upper_bound, np.tile(upper, (h, w, 1)))
        and not space['grid'].lower_bound.any(),
        where,
        'grid space bounds',
    )
    check(space['grid'].space_type is SpaceType.CATEGORICAL, where)
    check(space['agent_id_grid'].space_type is SpaceType.DISCRETE, where)
    check(
        np.array_equal(space['agent_id_grid'].upper_bound, np.ones((h, w), int))
        and np.array_equal(
            space['agent_id_grid'].lower_bound, np.zeros((h, w), int)
        ),
        where,
        'agent_id_grid space',
    )
    if kind == 'state':
        check(space['agent'].space_type is SpaceType.CONTINUOUS, where)
        check(
            space['agent'].lower_bound.tolist() == [-1, -1, 0, 0, 0, 0]
            and space['agent'].upper_bound.tolist() == [1] * 6,
            where,
            'agent space',
        )

    # values
    expected = ref_grid(name, types, colors, thing.grid)
    check(np.array_equal(arrays['grid'], expected), where, 'grid values')
    check(
        arrays['item'].tolist()
        == ref_item_convert(name, types, colors, thing.agent.grid_object),
        where,
        'item values',
    )
    check(
        np.array_equal(
            arrays['agent_id_grid'], ref_agent_id_grid(thing.grid, thing.agent)
        ),
        where,
        'agent_id_grid values',
    )
    if kind == 'state':
        expected_agent = ref_agent(thing.grid, thing.agent)
        check(
            arrays['agent'].dtype == np.float64
            and np.array_equal(arrays['agent'], expected_agent),
            where,
            'agent values',
        )

    # repeated calls give equal, fresh arrays
    again = rep.convert(thing)
    for key in keys:
        check(np.array_equal(arrays[key], again[key]), where, key, 'repeat')
        check(arrays[key] is not again[key], where, key, 'aliasing')
        check(arrays[key].dtype == again[key].dtype, where, key, 'repeat dtype')

    # gym layer
    if to_gym_space is not None:
        gym_space = to_gym_space(space)
        for key in keys:
            box = gym_space.spaces[key]
            check(box.shape == arrays[key].shape, where, key, 'gym shape')
            check(box.dtype == arrays[key].dtype, where, key, 'gym dtype')
            check(box.contains(arrays[key]), where, key, 'gym contains')
        check(gym_space.contains(arrays), where, 'gym dict contains')

    return arrays


def member_objects(types, colors):
    """every grid-object of the given types / colors (every status)"""
    colors = sorted(colors, key=lambda c: c.value)
    objects = []
    for t in sorted(types, key=lambda t: t.type_index()):
        if t in (NoneGridObject, Hidden, Floor, Wall, MovingObstacle):
            objects.append(t())
        elif t is Exit:
            objects.extend(Exit(c) for c in colors)
        elif t is Door:
            objects.extend(Door(s, c) for s in Door.Status for c in colors)
        elif t in (Key, Telepod, Beacon):
            objects.extend(t(c) for c in colors)
        elif t is Box:
            objects.append(Box(Floor()))
            objects.append(Box(Key(colors[-1])))
        else:
            raise AssertionError(t)
    return objects


def make_rep(kind, name, space_obj):
    if kind == 'state':
        return make_state_representation(name, space_obj)
    return make_observation_representation(name, space_obj)


# --------------------------------------------------------------------------
# 1. grid-object level: all subsets of types, colour subsets
# --------------------------------------------------------------------------


def subsets(items):
    for n in range(len(items) + 1):
        yield from itertools.combinations(items, n)


def section_grid_objects():
    color_subsets_few = [(), (Color.RED, Color.YELLOW), tuple(REAL_COLORS)]
    type_subsets_few = [
        (),
        (Floor,),
        (Door, Key),
        (Floor, Wall, Exit, Door, Key),
        tuple(USER_TYPES),
    ]
    combos = [
        (ts, cs) for ts in subsets(USER_TYPES) for cs in color_subsets_few
    ] + [(ts, cs) for ts in type_subsets_few for cs in subsets(REAL_COLORS)]

    for object_types, colors in combos:
        # NOTE: also exercise lists given in a scrambled order
        object_types = list(reversed(object_types))
        for kind in ['state', 'observation']:
            for name in NAMES:
                where = (kind, name, object_types, colors)
                if kind == 'state':
                    space_obj = StateSpace(Shape(3, 4), object_types, colors)
                else:
                    space_obj = ObservationSpace(
                        Shape(3, 5), object_types, colors
                    )

                if kind == 'state' and Box in object_types:
                    # documented: cannot be represented in state
                    try:
                        make_rep(kind, name, space_obj)
                    except ValueError:
                        check(True)
                    else:
                        check(False, where, 'expected ValueError')
                    continue

                if kind == 'state' and not object_types and name == 'compact':
                    # pre-existing behaviour: no grid-object types at all
                    try:
                        make_rep(kind, name, space_obj)
                    except ValueError:
                        check(True)
                    else:
                        check(False, where, 'expected ValueError')
                    continue

                rep = make_rep(kind, name, space_obj)
                types = ref_types(kind, object_types)
                cols = ref_colors(colors)
                item_rep = rep.representations['item']
                grid_object_rep = item_rep.grid_object_representation
                item_space = item_rep.space
                check_item_space(name, types, cols, item_space, where)
                seen = set()
                for obj in member_objects(types, cols):
                    array = grid_object_rep.convert(obj)
                    check_in_space(item_space, array, (where, obj))
                    expected = ref_item_convert(name, types, cols, obj)
                    check(array.tolist() == expected, where, obj, array, expected)
                    seen.add(tuple(array.tolist()))
                # conversions are injective on (type, status, color)
                distinct = {
                    (o.type_index(), o.state_index, o.color)
                    for o in member_objects(types, cols)
                }
                check(len(seen) == len(distinct), where, 'injective')


# --------------------------------------------------------------------------
# 2. whole states / observations, awkward shapes and poses
# --------------------------------------------------------------------------


def random_grid(rnd, shape, objects):
    return Grid(
        [
            [rnd.choice(objects) for _ in range(shape.width)]
            for _ in range(shape.height)
        ]
    )


def section_states_and_observations():
    rnd = random.Random(20260926)
    settings = [
        ([Floor, Wall], []),
        ([Floor, Wall, Exit, Door, Key], [Color.YELLOW]),
        ([Key, Door], [Color.BLUE, Color.RED]),
        ([Floor, Wall, Exit, Door, Key, MovingObstacle, Telepod, Beacon], REAL_COLORS),
    ]
    state_shapes = [Shape(2, 2), Shape(2, 5), Shape(5, 2), Shape(3, 4), Shape(6, 3)]
    view_shapes = [Shape(2, 3), Shape(2, 1), Shape(3, 1), Shape(4, 5), Shape(2, 7), Shape(5, 3), Shape(7, 7)]

    for object_types, colors in settings:
        cols = ref_colors(colors)
        held_items = member_objects({NoneGridObject} | set(object_types), cols)

        for shape in state_shapes:
            space_obj = StateSpace(shape, object_types, colors)
            reps = {name: make_rep('state', name, space_obj) for name in NAMES}
            cell_objects = member_objects(set(object_types), cols)
            for position in (
                Position(y, x)
                for y in range(shape.height)
                for x in range(shape.width)
            ):
                for orientation in Orientation:
                    grid = random_grid(rnd, shape, cell_objects)
                    agent = Agent(position, orientation, rnd.choice(held_items))
                    state = State(grid, agent)
                    check(space_obj.contains(state), 'state not member')
                    for name in NAMES:
                        check_dict(
                            'state',
                            name,
                            reps[name],
                            space_obj,
                            state,
                            ('state', name, shape, position, orientation),
                        )

        for shape in view_shapes:
            space_obj = ObservationSpace(shape, object_types, colors)
            reps = {
                name: make_rep('observation', name, space_obj) for name in NAMES
            }
            cell_objects = member_objects({Hidden} | set(object_types), cols)
            positions = [
                space_obj.agent_position,
                Position(0, 0),
                Position(shape.height - 1, shape.width - 1),
                Position(0, shape.width - 1),
                Position(shape.height - 1, 0),
            ]
            for position in positions:
                for item in held_items:
                    grid = random_grid(rnd, shape, cell_objects)
                    agent = Agent(position, Orientation.F, item)
                    observation = Observation(grid, agent)
                    check(space_obj.contains(observation), 'obs not member')
                    for name in NAMES:
                        check_dict(
                            'observation',
                            name,
                            reps[name],
                            space_obj,
                            observation,
                            ('observation', name, shape, position, item),
                        )


# --------------------------------------------------------------------------
# 3. hard-coded expectations
# --------------------------------------------------------------------------


def section_hard_coded():
    object_types = [Floor, Wall, Exit, Door, Key]
    colors = [Color.YELLOW]
    door = Door(Door.Status.LOCKED, Color.YELLOW)

    observation_space = ObservationSpace(Shape(3, 3), object_types, colors)
    state_space = StateSpace(Shape(3, 3), object_types, colors)

    expected = {
        # (kind, name): (upper bound, door, hidden / none)
        ('observation', 'default'): ([6, 3, 4], [5, 2, 4], [1, 0, 0]),
        ('observation', 'no-overlap'): ([6, 10, 15], [5, 9, 15], [1, 7, 11]),
        ('observation', 'compact'): ([6, 15, 17], [5, 14, 17], [1, 8, 16]),
        ('state', 'default'): ([6, 3, 4], [5, 2, 4], [0, 0, 0]),
        ('state', 'no-overlap'): ([6, 10, 15], [5, 9, 15], [0, 7, 11]),
        ('state', 'compact'): ([5, 13, 15], [4, 12, 15], [0, 6, 14]),
    }
    for (kind, name), (upper, door_array, other_array) in expected.items():
        space_obj = observation_space if kind == 'observation' else state_space
        rep = make_rep(kind, name, space_obj)
        item_rep = rep.representations['item']
        grid_object_rep = item_rep.grid_object_representation
        other = Hidden() if kind == 'observation' else NoneGridObject()
        check(
            item_rep.space.upper_bound.tolist() == upper,
            kind,
            name,
            item_rep.space.upper_bound.tolist(),
        )
        check(
            grid_object_rep.convert(door).tolist() == door_array,
            kind,
            name,
            grid_object_rep.convert(door).tolist(),
        )
        check(
            grid_object_rep.convert(other).tolist() == other_array,
            kind,
            name,
            grid_object_rep.convert(other).tolist(),
        )

    # a full state, agent in the bottom-right corner of a non-square grid
    state_space = StateSpace(Shape(2, 3), object_types, colors)
    grid = Grid(
        [
            [Wall(), door, Floor()],
            [Key(Color.YELLOW), Exit(), Floor()],
        ]
    )
    state = State(
        grid, Agent(Position(1, 2), Orientation.L, Key(Color.YELLOW))
    )
    arrays = make_rep('state', 'no-overlap', state_space).convert(state)
    check(
        arrays['grid'].tolist()
        == [
            [[3, 7, 11], [5, 9, 15], [2, 7, 11]],
            [[6, 7, 15], [4, 7, 11], [2, 7, 11]],
        ],
        arrays['grid'].tolist(),
    )
    check(arrays['item'].tolist() == [6, 7, 15], arrays['item'].tolist())
    check(arrays['agent_id_grid'].tolist() == [[0, 0, 0], [0, 0, 1]])
    check(arrays['agent'].tolist() == [1.0, 1.0, 0.0, 0.0, 1.0, 0.0])


# --------------------------------------------------------------------------
# 4. the shared no-overlap helper functions
# --------------------------------------------------------------------------


def section_helper_functions():
    convert = representation_m.no_overlap_grid_object_representation_convert
    space_f = representation_m.no_overlap_grid_object_representation_space
    has_offsets = 'offsets' in inspect.signature(convert).parameters
    offsets_f = getattr(
        representation_m, 'no_overlap_grid_object_representation_offsets', None
    )

    for object_types in [(Floor,), (Door,), (Key, Door), tuple(USER_TYPES)]:
        for colors in [(), (Color.GREEN,), tuple(REAL_COLORS)]:
            types = ref_types('observation', object_types)
            cols = ref_colors(colors)
            space = space_f(types, cols)
            check_item_space('no-overlap', types, cols, space, 'helper space')
            T = max(t.type_index() for t in types)
            S = max(t.num_states() for t in types)
            if offsets_f is not None:
                check(offsets_f(types) == (T + 1, T + S + 2), 'offsets')
                check(
                    all(type(o) is int for o in offsets_f(types)),
                    'offset types',
                )
            for obj in member_objects(types, cols):
                expected = ref_item_convert('no-overlap', types, cols, obj)
                # positional call, as before
                array = convert(types, cols, obj)
                check(array.tolist() == expected and array.dtype == INT)
                check_in_space(space, array, ('helper', obj))
                if has_offsets:
                    array = convert(types, cols, obj, offsets=None)
                    check(array.tolist() == expected and array.dtype == INT)
                    array = convert(
                        types, cols, obj, offsets=(T + 1, T + S + 2)
                    )
                    check(array.tolist() == expected and array.dtype == INT)
                    check_in_space(space, array, ('helper offsets', obj))


# --------------------------------------------------------------------------
# 5. trajectories of environments built through the python API
# --------------------------------------------------------------------------


def make_env(reset_function, transition_names, object_types, colors, view, observation_name):
    sample = reset_function()
    state_space = StateSpace(sample.grid.shape, object_types, colors)
    observation_space = ObservationSpace(view, object_types, colors)
    action_space = ActionSpace(list(Action))
    transition_function = partial(
        transition_fs.chain,
        transition_functions=[
            getattr(transition_fs, name) for name in transition_names
        ],
    )
    observation_function = partial(
        observation_function_registry[observation_name],
        area=observation_space.area,
    )
    return GridWorld(
        state_space,
        action_space,
        observation_space,
        reset_function,
        transition_function,
        observation_function,
        lambda state, action, next_state: 0.0,
        lambda state, action, next_state: False,
    )


def env_factories():
    basic = ['move_agent', 'turn_agent']
    return {
        'keydoor': lambda: make_env(
            partial(reset_fs.keydoor, Shape(5, 8)),
            basic + ['actuate_door', 'pickndrop'],
            [Floor, Wall, Exit, Door, Key],
            [Color.YELLOW],
            Shape(4, 5),
            'partially_occluded',
        ),
        'dynamic_obstacles': lambda: make_env(
            partial(reset_fs.dynamic_obstacles, Shape(6, 7), 3, True),
            basic + ['move_obstacles'],
            [Floor, Wall, Exit, MovingObstacle],
            [],
            Shape(7, 7),
            'raytracing',
        ),
        'teleport': lambda: make_env(
            partial(reset_fs.teleport, Shape(5, 7)),
            basic + ['teleport'],
            [Floor, Wall, Exit, Telepod],
            [Color.RED],
            Shape(2, 3),
            'fully_transparent',
        ),
        'memory': lambda: make_env(
            partial(
                reset_fs.memory,
                Shape(6, 7),
                {Color.RED, Color.GREEN, Color.BLUE},
            ),
            basic,
            [Floor, Wall, Exit, Beacon],
            [Color.RED, Color.GREEN, Color.BLUE],
            Shape(3, 7),
            'stochastic_raytracing',
        ),
        'empty': lambda: make_env(
            partial(reset_fs.empty, Shape(4, 4), True, True),
            basic,
            [Floor, Wall, Exit],
            [],
            Shape(3, 1),
            'fully_transparent',
        ),
        'rooms': lambda: make_env(
            partial(reset_fs.rooms, Shape(7, 9), (2, 2)),
            basic,
            # NOTE: more types / colours declared than ever used
            [Floor, Wall, Exit, Door, Key, Telepod],
            REAL_COLORS,
            Shape(5, 3),
            'partially_occluded',
        ),
    }


def run_trajectory(env, seed, num_steps, check_everything):
    """runs a seeded trajectory, returns all produced arrays"""
    reps = {
        ('state', name): make_rep('state', name, env.state_space)
        for name in NAMES
    }
    reps.update(
        {
            ('observation', name): make_rep(
                'observation', name, env.observation_space
            )
            for name in NAMES
        }
    )
    outer = {
        name: OuterEnv(
            env,
            state_representation=reps['state', name],
            observation_representation=reps['observation', name],
        )
        for name in NAMES
    }

    env.set_seed(seed)
    action_rnd = random.Random(seed)
    env.reset()
    produced = []
    for step in range(num_steps + 1):
        for name in NAMES:
            if check_everything:
                s = check_dict(
                    'state', name, reps['state', name], env.state_space,
                    env.state, ('trajectory state', name, step),
                )
                o = check_dict(
                    'observation', name, reps['observation', name],
                    env.observation_space, env.observation,
                    ('trajectory observation', name, step),
                )
            # the outer-env route yields the same arrays
            s2 = outer[name].state
            o2 = outer[name].observation
            if check_everything:
                for key in s:
                    check(np.array_equal(s[key], s2[key]), 'outer state', key)
                for key in o:
                    check(np.array_equal(o[key], o2[key]), 'outer obs', key)
            for key in s2:
                check_in_space(
                    outer[name].state_representation.space[key], s2[key], key
                )
            for key in o2:
                check_in_space(
                    outer[name].observation_representation.space[key],
                    o2[key],
                    key,
                )
            produced.append((s2, o2))
        action = action_rnd.choice(list(Action))
        env.step(action)
        if step % 17 == 16:
            env.reset()
    return produced


def equal_produced(a, b):
    return len(a) == len(b) and all(
        set(x) == set(y) and all(np.array_equal(x[k], y[k]) for k in x)
        for pa, pb in zip(a, b)
        for x, y in zip(pa, pb)
    )


def section_trajectories():
    factories = env_factories()
    # several environments alive in one process
    envs = {key: factory() for key, factory in factories.items()}
    first = {
        key: run_trajectory(env, 7, 60, check_everything=True)
        for key, env in envs.items()
    }
    # re-seeding the same instances reproduces the same arrays
    for key, env in envs.items():
        again = run_trajectory(env, 7, 60, check_everything=False)
        check(equal_produced(first[key], again), key, 're-seeding')
    # fresh instances too, and a different seed stays inside the spaces
    for key, factory in factories.items():
        fresh = run_trajectory(factory(), 7, 60, check_everything=False)
        check(equal_produced(first[key], fresh), key, 'fresh instance')
        run_trajectory(factory(), 123, 40, check_everything=True)


def main():
    section_hard_coded()
    section_helper_functions()
    section_grid_objects()
    section_states_and_observations()
    section_trajectories()
    print(f'OK ({checks} checks, gym layer: {"yes" if gym else "skipped"})')


if __name__ == '__main__':
    main()
