"""Demo for change B (`get_manhattan_boundary(..., area=...)` used by `move_obstacles`).

Checks property C11 (moving obstacles / telepods obey their rules for every
random outcome) against a reference implementation embedded here, with the
emphasis on what the change touches:

* `get_manhattan_boundary` without `area` returns what it always returned
  (embedded reference, several distances, negative coordinates); when the
  installed version knows the `area` keyword, the filtered result is compared
  with "reference boundary filtered by bounds", order included;
* obstacles on every cell of small non-square grids (corners, borders, 1xN and
  Nx1 grids): destinations are exactly the in-grid floor neighbours;
* layouts where python's negative-index wrap-around would offer a floor cell
  on the opposite border: the obstacle must not jump there;
* every resolution of every random choice (scripted rng enumerating outcomes),
  seeded runs compared with the reference incl. the random stream.

Exits 0 on the pristine tree and with the patch applied.
"""
import inspect
import itertools
import os
import sys

# run from the worktree root: make `import gym_gridverse` pick up that tree
sys.path.insert(0, os.getcwd())

from gym_gridverse.action import Action
from gym_gridverse.agent import Agent
from gym_gridverse.envs import reset_functions
from gym_gridverse.envs.transition_functions import (
    chain,
    factory,
    move_agent,
    move_obstacles,
    teleport,
    transition_with_copy,
)
from gym_gridverse.geometry import (
    Area,
    Orientation,
    Position,
    Shape,
    get_manhattan_boundary,
)
from gym_gridverse.grid import Grid
from gym_gridverse.grid_object import (
    Color,
    Exit,
    Floor,
    Key,
    MovingObstacle,
    Telepod,
    Wall,
)
from gym_gridverse.rng import make_rng, reset_gv_rng
from gym_gridverse.state import State

CHECKS = 0


def check(condition, message):
    global CHECKS
    CHECKS += 1
    if not condition:
        print('FAIL:', message)
        sys.exit(1)


# ---------------------------------------------------------------- layouts

TELEPOD_COLORS = {
    'r': Color.RED,
    'g': Color.GREEN,
    'b': Color.BLUE,
    'y': Color.YELLOW,
    'n': Color.NONE,
}


def make_object(char):
    if char == '.':
        return Floor()
    if char == '#':
        return Wall()
    if char == 'O':
        return MovingObstacle()
    if char == 'E':
        return Exit()
    if char == 'K':
        return Key(Color.RED)
    if char in TELEPOD_COLORS:
        return Telepod(TELEPOD_COLORS[char])
    raise ValueError(char)


def char_of(obj):
    if isinstance(obj, Floor):
        return '.'
    if isinstance(obj, Wall):
        return '#'
    if isinstance(obj, MovingObstacle):
        return 'O'
    if isinstance(obj, Exit):
        return 'E'
    if isinstance(obj, Key):
        return 'K'
    if isinstance(obj, Telepod):
        for char, color in TELEPOD_COLORS.items():
            if obj.color is color:
                return char
    raise ValueError(obj)


def make_state(rows, agent_yx=(0, 0), orientation=Orientation.F, held=None):
    grid = Grid([[make_object(char) for char in row] for row in rows])
    return State(grid, Agent(Position(*agent_yx), orientation, held))


def rows_of(grid):
    return tuple(
        ''.join(char_of(grid[y, x]) for x in range(grid.shape.width))
        for y in range(grid.shape.height)
    )


def identities(grid):
    return [
        [id(grid[y, x]) for x in range(grid.shape.width)]
        for y in range(grid.shape.height)
    ]


# ---------------------------------------------------------------- references

NEIGHBOURS = ((-1, 0), (0, 1), (1, 0), (0, -1))  # up, right, down, left


def ref_candidates(cells, y, x):
    height, width = len(cells), len(cells[0])
    return [
        (y + dy, x + dx)
        for dy, dx in NEIGHBOURS
        if 0 <= y + dy < height
        and 0 <= x + dx < width
        and cells[y + dy][x + dx] == '.'
    ]


def ref_move_obstacles(rows, rng):
    """reference: returns new rows; draws from rng only when there is a candidate"""
    cells = [list(row) for row in rows]
    obstacles = [
        (y, x)
        for y in range(len(cells))
        for x in range(len(cells[0]))
        if cells[y][x] == 'O'
    ]
    for y, x in obstacles:
        candidates = ref_candidates(cells, y, x)
        if candidates:
            ny, nx = candidates[rng.choice(len(candidates))]
            cells[y][x], cells[ny][nx] = cells[ny][nx], cells[y][x]
    return tuple(''.join(row) for row in cells)


def ref_move_obstacles_all(rows):
    """reference: the set of every reachable result"""
    cells = [list(row) for row in rows]
    obstacles = [
        (y, x)
        for y in range(len(cells))
        for x in range(len(cells[0]))
        if cells[y][x] == 'O'
    ]

    def rec(cells, k):
        if k == len(obstacles):
            yield tuple(''.join(row) for row in cells)
            return
        y, x = obstacles[k]
        assert cells[y][x] == 'O'
        candidates = ref_candidates(cells, y, x)
        if not candidates:
            yield from rec(cells, k + 1)
        for ny, nx in candidates:
            new = [list(row) for row in cells]
            new[y][x], new[ny][nx] = new[ny][nx], new[y][x]
            yield from rec(new, k + 1)

    return set(rec(cells, 0))


def ref_teleport_targets(rows, agent_yx):
    y, x = agent_yx
    char = rows[y][x]
    if char not in TELEPOD_COLORS:
        return []
    return [
        (qy, qx)
        for qy in range(len(rows))
        for qx in range(len(rows[0]))
        if (qy, qx) != (y, x) and rows[qy][qx] == char
    ]


def ref_teleport(rows, agent_yx, rng):
    targets = ref_teleport_targets(rows, agent_yx)
    if targets:
        return targets[rng.choice(len(targets))]
    return agent_yx


# ---------------------------------------------------------------- scripted rng


class ScriptedRng:
    """Resolves the k-th random choice as scripted (0 beyond the script).

    Mimics numpy: choosing among zero elements is a ValueError.
    """

    def __init__(self, script):
        self.script = list(script)
        self.calls = []

    def choice(self, n):
        if n <= 0:
            raise ValueError('a must be a positive integer')
        k = len(self.calls)
        self.calls.append(n)
        return self.script[k] if k < len(self.script) else 0


def all_outcomes(run):
    """runs `run(rng)` for every resolution of every random choice"""
    stack = [[]]
    while stack:
        script = stack.pop()
        rng = ScriptedRng(script)
        result = run(rng)
        if len(rng.calls) > len(script):
            k = len(script)
            stack.extend(script + [c] for c in range(rng.calls[k]))
            continue
        check(
            all(0 <= c < n for c, n in zip(script, rng.calls)),
            'script within bounds',
        )
        yield script, result


# ---------------------------------------------------------------- scenarios

OBSTACLE_LAYOUTS = [
    # nothing to move at all
    ['.'],
    ['...', '...'],
    ['#'],
    # single cell / single row / single column grids
    ['O'],
    ['O.'],
    ['.O'],
    ['O', '.'],
    ['.', 'O'],
    ['.O.O.'],
    ['O', '.', '.', 'O'],
    ['OO'],
    ['OOO'],
    # corners and borders of non-square grids
    ['O..', '...'],
    ['..O', '...'],
    ['...', 'O..'],
    ['...', '..O'],
    ['.O.', '...'],
    ['...', '...', '.O.'],
    ['O....', '.....', '....O'],
    # boxed in: by walls, by the border, by other obstacles, by non-floor
    ['#O#'],
    ['###', '#O#', '###'],
    ['.#.', '#O#', '.#.'],
    ['OO', 'OO'],
    ['OOO', 'OOO', 'OOO'],
    ['rOg', '.K.'],
    ['EO', 'K.'],
    ['.O.', 'OOO', '.O.'],
    # an earlier obstacle frees / takes the cell of a later one
    ['O.O'],
    ['O.', '.O'],
    ['OO.'],
    ['.OO'],
    ['#O#', '#O#', '#.#'],
    ['#.#', '#O#', '#O#'],
    ['O.O', '.#.', 'O.O'],
    # negative-index wrap-around must not offer the opposite border
    ['O#.'],
    ['O', '#', '.'],
    ['O#.', '##.', '...'],
    ['.#O'],
    ['..#', '.##', '##O'],
    ['O#..', '#...', '....'],
    ['#O#.', '.#..', '....', '.O..'],
    # telepods, exits, keys are not floor
    ['rO.', 'K.E', '.On'],
    ['#####', '#O.O#', '#.#.#', '#O..#', '#####'],
    ['#######', '#..O..#', '#.O#O.#', '#######'],
]

TELEPOD_LAYOUTS = [
    ['.'],
    ['r'],
    ['n'],
    ['rr'],
    ['nn'],
    ['r', 'r'],
    ['rg'],
    ['rn'],
    ['r.r'],
    ['rrr'],
    ['rgr', 'grg'],
    ['r...', '..g.', '.r.g'],
    ['n..', '.r.', '..n'],
    ['nnnn', 'rrrr'],
    ['r#O', 'EKr', 'b.y'],
    ['#####', '#r.g#', '#.n.#', '#g.r#', '#r.n#', '#####'],
    ['y.....y', '...y...'],
]


def obstacle_positions_by_id(grid):
    return {
        id(grid[y, x]): (y, x)
        for y in range(grid.shape.height)
        for x in range(grid.shape.width)
        if isinstance(grid[y, x], MovingObstacle)
    }


def check_move_obstacles_exhaustive(rows):
    rows = tuple(rows)
    height, width = len(rows), len(rows[0])
    results = set()
    first_destinations = set()
    scan = [
        (y, x) for y in range(height) for x in range(width) if rows[y][x] == 'O'
    ]

    for action in (Action.MOVE_FORWARD, Action.ACTUATE):

        def run(rng):
            state = make_state(rows, agent_yx=(0, 0))
            before_ids = identities(state.grid)
            before = obstacle_positions_by_id(state.grid)
            move_obstacles(state, action, rng=rng)
            return state, before_ids, before

        for script, (state, before_ids, before) in all_outcomes(run):
            after_rows = rows_of(state.grid)
            after = obstacle_positions_by_id(state.grid)
            after_ids = identities(state.grid)

            # never lost or duplicated
            check(set(after) == set(before), f'{rows}: obstacles preserved')
            check(
                sorted(itertools.chain(*after_ids))
                == sorted(itertools.chain(*before_ids)),
                f'{rows}: same objects in the grid',
            )
            check(
                len(set(itertools.chain(*after_ids))) == height * width,
                f'{rows}: no object appears twice',
            )
            # agent untouched
            check(
                state.agent.position == Position(0, 0)
                and state.agent.orientation is Orientation.F,
                f'{rows}: agent untouched',
            )
            vacated = set()
            for y, x in scan:
                key = before_ids[y][x]
                ny, nx = after[key]
                distance = abs(ny - y) + abs(nx - x)
                # moved at most once, to a neighbour
                check(distance <= 1, f'{rows}: obstacle moved too far')
                if distance == 1:
                    # destination was floor, or floor left by an earlier one
                    check(
                        rows[ny][nx] == '.' or (ny, nx) in vacated,
                        f'{rows}: obstacle moved onto non-floor',
                    )
                    vacated.add((y, x))
            # everything that is neither obstacle nor floor stays where it is
            for y in range(height):
                for x in range(width):
                    if rows[y][x] not in 'O.':
                        check(
                            after_ids[y][x] == before_ids[y][x],
                            f'{rows}: static object moved',
                        )
            # one random choice per obstacle that had a candidate, never more
            check(len(script) <= len(scan), f'{rows}: too many random choices')
            results.add(after_rows)
            if scan:
                first_destinations.add(after[before_ids[scan[0][0]][scan[0][1]]])

    check(
        results == ref_move_obstacles_all(rows),
        f'{rows}: outcome set differs from reference',
    )
    if scan:
        y, x = scan[0]
        expected = set(ref_candidates(rows, y, x)) or {(y, x)}
        check(
            first_destinations == expected,
            f'{rows}: every free neighbour reachable, stays only if none',
        )


def check_move_obstacles_seeded(rows, seeds):
    rows = tuple(rows)
    for seed in seeds:
        rng, ref_rng = make_rng(seed), make_rng(seed)
        state = make_state(rows)
        current = rows
        # repeated calls on the same state with the same generator
        for _ in range(6):
            move_obstacles(state, Action.TURN_LEFT, rng=rng)
            current = ref_move_obstacles(current, ref_rng)
            check(
                rows_of(state.grid) == current,
                f'{rows} seed {seed}: differs from reference',
            )
            check(
                rng.bit_generator.state == ref_rng.bit_generator.state,
                f'{rows} seed {seed}: random stream consumed differently',
            )


def check_teleport_exhaustive(rows):
    rows = tuple(rows)
    height, width = len(rows), len(rows[0])
    held = Key(Color.BLUE)
    for y, x in itertools.product(range(height), range(width)):
        targets = ref_teleport_targets(rows, (y, x))
        for orientation, action in itertools.product(Orientation, Action):
            def run(rng):
                state = make_state(rows, (y, x), orientation, held)
                before_ids = identities(state.grid)
                teleport(state, action, rng=rng)
                return state, before_ids

            finals = set()
            for script, (state, before_ids) in all_outcomes(run):
                check(
                    identities(state.grid) == before_ids,
                    f'{rows}: teleport changed the grid',
                )
                check(
                    state.agent.orientation is orientation
                    and state.agent.grid_object is held,
                    f'{rows}: teleport changed orientation / held object',
                )
                check(
                    len(script) == (1 if targets else 0),
                    f'{rows}: number of random choices',
                )
                finals.add(state.agent.position.yx)
            expected = set(targets) if targets else {(y, x)}
            check(
                finals == expected,
                f'{rows} agent {(y, x)}: destinations {finals} != {expected}',
            )


def check_teleport_seeded(rows, seeds):
    rows = tuple(rows)
    height, width = len(rows), len(rows[0])
    for seed in seeds:
        for y, x in itertools.product(range(height), range(width)):
            rng, ref_rng = make_rng(seed), make_rng(seed)
            untouched = make_rng(seed).bit_generator.state
            state = make_state(rows, (y, x), Orientation.L)
            position = (y, x)
            for _ in range(4):
                had_targets = bool(ref_teleport_targets(rows, position))
                state_before = rng.bit_generator.state
                teleport(state, Action.PICK_N_DROP, rng=rng)
                position = ref_teleport(rows, position, ref_rng)
                check(
                    state.agent.position.yx == position,
                    f'{rows} seed {seed}: teleport differs from reference',
                )
                check(
                    rng.bit_generator.state == ref_rng.bit_generator.state,
                    f'{rows} seed {seed}: random stream consumed differently',
                )
                if not had_targets:
                    check(
                        rng.bit_generator.state == state_before,
                        f'{rows}: random stream touched without candidates',
                    )
            if not ref_teleport_targets(rows, (y, x)):
                check(
                    rng.bit_generator.state == untouched,
                    f'{rows}: random stream touched without candidates',
                )


def check_library_rng():
    """rng=None uses the library generator; re-seeding reproduces the run"""
    rows = ('#####', '#O.O#', '#.#.#', '#O..#', '#####')
    for seed in (0, 1, 7):
        runs = []
        for _ in range(2):
            reset_gv_rng(seed)
            state = make_state(rows, (1, 2))
            for _ in range(5):
                move_obstacles(state, Action.MOVE_LEFT)
            runs.append(rows_of(state.grid))
        ref_rng = make_rng(seed)
        current = rows
        for _ in range(5):
            current = ref_move_obstacles(current, ref_rng)
        check(runs == [current, current], f'library rng, seed {seed}')

    rows = ('r.r', '.r.')
    for seed in (0, 1, 7):
        reset_gv_rng(seed)
        ref_rng = make_rng(seed)
        state = make_state(rows, (0, 0))
        position = (0, 0)
        for _ in range(5):
            teleport(state, Action.ACTUATE)
            position = ref_teleport(rows, position, ref_rng)
            check(state.agent.position.yx == position, 'library rng teleport')

    # no candidates: the library generator is not advanced
    generator = reset_gv_rng(11)
    before = generator.bit_generator.state
    move_obstacles(make_state(('#O#',), (0, 0)), Action.ACTUATE)
    teleport(make_state(('r.g',), (0, 0)), Action.ACTUATE)
    teleport(make_state(('r.r',), (0, 1)), Action.ACTUATE)
    check(generator.bit_generator.state == before, 'library rng untouched')


def check_reset_function_states():
    """states made by the library, several independent generators at once"""
    shapes = [Shape(4, 7), Shape(7, 4), Shape(5, 5), Shape(4, 9)]
    for shape, seed in itertools.product(shapes, range(4)):
        inner = (shape.height - 2) * (shape.width - 2)
        for num_obstacles in {0, 1, inner // 2, inner - 2}:
            state = reset_functions.dynamic_obstacles(
                shape, num_obstacles, rng=make_rng(seed)
            )
            rng_a, rng_b, ref_rng = (make_rng(seed + 100) for _ in range(3))
            twin = reset_functions.dynamic_obstacles(
                shape, num_obstacles, rng=make_rng(seed)
            )
            current = rows_of(state.grid)
            function = factory(
                'chain', transition_functions=[move_agent, move_obstacles]
            )
            for action in list(Action) * 2:
                next_state = transition_with_copy(
                    function, state, action, rng=rng_a
                )
                chain(
                    twin,
                    action,
                    transition_functions=[move_agent, move_obstacles],
                    rng=rng_b,
                )
                check(
                    rows_of(state.grid) == current,
                    'transition_with_copy left the input alone',
                )
                current = ref_move_obstacles(current, ref_rng)
                check(rows_of(next_state.grid) == current, 'copy == reference')
                check(rows_of(twin.grid) == current, 'in place == reference')
                check(
                    sum(row.count('O') for row in current) == num_obstacles,
                    'number of obstacles',
                )
                state = next_state

    for shape, seed in itertools.product(shapes, range(6)):
        state = reset_functions.teleport(shape, rng=make_rng(seed))
        rows = rows_of(state.grid)
        pods = [
            (y, x)
            for y in range(shape.height)
            for x in range(shape.width)
            if rows[y][x] == 'r'
        ]
        check(len(pods) == 2, 'two telepods')
        for k, orientation in itertools.product(range(2), Orientation):
            state.agent.position = Position(*pods[k])
            state.agent.orientation = orientation
            teleport(state, Action.MOVE_FORWARD, rng=make_rng(seed))
            check(state.agent.position.yx == pods[1 - k], 'sent to the partner')
            check(state.agent.orientation is orientation, 'orientation kept')
        state.agent.position = Position(1, 1)
        teleport(state, Action.MOVE_FORWARD, rng=make_rng(seed))
        check(state.agent.position == Position(1, 1), 'no telepod, no teleport')


def ref_boundary(y, x, distance):
    """reference: clockwise from the top, 4 straight lines"""
    cells = []
    cells += [(y - distance + i, x + i) for i in range(distance)]
    cells += [(y + i, x + distance - i) for i in range(distance)]
    cells += [(y + distance - i, x - i) for i in range(distance)]
    cells += [(y - i, x - distance + i) for i in range(distance)]
    return cells


def check_manhattan_boundary():
    has_area = 'area' in inspect.signature(get_manhattan_boundary).parameters
    check(
        [p.yx for p in get_manhattan_boundary(Position(5, 7), 1)]
        == [(4, 7), (5, 8), (6, 7), (5, 6)],
        'distance 1: up, right, down, left',
    )
    areas = [
        Area((0, 0), (0, 0)),
        Area((0, 3), (0, 5)),
        Area((0, 5), (0, 3)),
        Area((-2, 1), (-1, 4)),
        Area((2, 2), (-3, 6)),
        Area((-4, 4), (1, 1)),
    ]
    for y, x, distance in itertools.product(
        range(-3, 7), range(-3, 7), range(1, 5)
    ):
        expected = ref_boundary(y, x, distance)
        position = Position(y, x)
        for result in (
            get_manhattan_boundary(position, distance),
            get_manhattan_boundary(position, distance=distance),
            get_manhattan_boundary(position=position, distance=distance),
        ):
            check(isinstance(result, list), 'boundary is a list')
            check(
                all(isinstance(p, Position) for p in result)
                and [p.yx for p in result] == expected,
                f'boundary of {(y, x)} at {distance}',
            )
            check(
                len(set(result)) == 4 * distance
                and all(
                    Position.manhattan_distance(p, position) == distance
                    for p in result
                ),
                'boundary: distinct cells at the right distance',
            )
        if has_area:
            check(
                get_manhattan_boundary(position, distance, area=None)
                == get_manhattan_boundary(position, distance),
                'area=None is the default',
            )
            for area in areas:
                result = get_manhattan_boundary(position, distance, area=area)
                check(
                    [p.yx for p in result]
                    == [
                        (qy, qx)
                        for qy, qx in expected
                        if area.ymin <= qy <= area.ymax
                        and area.xmin <= qx <= area.xmax
                    ],
                    f'boundary of {(y, x)} at {distance} within {area}',
                )
    for distance in (0, -1):
        try:
            get_manhattan_boundary(Position(0, 0), distance)
        except ValueError:
            check(True, 'non-positive distance rejected')
        else:
            check(False, 'non-positive distance rejected')


def check_obstacle_everywhere():
    """a single obstacle on every cell of small grids, with and without walls"""
    for height, width in itertools.product(range(1, 5), range(1, 5)):
        for y, x in itertools.product(range(height), range(width)):
            for fill in '.#':
                rows = [[fill] * width for _ in range(height)]
                rows[y][x] = 'O'
                # with walls: free exactly the neighbours in a checker pattern
                if fill == '#':
                    for ny, nx in ((y - 1, x), (y, x + 1), (y + 1, x), (y, x - 1)):
                        if 0 <= ny < height and 0 <= nx < width and (ny + nx) % 2:
                            rows[ny][nx] = '.'
                    # decoys on the opposite borders
                    for ny, nx in ((height - 1, x), (y, width - 1), (0, x), (y, 0)):
                        if abs(ny - y) + abs(nx - x) > 1 and rows[ny][nx] == '#':
                            rows[ny][nx] = '.'
                rows = [''.join(row) for row in rows]
                check_move_obstacles_exhaustive(rows)
                check_move_obstacles_seeded(rows, [0, 1, 2])


def main():
    check_manhattan_boundary()
    check_obstacle_everywhere()
    seeds = [0, 1, 2, 3, 5, 8, 13, 2**31 - 1]
    for rows in OBSTACLE_LAYOUTS:
        check_move_obstacles_exhaustive(rows)
        check_move_obstacles_seeded(rows, seeds)
    for rows in TELEPOD_LAYOUTS + OBSTACLE_LAYOUTS[-4:]:
        check_teleport_exhaustive(rows)
        check_teleport_seeded(rows, seeds[:4])
    check_library_rng()
    check_reset_function_states()
    print(f'OK ({CHECKS} checks)')


if __name__ == '__main__':
    main()
