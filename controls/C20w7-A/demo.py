"""Check program for commit A (no-overlap offsets computed once, space/convert hoisting).

Run as:  cd /tmp/wt7-C20 && /venv/bin/python -W ignore _seed/A/demo.py

Everything is checked against an independent re-implementation of the three
representations ('default', 'no-overlap', 'compact'), of their advertised
spaces, and of the gym-level contract (action index i = i-th action,
reset/step return the representation of the observation of the current state
of the wrapped environment, reward/done are those of the wrapped environment,
the state wrapper returns the state and passes the observation via info).
The wrapped environment is mirrored by a "twin" inner environment built from
the same configuration and seeded identically, so that any difference in the
number or order of random draws shows up as a divergence.
"""
import copy
import itertools
import os
import random
import sys

sys.path.insert(0, os.getcwd())

import gym  # noqa: E402
import numpy as np  # noqa: E402

from gym_gridverse.action import Action  # noqa: E402
from gym_gridverse.envs.yaml.factory import factory_env_from_data  # noqa: E402
from gym_gridverse.grid_object import (  # noqa: E402
    Beacon,
    Color,
    Door,
    Exit,
    Floor,
    GridObject,
    Hidden,
    Key,
    MovingObstacle,
    NoneGridObject,
    Telepod,
    Wall,
    grid_object_registry,
)
from gym_gridverse.gym import (  # noqa: E402
    GymEnvironment,
    GymStateWrapper,
    outer_space_to_gym_space,
)
from gym_gridverse.outer_env import OuterEnv  # noqa: E402
from gym_gridverse.representations import (  # noqa: E402
    observation_representations as o_reps,
    representation as reps,
    state_representations as s_reps,
)
from gym_gridverse.representations.observation_representations import (  # noqa: E402
    make_observation_representation,
)
from gym_gridverse.representations.spaces import Space, SpaceType  # noqa: E402
from gym_gridverse.representations.state_representations import (  # noqa: E402
    make_state_representation,
)

NAMES = ['default', 'no-overlap', 'compact']
N_CHECKS = 0


def ok(cond, *msg):
    global N_CHECKS
    N_CHECKS += 1
    if not cond:
        raise AssertionError(' '.join(str(m) for m in msg))


# ---------------------------------------------------------------------------
# configurations (python transcriptions of gym_gridverse/registered_envs/*.yaml)
# ---------------------------------------------------------------------------

SIX = [
    'MOVE_FORWARD',
    'MOVE_BACKWARD',
    'MOVE_LEFT',
    'MOVE_RIGHT',
    'TURN_LEFT',
    'TURN_RIGHT',
]
EXIT_REWARDS = [
    {'name': 'reach_exit', 'reward_on': 5.0, 'reward_off': 0.0},
    {
        'name': 'getting_closer',
        'distance_function': 'manhattan',
        'object_type': 'Exit',
        'reward_closer': 0.2,
        'reward_further': -0.2,
    },
    {'name': 'living_reward', 'reward': -0.05},
]
MEMORY_REWARDS = [
    {'name': 'reach_exit_memory', 'reward_good': 5.0, 'reward_bad': -5.0},
    {'name': 'living_reward', 'reward': -0.05},
]
OBS_F = {'name': 'partially_occluded', 'area': [[-6, 0], [-3, 3]]}
ALL_COLORS = ['NONE', 'RED', 'GREEN', 'BLUE', 'YELLOW']


def _cfg(
    objects,
    colors,
    reset,
    transitions,
    rewards,
    terminating=None,
    actions=SIX,
    obs_f=None,
):
    data = {
        'state_space': {'objects': list(objects), 'colors': list(colors)},
        'observation_space': {
            'objects': list(objects),
            'colors': list(colors),
        },
        'reset_function': reset,
        'transition_functions': [{'name': n} for n in transitions],
        'reward_functions': rewards,
        'observation_function': obs_f if obs_f is not None else OBS_F,
        'terminating_function': terminating
        if terminating is not None
        else {'name': 'reach_exit'},
    }
    if actions is not None:
        data['action_space'] = list(actions)
    return copy.deepcopy(data)


def crossing(shape, num_rivers, **kw):
    return _cfg(
        ['Wall', 'Floor', 'Exit'],
        ['NONE'],
        {
            'name': 'crossing',
            'shape': list(shape),
            'num_rivers': num_rivers,
            'object_type': 'Wall',
        },
        ['move_agent', 'turn_agent'],
        EXIT_REWARDS,
        **kw,
    )


def dynamic_obstacles(shape, num_obstacles, **kw):
    return _cfg(
        ['Wall', 'Floor', 'Exit', 'MovingObstacle'],
        ['NONE'],
        {
            'name': 'dynamic_obstacles',
            'shape': list(shape),
            'num_obstacles': num_obstacles,
            'random_agent': False,
        },
        ['move_agent', 'turn_agent', 'move_obstacles'],
        [
            EXIT_REWARDS[0],
            {'name': 'bump_moving_obstacle', 'reward': -1.0},
            {'name': 'bump_into_wall', 'reward': -1.0},
            EXIT_REWARDS[1],
            EXIT_REWARDS[2],
        ],
        terminating={
            'name': 'reduce_any',
            'terminating_functions': [
                {'name': 'reach_exit'},
                {'name': 'bump_moving_obstacle'},
                {'name': 'bump_into_wall'},
            ],
        },
        **kw,
    )


def empty(shape, **kw):
    return _cfg(
        ['Wall', 'Floor', 'Exit'],
        ['NONE'],
        {'name': 'empty', 'shape': list(shape), 'random_agent': True},
        ['move_agent', 'turn_agent'],
        EXIT_REWARDS,
        **kw,
    )


def rooms(shape, layout, **kw):
    return _cfg(
        ['Wall', 'Floor', 'Exit'],
        ['NONE'],
        {'name': 'rooms', 'shape': list(shape), 'layout': list(layout)},
        ['move_agent', 'turn_agent'],
        EXIT_REWARDS,
        **kw,
    )


def keydoor(shape, **kw):
    kw.setdefault('actions', None)  # shipped keydoor uses all 8 actions
    return _cfg(
        ['Wall', 'Floor', 'Exit', 'Door', 'Key'],
        ['NONE', 'YELLOW'],
        {'name': 'keydoor', 'shape': list(shape)},
        ['move_agent', 'turn_agent', 'actuate_door', 'pickndrop'],
        [
            EXIT_REWARDS[0],
            {
                'name': 'pickndrop',
                'object_type': 'Key',
                'reward_pick': 1.0,
                'reward_drop': -1.0,
            },
            {
                'name': 'actuate_door',
                'reward_open': 1.0,
                'reward_close': -1.0,
            },
            EXIT_REWARDS[1],
            EXIT_REWARDS[2],
        ],
        **kw,
    )


def memory(shape, **kw):
    return _cfg(
        ['Wall', 'Floor', 'Exit', 'Beacon'],
        ALL_COLORS,
        {'name': 'memory', 'shape': list(shape), 'colors': ALL_COLORS[1:]},
        ['move_agent', 'turn_agent'],
        MEMORY_REWARDS,
        **kw,
    )


def memory_rooms(shape, layout, **kw):
    return _cfg(
        ['Wall', 'Floor', 'Exit', 'Beacon'],
        ALL_COLORS,
        {
            'name': 'memory_rooms',
            'shape': list(shape),
            'layout': list(layout),
            'colors': ALL_COLORS[1:],
            'num_beacons': 1,
            'num_exits': 2,
        },
        ['move_agent', 'turn_agent'],
        MEMORY_REWARDS,
        **kw,
    )


def teleport(shape, **kw):
    return _cfg(
        ['Wall', 'Floor', 'Exit', 'Telepod'],
        ['NONE', 'RED'],
        {'name': 'teleport', 'shape': list(shape), 'random_agent': True},
        ['move_agent', 'turn_agent', 'teleport'],
        EXIT_REWARDS,
        **kw,
    )


SHIPPED = {
    'GV-Crossing-5x5-v0': crossing((5, 5), 1),
    'GV-Crossing-7x7-v0': crossing((7, 7), 2),
    'GV-DynamicObstacles-5x5-v0': dynamic_obstacles((5, 5), 1),
    'GV-DynamicObstacles-7x7-v0': dynamic_obstacles((7, 7), 2),
    'GV-Empty-4x4-v0': empty((4, 4)),
    'GV-Empty-8x8-v0': empty((8, 8)),
    'GV-FourRooms-7x7-v0': rooms((7, 7), (2, 2)),
    'GV-FourRooms-9x9-v0': rooms((9, 9), (2, 2)),
    'GV-Keydoor-5x5-v0': keydoor((5, 5)),
    'GV-Keydoor-7x7-v0': keydoor((7, 7)),
    'GV-Keydoor-9x9-v0': keydoor((9, 9)),
    'GV-Memory-5x5-v0': memory((5, 5)),
    'GV-Memory-9x9-v0': memory((9, 9)),
    'GV-MemoryFourRooms-7x7-v0': memory_rooms((7, 7), (2, 2)),
    'GV-MemoryFourRooms-9x9-v0': memory_rooms((9, 9), (2, 2)),
    'GV-MemoryNineRooms-10x10-v0': memory_rooms((10, 10), (3, 3)),
    'GV-MemoryNineRooms-13x13-v0': memory_rooms((13, 13), (3, 3)),
    'GV-NineRooms-10x10-v0': rooms((10, 10), (3, 3)),
    'GV-NineRooms-13x13-v0': rooms((13, 13), (3, 3)),
    'GV-Teleport-5x5-v0': teleport((5, 5)),
    'GV-Teleport-7x7-v0': teleport((7, 7)),
}

# unusual parameters: non-square worlds, other observation functions and
# areas (incl. 1-wide / 1-high views and agent not on the bottom row),
# reordered / reduced action spaces
EXTRA = {
    'X-Empty-4x9': empty((4, 9)),
    'X-Empty-9x4-tiny-view': empty(
        (9, 4),
        obs_f={'name': 'fully_transparent', 'area': [[-1, 0], [-1, 1]]},
    ),
    'X-Empty-4x5-column-view': empty(
        (4, 5),
        obs_f={'name': 'raytracing', 'area': [[-4, 0], [0, 0]]},
        actions=['TURN_RIGHT', 'MOVE_FORWARD'],
    ),
    'X-Empty-5x6-row-view': empty(
        (5, 6),
        obs_f={'name': 'partially_occluded', 'area': [[0, 0], [-2, 2]]},
        actions=['MOVE_RIGHT', 'MOVE_LEFT', 'MOVE_FORWARD', 'TURN_LEFT'],
    ),
    'X-Keydoor-6x9-behind-view': keydoor(
        (6, 9),
        obs_f={'name': 'raytracing', 'area': [[-3, 2], [-2, 2]]},
        actions=[
            'PICK_N_DROP',
            'ACTUATE',
            'TURN_RIGHT',
            'TURN_LEFT',
            'MOVE_RIGHT',
            'MOVE_LEFT',
            'MOVE_BACKWARD',
            'MOVE_FORWARD',
        ],
    ),
    'X-Keydoor-9x6-stochastic': keydoor(
        (9, 6),
        obs_f={'name': 'stochastic_raytracing', 'area': [[-4, 0], [-2, 2]]},
    ),
    'X-DynamicObstacles-6x8-stochastic': dynamic_obstacles(
        (6, 8),
        3,
        obs_f={'name': 'stochastic_raytracing', 'area': [[-5, 1], [-3, 3]]},
    ),
    'X-Teleport-5x8-single-action': teleport(
        (5, 8),
        actions=['MOVE_FORWARD'],
    ),
    'X-Memory-5x9': memory((5, 9)),
    'X-Crossing-7x9': crossing((7, 9), 2),
    'X-Rooms-7x10': rooms((7, 10), (2, 3)),
}


def config_actions(data):
    names = data.get('action_space')
    if names is None:
        return list(Action)
    return [Action[name] for name in names]


def build_inner(data):
    # the factory pops keys from its input
    return factory_env_from_data(copy.deepcopy(data))


# ---------------------------------------------------------------------------
# independent reference implementation of the representations
# ---------------------------------------------------------------------------


def tindex(object_type):
    return list(grid_object_registry).index(object_type)


class Ref:
    """reference representation for a (space, kind, name) triple"""

    def __init__(self, space, kind, name):
        assert kind in ('state', 'observation')
        assert name in NAMES
        self.kind = kind
        self.name = name
        self.shape = (space.grid_shape.height, space.grid_shape.width)
        types = set(space.object_types) | {NoneGridObject}
        if kind == 'observation':
            types |= {Hidden}
        self.types = sorted(types, key=tindex)
        self.colors = sorted(set(space.colors), key=lambda c: c.value)
        self.max_t = max(tindex(t) for t in self.types)
        self.max_s = max(t.num_states() for t in self.types)
        self.max_c = max(c.value for c in self.colors)

        # compact tables (dicts rather than arrays)
        i = 0
        self.ctype, self.cstate, self.ccolor = {}, {}, {}
        for t in self.types:
            self.ctype[tindex(t)] = i
            i += 1
        for t in self.types:
            for j in range(t.num_states()):
                self.cstate[tindex(t), j] = i
                i += 1
        for c in self.colors:
            self.ccolor[c.value] = i
            i += 1

    def obj(self, obj):
        t, s, c = tindex(type(obj)), obj.state_index, obj.color.value
        if self.name == 'default':
            return [t, s, c]
        if self.name == 'no-overlap':
            return [t, self.max_t + 1 + s, self.max_t + self.max_s + 2 + c]
        return [self.ctype[t], self.cstate[t, s], self.ccolor[c]]

    def obj_upper(self):
        if self.name == 'default':
            return [self.max_t, self.max_s, self.max_c]
        if self.name == 'no-overlap':
            return [
                self.max_t,
                self.max_t + self.max_s + 1,
                self.max_t + self.max_s + self.max_c + 2,
            ]
        return [
            max(self.ctype.values()),
            max(self.cstate.values()),
            max(self.ccolor.values()),
        ]

    def convert(self, thing):
        """thing is a State or an Observation"""
        h, w = len(thing.grid.objects), len(thing.grid.objects[0])
        grid = np.zeros((h, w, 3), dtype=np.int64)
        for y in range(h):
            for x in range(w):
                grid[y, x, :] = self.obj(thing.grid.objects[y][x])
        agent_id = np.zeros((h, w), dtype=np.int64)
        agent_id[thing.agent.position.y, thing.agent.position.x] = 1
        res = {
            'grid': grid,
            'agent_id_grid': agent_id,
            'item': np.array(self.obj(thing.agent.grid_object), np.int64),
        }
        if self.kind == 'state':
            agent = np.zeros(6, dtype=np.float64)
            agent[0] = (2 * thing.agent.position.y - h + 1) / (h - 1)
            agent[1] = (2 * thing.agent.position.x - w + 1) / (w - 1)
            agent[2 + thing.agent.orientation.value] = 1.0
            res['agent'] = agent
        return ordered(res, self.kind)

    def bounds(self):
        """key -> (space type, low, high)"""
        h, w = self.shape
        upper = np.array(self.obj_upper(), np.int64)
        res = {
            'grid': (
                SpaceType.CATEGORICAL,
                np.zeros((h, w, 3), np.int64),
                np.broadcast_to(upper, (h, w, 3)).copy(),
            ),
            'agent_id_grid': (
                SpaceType.DISCRETE,
                np.zeros((h, w), np.int64),
                np.ones((h, w), np.int64),
            ),
            'item': (SpaceType.CATEGORICAL, np.zeros(3, np.int64), upper),
        }
        if self.kind == 'state':
            res['agent'] = (
                SpaceType.CONTINUOUS,
                np.array([-1.0, -1.0, 0.0, 0.0, 0.0, 0.0]),
                np.array([1.0, 1.0, 1.0, 1.0, 1.0, 1.0]),
            )
        return ordered(res, self.kind)


STATE_KEYS = ['grid', 'agent_id_grid', 'agent', 'item']


def ordered(res, kind):
    """key order of the library: state representations put agent before item"""
    if kind == 'state':
        return {k: res[k] for k in STATE_KEYS}
    return res


def same_array(a, b, *msg):
    ok(isinstance(a, np.ndarray), 'not an array', *msg)
    ok(a.shape == b.shape, 'shape', a.shape, b.shape, *msg)
    ok(a.dtype == b.dtype, 'dtype', a.dtype, b.dtype, *msg)
    ok(np.array_equal(a, b), 'values', a, b, *msg)


def same_dict(got, want, *msg):
    ok(type(got) is dict, 'not a dict', *msg)
    ok(list(got.keys()) == list(want.keys()), 'keys', got.keys(), *msg)
    for k in want:
        same_array(got[k], want[k], k, *msg)


def check_outer_space(space_dict, ref, *msg):
    """space_dict is Dict[str, Space] from the library"""
    want = ref.bounds()
    ok(list(space_dict.keys()) == list(want.keys()), 'space keys', *msg)
    for k, (space_type, low, high) in want.items():
        s = space_dict[k]
        ok(isinstance(s, Space), 'Space', *msg)
        ok(s.space_type is space_type, 'space type', k, *msg)
        same_array(s.lower_bound, low, 'low', k, *msg)
        same_array(s.upper_bound, high, 'high', k, *msg)
        ok(
            not np.shares_memory(s.lower_bound, s.upper_bound),
            'bounds share memory',
        )


def check_gym_space(gym_space, ref, *msg):
    want = ref.bounds()
    ok(isinstance(gym_space, gym.spaces.Dict), 'gym Dict', *msg)
    ok(set(gym_space.spaces.keys()) == set(want.keys()), 'gym keys', *msg)
    for k, (space_type, low, high) in want.items():
        box = gym_space.spaces[k]
        ok(isinstance(box, gym.spaces.Box), 'Box', k, *msg)
        dtype = np.float64 if space_type is SpaceType.CONTINUOUS else np.int64
        ok(box.dtype == dtype, 'box dtype', box.dtype, k, *msg)
        ok(box.shape == low.shape, 'box shape', k, *msg)
        ok(np.array_equal(box.low, low), 'box low', k, *msg)
        ok(np.array_equal(box.high, high), 'box high', k, *msg)


# ---------------------------------------------------------------------------
# gym-level episodes against a twin inner environment
# ---------------------------------------------------------------------------


def make_gym(data, o_name, s_name):
    inner = build_inner(data)
    outer = OuterEnv(
        inner,
        state_representation=make_state_representation(
            s_name, inner.state_space
        )
        if s_name is not None
        else None,
        observation_representation=make_observation_representation(
            o_name, inner.observation_space
        )
        if o_name is not None
        else None,
    )
    return GymEnvironment(outer)


def run_episode(
    key, data, seed, o_name, s_name, indices, *, wrap, switch_at=None
):
    """plays `indices` on a gym environment and on its twin"""
    tag = (key, seed, o_name, s_name, wrap)
    actions = config_actions(data)

    env = make_gym(data, o_name, s_name)
    twin = build_inner(data)
    env.outer_env.inner_env.set_seed(seed)
    twin.set_seed(seed)

    ok(isinstance(env.action_space, gym.spaces.Discrete), 'Discrete', tag)
    ok(env.action_space.n == len(actions), 'num actions', tag)

    o_ref = Ref(twin.observation_space, 'observation', o_name)
    s_ref = Ref(twin.state_space, 'state', s_name)
    check_gym_space(env.observation_space, o_ref, tag)
    check_gym_space(env.state_space, s_ref, tag)
    check_outer_space(env.outer_env.observation_representation.space, o_ref)
    check_outer_space(env.outer_env.state_representation.space, s_ref)

    top = GymStateWrapper(env) if wrap else env
    if wrap:
        check_gym_space(top.observation_space, s_ref, tag)
        ok(top.observation_space is env.state_space, 'wrapper space', tag)

    def check_current(returned, info=None):
        """compares what the gym layer returned with the twin"""
        want_o = o_ref.convert(twin.observation)
        want_s = s_ref.convert(twin.state)
        if wrap:
            same_dict(returned, want_s, 'returned state', tag)
            ok(top.observation_space.contains(returned), 'in space', tag)
            if info is not None:
                ok(list(info.keys()) == ['observation'], 'info keys', tag)
                same_dict(info['observation'], want_o, 'info obs', tag)
                ok(env.observation_space.contains(info['observation']), tag)
        else:
            same_dict(returned, want_o, 'returned observation', tag)
            ok(env.observation_space.contains(returned), 'in space', tag)
            if info is not None:
                ok(info == {}, 'info', tag)
        # properties agree as well and give fresh arrays at every access
        o1, o2 = env.observation, env.observation
        same_dict(o1, want_o, 'observation property', tag)
        same_dict(o2, want_o, 'observation property', tag)
        s1 = env.state
        same_dict(s1, want_s, 'state property', tag)
        ok(env.state_space.contains(s1), 'state in space', tag)
        for k in want_o:
            ok(o1[k] is not o2[k], 'fresh arrays', tag)
            ok(not np.shares_memory(o1[k], o2[k]), 'fresh arrays', tag)
        o1['grid'][...] = -7  # caller mutations never leak
        same_dict(env.observation, want_o, 'after mutation', tag)

    twin.reset()
    check_current(top.reset())

    for t, i in enumerate(indices):
        if switch_at is not None and t in switch_at:
            o_name, s_name = switch_at[t]
            env.set_observation_representation(o_name)
            env.set_state_representation(s_name)
            o_ref = Ref(twin.observation_space, 'observation', o_name)
            s_ref = Ref(twin.state_space, 'state', s_name)
            check_gym_space(env.observation_space, o_ref, tag, 'switched')
            check_gym_space(env.state_space, s_ref, tag, 'switched')
            tag = tag + ((t, o_name, s_name),)
            if wrap:
                # the wrapper keeps advertising the space captured at
                # construction (old behaviour);  re-wrap to follow the switch
                top = GymStateWrapper(env)
                ok(top.observation_space is env.state_space, tag)

        result = top.step(i)
        ok(type(result) is tuple and len(result) == 4, 'step result', tag)
        returned, reward, done, info = result
        want_reward, want_done = twin.step(actions[i])
        ok(type(reward) is type(want_reward), 'reward type', tag)
        ok(reward == want_reward, 'reward', reward, want_reward, tag, t)
        ok(type(done) is type(want_done), 'done type', tag)
        ok(done == want_done, 'done', tag, t)
        check_current(returned, info)

        if done:
            twin.reset()
            check_current(top.reset())


def gym_level_checks():
    rnd = random.Random(20)
    pairs = list(itertools.product(NAMES, NAMES))
    n = 0
    for table, seeds, steps in ((SHIPPED, (0, 7), 25), (EXTRA, (1, 5, 11), 40)):
        for key, data in table.items():
            num_actions = len(config_actions(data))
            for seed in seeds:
                for k, (o_name, s_name) in enumerate(pairs):
                    # 9 representation pairs;  the wrapper on every other one
                    if table is SHIPPED and (k + seed) % 3 != 0:
                        continue
                    indices = [rnd.randrange(num_actions) for _ in range(steps)]
                    # every index at least once, also as numpy integers
                    indices += list(range(num_actions))
                    indices += [np.int64(i) for i in range(num_actions)]
                    indices += [-1, -num_actions]  # python-style indices
                    run_episode(
                        key, data, seed, o_name, s_name, indices, wrap=k % 2 == 1
                    )
                    n += 1
            # switching representations in the middle of an episode
            indices = [rnd.randrange(num_actions) for _ in range(12)]
            switch_at = {
                3: ('no-overlap', 'compact'),
                6: ('compact', 'no-overlap'),
                9: ('default', 'default'),
                10: ('no-overlap', 'no-overlap'),
            }
            for wrap in (False, True):
                run_episode(
                    key,
                    data,
                    3,
                    'default',
                    'no-overlap',
                    indices,
                    wrap=wrap,
                    switch_at=switch_at,
                )
                n += 1
    # exhaustive short action sequences on small action spaces
    for key in ('X-Empty-4x5-column-view', 'X-Empty-5x6-row-view'):
        data = EXTRA[key]
        num_actions = len(config_actions(data))
        for indices in itertools.product(range(num_actions), repeat=4):
            run_episode(
                key, data, 2, 'no-overlap', 'no-overlap', list(indices), wrap=True
            )
            n += 1
    return n


def registered_id_checks():
    """through gym.make, as for the registered ids"""
    n = 0
    for key, data in list(SHIPPED.items()) + list(EXTRA.items()):
        env_id = 'Demo' + key.replace('GV-', '').replace('X-', 'X') + (
            '' if key.endswith('-v0') else '-v0'
        )

        def factory(data=data):
            # mirrors gym_gridverse.gym.outer_env_factory (minus the yaml)
            inner = build_inner(data)
            return OuterEnv(
                inner,
                observation_representation=make_observation_representation(
                    'default', inner.observation_space
                ),
            )

        gym.register(
            env_id,
            entry_point='gym_gridverse.gym:from_factory',
            kwargs={'factory': factory},
        )
        actions = config_actions(data)
        for seed in (0, 4):
            made = gym.make(env_id, disable_env_checker=True)
            env = made.unwrapped
            ok(type(env) is GymEnvironment, 'unwrapped type')
            ok(env.state_space is None, 'no state space by default')
            try:
                env.state
            except RuntimeError as e:
                ok('State representation not available' in str(e))
            else:
                ok(False, 'state should not be available')

            twin = build_inner(data)
            env.outer_env.inner_env.set_seed(seed)
            twin.set_seed(seed)
            name = 'default'
            ref = Ref(twin.observation_space, 'observation', name)
            check_gym_space(made.observation_space, ref, key)
            twin.reset()
            same_dict(made.reset(), ref.convert(twin.observation), key)
            rnd = random.Random(seed)
            for t in range(30):
                if t in (10, 20):
                    name = {10: 'no-overlap', 20: 'compact'}[t]
                    env.set_observation_representation(name)
                    env.set_state_representation(name)
                    ref = Ref(twin.observation_space, 'observation', name)
                    check_gym_space(env.observation_space, ref, key, name)
                    check_gym_space(
                        env.state_space, Ref(twin.state_space, 'state', name)
                    )
                    same_dict(
                        env.state,
                        Ref(twin.state_space, 'state', name).convert(twin.state),
                    )
                i = rnd.randrange(len(actions))
                o, r, d, info = made.step(i)
                want_r, want_d = twin.step(actions[i])
                ok((r, d, info) == (want_r, want_d, {}), 'step', key, t)
                same_dict(o, ref.convert(twin.observation), key, t)
                ok(env.observation_space.contains(o), 'contains', key, t)
                if d:
                    twin.reset()
                    same_dict(made.reset(), ref.convert(twin.observation), key)
            n += 1
    return n


# ---------------------------------------------------------------------------
# direct checks on the representation layer (the code changed by the commit)
# ---------------------------------------------------------------------------


def sample_objects():
    objs = [NoneGridObject(), Hidden(), Floor(), Wall(), Exit()]
    objs += [Exit(c) for c in Color]
    objs += [Door(s, c) for s in Door.Status for c in Color]
    objs += [Key(c) for c in Color]
    objs += [MovingObstacle()]
    objs += [Telepod(c) for c in Color]
    objs += [Beacon(c) for c in Color]
    return objs


def no_overlap_function_checks():
    """the public helper functions, for many type sets"""
    all_types = [
        NoneGridObject,
        Hidden,
        Floor,
        Wall,
        Exit,
        Door,
        Key,
        MovingObstacle,
        Telepod,
        Beacon,
    ]
    colors = set(Color)
    n = 0
    objs = sample_objects()
    for size in (1, 2, 3, 10):
        for types in itertools.combinations(all_types, size):
            for container in (set, frozenset, list, tuple):
                types_ = container(types)
                max_t = max(tindex(t) for t in types)
                max_s = max(t.num_states() for t in types)
                space = reps.no_overlap_grid_object_representation_space(
                    types_, colors
                )
                ok(space.space_type is SpaceType.CATEGORICAL)
                same_array(space.lower_bound, np.zeros(3, np.int64))
                same_array(
                    space.upper_bound,
                    np.array(
                        [max_t, max_t + max_s + 1, max_t + max_s + 4 + 2],
                        np.int64,
                    ),
                )
                for obj in objs:
                    got = reps.no_overlap_grid_object_representation_convert(
                        types_, colors, obj
                    )
                    want = np.array(
                        [
                            tindex(type(obj)),
                            max_t + obj.state_index + 1,
                            max_t + max_s + obj.color.value + 2,
                        ],
                        np.int64,
                    )
                    same_array(got, want, types, obj)
                    n += 1

    # inputs that the function rejects
    for bad in (set(), [], ()):
        try:
            reps.no_overlap_grid_object_representation_convert(
                bad, colors, Floor()
            )
        except ValueError:
            ok(True)
        else:
            ok(False, 'empty types must raise ValueError')
    # a one-shot iterable is exhausted by the first pass: ValueError
    try:
        reps.no_overlap_grid_object_representation_convert(
            iter([Floor, Door]), colors, Floor()
        )
    except ValueError:
        ok(True)
    else:
        ok(False, 'one-shot iterable must raise ValueError')
    # a non grid-object fails with AttributeError *after* the types were read
    try:
        reps.no_overlap_grid_object_representation_convert(
            {Floor}, colors, object()
        )
    except AttributeError:
        ok(True)
    else:
        ok(False, 'non grid-object must raise AttributeError')
    try:
        reps.no_overlap_grid_object_representation_convert(
            set(), colors, object()
        )
    except ValueError:
        ok(True)  # the types are looked at first
    else:
        ok(False)
    return n


def grid_object_representation_checks():
    """the grid-object representation classes of every shipped space"""
    n = 0
    objs = sample_objects()
    for key, data in list(SHIPPED.items()) + list(EXTRA.items()):
        inner = build_inner(data)
        for kind, space, module, classes in (
            (
                'observation',
                inner.observation_space,
                o_reps,
                {
                    'default': o_reps.DefaultGridObjectObservationRepresentation,
                    'no-overlap': o_reps.NoOverlapGridObjectObservationRepresentation,
                    'compact': o_reps.CompactGridObjectObservationRepresentation,
                },
            ),
            (
                'state',
                inner.state_space,
                s_reps,
                {
                    'default': s_reps.DefaultGridObjectStateRepresentation,
                    'no-overlap': s_reps.NoOverlapGridObjectStateRepresentation,
                    'compact': s_reps.CompactGridObjectStateRepresentation,
                },
            ),
        ):
            for name, cls in classes.items():
                ref = Ref(space, kind, name)
                rep = cls(space)
                rep2 = cls(space)  # a second instance in the same process
                for r in (rep, rep2, rep):
                    s = r.space
                    same_array(s.lower_bound, np.zeros(3, np.int64))
                    same_array(
                        s.upper_bound, np.array(ref.obj_upper(), np.int64)
                    )
                    ok(r.space is not s, 'space is rebuilt at every access')
                    ok(not np.shares_memory(r.space.upper_bound, s.upper_bound))
                for obj in objs:
                    t = tindex(type(obj))
                    known = type(obj) in ref.types and (
                        obj.color in ref.colors
                    )
                    if name == 'compact' and not known:
                        continue  # tables do not cover foreign objects
                    want = np.array(ref.obj(obj), np.int64)
                    a, b = rep.convert(obj), rep.convert(obj)
                    same_array(a, want, key, kind, name, obj)
                    same_array(b, want, key, kind, name, obj)
                    ok(a is not b and not np.shares_memory(a, b), 'fresh')
                    same_array(rep2.convert(obj), want)
                    if name == 'no-overlap':
                        # the class agrees with the public function on the
                        # very same sets it stores
                        same_array(
                            reps.no_overlap_grid_object_representation_convert(
                                rep._grid_object_types,
                                rep._grid_object_colors,
                                obj,
                            ),
                            want,
                        )
                    if known and name != 'default':
                        ok(np.all(want <= rep.space.upper_bound), 'in space')
                    n += 1
                    del t
    return n


def grid_space_checks():
    """Grid*Representation.space: fresh, unshared arrays at every access"""
    n = 0
    for key, data in list(SHIPPED.items()) + list(EXTRA.items()):
        inner = build_inner(data)
        for kind, space, make in (
            ('observation', inner.observation_space, make_observation_representation),
            ('state', inner.state_space, make_state_representation),
        ):
            for name in NAMES:
                ref = Ref(space, kind, name)
                rep = make(name, space)
                first = rep.space
                check_outer_space(first, ref, key, kind, name)
                grid_rep = rep.representations['grid']
                g1, g2 = grid_rep.space, grid_rep.space
                ok(g1 is not g2)
                for a, b in itertools.combinations(
                    [
                        g1.lower_bound,
                        g1.upper_bound,
                        g2.lower_bound,
                        g2.upper_bound,
                        grid_rep.grid_object_representation.space.lower_bound,
                        grid_rep.grid_object_representation.space.upper_bound,
                    ],
                    2,
                ):
                    ok(not np.shares_memory(a, b), 'shared bounds')
                ok(g1.lower_bound.flags.writeable and g1.upper_bound.flags.writeable)
                # scribbling on a returned space does not affect the next one
                g1.lower_bound[...] = 99
                g1.upper_bound[...] = -99
                first['item'].upper_bound[...] = -5
                check_outer_space(rep.space, ref, key, kind, name, 'again')
                check_gym_space(outer_space_to_gym_space(rep.space), ref)
                n += 1
    return n


class TwoChannelRepresentation(o_reps.GridObjectObservationRepresentation):
    """a user-defined grid-object representation (continuous, 2 channels)"""

    def __init__(self, observation_space):
        super().__init__(observation_space)
        self.space_accesses = 0

    @property
    def space(self):
        self.space_accesses += 1
        return Space.make_continuous_space(
            np.array([0.0, -1.0]), np.array([50.0, 1.0])
        )

    def convert(self, grid_object):
        return np.array(
            [grid_object.type_index() + 0.5, -1.0 + grid_object.color.value / 2]
        )


def custom_representation_checks():
    """Grid*Representation with a representation it has never heard of"""
    n = 0
    for key in ('X-Keydoor-6x9-behind-view', 'GV-Memory-5x5-v0', 'X-Empty-4x9'):
        data = EXTRA.get(key) or SHIPPED[key]
        inner = build_inner(data)
        inner.set_seed(9)
        inner.reset()
        space = inner.observation_space
        custom = TwoChannelRepresentation(space)
        grid_rep = o_reps.GridObservationRepresentation(space, custom)
        item_rep = o_reps.ItemObservationRepresentation(space, custom)
        h, w = space.grid_shape.height, space.grid_shape.width
        s = grid_rep.space
        ok(s.space_type is SpaceType.CONTINUOUS)
        same_array(s.lower_bound, np.tile(np.array([0.0, -1.0]), (h, w, 1)))
        same_array(s.upper_bound, np.tile(np.array([50.0, 1.0]), (h, w, 1)))
        same_array(item_rep.space.upper_bound, np.array([50.0, 1.0]))
        for _ in range(6):
            obs = inner.observation
            got = grid_rep.convert(obs)
            want = np.zeros((h, w, 2), dtype=np.int64)
            for y in range(h):
                for x in range(w):
                    o = obs.grid.objects[y][x]
                    # np.array(..., int) truncates towards zero
                    want[y, x, 0] = int(tindex(type(o)) + 0.5)
                    want[y, x, 1] = int(-1.0 + o.color.value / 2)
            same_array(got, want, key)
            inner.step(inner.action_space.actions[0])
            n += 1
    return n


def late_registration_check():
    """types registered after a representation was built do not affect it"""
    data = SHIPPED['GV-Keydoor-5x5-v0']
    inner = build_inner(data)
    inner.set_seed(1)
    inner.reset()
    o_rep = make_observation_representation('no-overlap', inner.observation_space)
    s_rep = make_state_representation('no-overlap', inner.state_space)
    before_o = o_rep.convert(inner.observation)
    before_s = s_rep.convert(inner.state)
    before_space = o_rep.space

    class LateObject(GridObject):  # registers itself, with the largest index
        state_index = 0
        color = Color.NONE
        blocks_movement = False
        blocks_vision = False
        holdable = False

        @classmethod
        def can_be_represented_in_state(cls):
            return True

        @classmethod
        def num_states(cls):
            return 9

    ok(LateObject.type_index() == len(grid_object_registry) - 1)
    same_dict(o_rep.convert(inner.observation), before_o, 'late obs')
    same_dict(s_rep.convert(inner.state), before_s, 'late state')
    for k in before_space:
        same_array(o_rep.space[k].upper_bound, before_space[k].upper_bound)
    same_dict(
        before_o,
        Ref(inner.observation_space, 'observation', 'no-overlap').convert(
            inner.observation
        ),
    )
    # a space which does include the late type: larger offsets
    from gym_gridverse.spaces import ObservationSpace

    space = ObservationSpace(
        inner.observation_space.grid_shape,
        list(inner.observation_space.object_types) + [LateObject],
        inner.observation_space.colors,
    )
    ref = Ref(space, 'observation', 'no-overlap')
    ok(ref.max_s == 9 and ref.max_t == LateObject.type_index())
    rep = make_observation_representation('no-overlap', space)
    check_outer_space(rep.space, ref, 'late space')
    same_dict(rep.convert(inner.observation), ref.convert(inner.observation))
    ok(rep.space['grid'].contains(rep.convert(inner.observation)['grid']))
    return 1


def main():
    counts = {
        'no_overlap_function': no_overlap_function_checks(),
        'grid_object_representation': grid_object_representation_checks(),
        'grid_space': grid_space_checks(),
        'custom_representation': custom_representation_checks(),
        'gym_level_episodes': gym_level_checks(),
        'registered_id_runs': registered_id_checks(),
        'late_registration': late_registration_check(),
    }
    print('counts:', counts)
    print('assertions checked:', N_CHECKS)
    print('OK')


if __name__ == '__main__':
    main()
