"""Behaviour check for the stochastic dynamics (moving obstacles, telepods).

Run as:  cd /tmp/wt3-C11 && /venv/bin/python -W ignore _seed/A/demo.py

The program drives the public API of gym_gridverse (transition functions
``move_obstacles``, ``teleport``, ``chain``, ``factory``,
``transition_with_copy``; ``Grid.swap``; ``get_manhattan_boundary``) and
compares every result with an independent re-implementation that lives in this
file and works on plain dictionaries of tokens.  Randomness is handled in two
complementary ways:

* a scripted random source enumerates EVERY resolution of every random choice
  (exhaustive outcome trees on all small layouts);
* real numpy generators (many seeds) are used on larger random layouts, and
  the generator state after the call is compared with the state of a twin
  generator consumed by the reference model (same number/order of draws).

FOCUS selects which part gets the biggest workload.
"""
import itertools
import os
import random
import sys

sys.path.insert(0, os.getcwd())

import numpy.random as rnd  # noqa: E402

from gym_gridverse.action import Action  # noqa: E402
from gym_gridverse.agent import Agent  # noqa: E402
from gym_gridverse.envs import reset_functions  # noqa: E402
from gym_gridverse.envs.transition_functions import (  # noqa: E402
    chain,
    factory,
    move_obstacles,
    teleport,
    transition_function_registry,
    transition_with_copy,
)
from gym_gridverse.geometry import (  # noqa: E402
    Orientation,
    Position,
    Shape,
    get_manhattan_boundary,
)
from gym_gridverse.grid import Grid  # noqa: E402
from gym_gridverse.grid_object import (  # noqa: E402
    Beacon,
    Box,
    Color,
    Door,
    Exit,
    Floor,
    Key,
    MovingObstacle,
    Telepod,
    Wall,
)
from gym_gridverse.rng import make_rng, reset_gv_rng  # noqa: E402
from gym_gridverse.state import State  # noqa: E402

FOCUS = 'obstacles'  # 'obstacles' | 'teleport' | 'geometry'

ACTIONS = list(Action)
ORIENTATIONS = list(Orientation)
COUNTS = {}


def count(name, n=1):
    COUNTS[name] = COUNTS.get(name, 0) + n


# --------------------------------------------------------------------------
# subclasses: isinstance-based rules must also cover these
# --------------------------------------------------------------------------


class Carpet(Floor):
    """a floor by inheritance"""


class FastObstacle(MovingObstacle):
    """a moving obstacle by inheritance"""


class SuperPod(Telepod):
    """a telepod by inheritance"""


# symbolic cell codes -> (constructor, model kind)
#   kind '.'  floor,  'O' moving obstacle,  'T<colour>' telepod,  'X' other
TELE_COLOURS = {
    'r': Color.RED,
    'g': Color.GREEN,
    'b': Color.BLUE,
    'y': Color.YELLOW,
    'n': Color.NONE,
}
MAKERS = {
    '.': (Floor, '.'),
    ',': (Carpet, '.'),
    '#': (Wall, 'X'),
    'E': (Exit, 'X'),
    'K': (lambda: Key(Color.RED), 'X'),
    'D': (lambda: Door(Door.Status.CLOSED, Color.RED), 'X'),
    'B': (lambda: Box(Floor()), 'X'),
    'M': (lambda: Box(MovingObstacle()), 'X'),
    'c': (lambda: Beacon(Color.RED), 'X'),
    'O': (MovingObstacle, 'O'),
    'Q': (FastObstacle, 'O'),
    'R': (lambda: SuperPod(Color.RED), 'Tr'),
}
for _code, _colour in TELE_COLOURS.items():
    MAKERS[_code] = ((lambda c=_colour: Telepod(c)), 'T' + _code)
COLOUR_CODES = {colour: code for code, colour in TELE_COLOURS.items()}


def build_state(layout, agent_yx=(0, 0), orientation=Orientation.F, held=None):
    """layout: sequence of equally long strings of cell codes"""
    objects = [[MAKERS[code][0]() for code in row] for row in layout]
    grid = Grid(objects)
    agent = Agent(Position(*agent_yx), orientation, held)
    return State(grid, agent)


def model_of_layout(layout):
    """token dictionary {(y, x): (kind, uid)}; uid is the original cell"""
    return {
        (y, x): (MAKERS[code][1], (y, x))
        for y, row in enumerate(layout)
        for x, code in enumerate(row)
    }


def model_of_state(state):
    """token dictionary built from a library state (exact kinds by isinstance)"""
    cells = {}
    for y in range(state.grid.shape.height):
        for x in range(state.grid.shape.width):
            obj = state.grid[y, x]
            if isinstance(obj, Floor):
                kind = '.'
            elif isinstance(obj, MovingObstacle):
                kind = 'O'
            elif isinstance(obj, Telepod):
                kind = 'T' + COLOUR_CODES[obj.color]
            else:
                kind = 'X'
            cells[y, x] = (kind, (y, x))
    return cells


def snapshot(state):
    h, w = state.grid.shape.height, state.grid.shape.width
    return {(y, x): state.grid[y, x] for y in range(h) for x in range(w)}


# --------------------------------------------------------------------------
# independent reference model
# --------------------------------------------------------------------------

NESW = ((-1, 0), (0, 1), (1, 0), (0, -1))  # up, right, down, left


def ref_move_obstacles(cells, h, w, rng, log=None):
    todo = [
        (y, x) for y in range(h) for x in range(w) if cells[y, x][0] == 'O'
    ]
    for y, x in todo:
        free = []
        for dy, dx in NESW:
            ny, nx = y + dy, x + dx
            if 0 <= ny < h and 0 <= nx < w and cells[ny, nx][0] == '.':
                free.append((ny, nx))
        if free:
            target = free[int(rng.choice(len(free)))]
            cells[y, x], cells[target] = cells[target], cells[y, x]
        else:
            target = None
        if log is not None:
            log.append(((y, x), tuple(free), target))


def ref_teleport(cells, h, w, agent_yx, rng):
    kind = cells[agent_yx][0]
    if not kind.startswith('T'):
        return agent_yx
    partners = [
        (y, x)
        for y in range(h)
        for x in range(w)
        if (y, x) != agent_yx and cells[y, x][0] == kind
    ]
    if not partners:
        return agent_yx
    return partners[int(rng.choice(len(partners)))]


# --------------------------------------------------------------------------
# scripted random source: enumerates every resolution of every choice
# --------------------------------------------------------------------------


class ScriptRng:
    """duck-typed stand-in for numpy Generator (only ``choice(n)``)

    ``choice(0)`` raises ValueError like numpy does and is not counted as a
    draw (numpy does not consume randomness in that case either).
    """

    def __init__(self, script=()):
        self.script = list(script)
        self.calls = []  # the n of every real draw, in order
        self.used = []  # the value returned by every real draw

    def choice(self, n, *args, **kwargs):
        assert not args and not kwargs, 'unexpected extra arguments to choice'
        n = int(n)
        if n <= 0:
            raise ValueError(
                'a must be a positive integer unless no samples are taken'
            )
        k = len(self.calls)
        value = self.script[k] if k < len(self.script) else 0
        assert 0 <= value < n, 'script does not match the draw sequence'
        self.calls.append(n)
        self.used.append(value)
        return value


def enumerate_scripts(run):
    """run(script) -> ScriptRng after the run; yields each complete script"""
    script = []
    while True:
        rng = run(script)
        full = list(rng.used)
        yield full, list(rng.calls)
        # odometer increment with truncation
        k = len(full) - 1
        while k >= 0 and full[k] + 1 >= rng.calls[k]:
            k -= 1
        if k < 0:
            return
        script = full[:k] + [full[k] + 1]


# --------------------------------------------------------------------------
# comparing library and model
# --------------------------------------------------------------------------


def assert_grid_matches(state, before, cells):
    for yx, (kind, uid) in cells.items():
        assert state.grid[yx] is before[uid], (yx, kind, uid)


def check_obstacle_rules(log, cells_before, cells_after, h, w):
    """direct statement of the property on the trace of one outcome"""
    obstacles_before = sorted(
        uid for (kind, uid) in cells_before.values() if kind == 'O'
    )
    obstacles_after = sorted(
        uid for (kind, uid) in cells_after.values() if kind == 'O'
    )
    assert obstacles_before == obstacles_after  # none lost / duplicated
    assert sorted(v[1] for v in cells_before.values()) == sorted(
        v[1] for v in cells_after.values()
    )
    assert sorted(p for p, _, _ in log) == obstacles_before  # one turn each
    where = {uid: yx for yx, (kind, uid) in cells_after.items()}
    for start, free, target in log:
        end = where[start]
        if free:
            assert target in free and end == target  # not moved twice
            assert abs(end[0] - start[0]) + abs(end[1] - start[1]) == 1
        else:
            assert target is None and end == start
        assert cells_after[end][0] == 'O'
    # everything that is neither obstacle nor a floor swapped by an obstacle
    # is where it was
    for yx, (kind, uid) in cells_after.items():
        if kind not in ('O', '.'):
            assert uid == yx


def run_obstacles_scripted(layout, agent_yx, orientation, action):
    """exhaustive outcome tree of one layout, library vs model"""
    h, w = len(layout), len(layout[0])
    outcomes_lib = set()
    first_targets = set()
    first_free = None

    def run(script):
        nonlocal first_free
        state = build_state(layout, agent_yx, orientation)
        before = snapshot(state)
        agent_obj = state.agent
        position_obj = state.agent.position
        rng = ScriptRng(script)
        result = move_obstacles(state, action, rng=rng)
        assert result is None
        # model, driven by the very same choices
        cells = model_of_layout(layout)
        cells_before = dict(cells)
        log = []
        rng_model = ScriptRng(rng.used)
        ref_move_obstacles(cells, h, w, rng_model, log)
        assert rng_model.calls == rng.calls, (rng_model.calls, rng.calls)
        assert_grid_matches(state, before, cells)
        check_obstacle_rules(log, cells_before, cells, h, w)
        # agent untouched
        assert state.agent is agent_obj
        assert state.agent.position is position_obj
        assert state.agent.position == Position(*agent_yx)
        assert state.agent.orientation is orientation
        outcomes_lib.add(
            tuple(sorted((yx, uid) for yx, (_, uid) in cells.items()))
        )
        if log:
            first_free = log[0][1]
            if log[0][2] is not None:
                first_targets.add(log[0][2])
        return rng

    n = 0
    scripts = set()
    for full, calls in enumerate_scripts(run):
        n += 1
        assert tuple(full) not in scripts
        scripts.add(tuple(full))
    # every free neighbour of the first obstacle is a possible destination
    if first_free is not None:
        assert first_targets == set(first_free)
    # the model's own recursive enumeration gives the same set of outcomes
    outcomes_model = set()
    expand_obstacle_outcomes(model_of_layout(layout), h, w, outcomes_model)
    assert outcomes_model == outcomes_lib, (layout,)
    count('obstacle outcomes (scripted)', n)
    return n


def expand_obstacle_outcomes(cells, h, w, out):
    """set of reachable final grids, by plain recursion (no rng object)"""
    todo = [
        (y, x) for y in range(h) for x in range(w) if cells[y, x][0] == 'O'
    ]

    def rec(cells, k):
        if k == len(todo):
            out.add(tuple(sorted((yx, uid) for yx, (_, uid) in cells.items())))
            return
        y, x = todo[k]
        free = [
            (y + dy, x + dx)
            for dy, dx in NESW
            if (y + dy, x + dx) in cells and cells[y + dy, x + dx][0] == '.'
        ]
        if not free:
            rec(cells, k + 1)
        for target in free:
            nxt = dict(cells)
            nxt[y, x], nxt[target] = nxt[target], nxt[y, x]
            rec(nxt, k + 1)

    rec(cells, 0)


def all_layouts(h, w, alphabet, max_of=None):
    for codes in itertools.product(alphabet, repeat=h * w):
        if max_of is not None:
            code, limit = max_of
            if codes.count(code) > limit:
                continue
        yield [''.join(codes[r * w : (r + 1) * w]) for r in range(h)]


def exhaustive_obstacles(shapes, max_obstacles):
    k = 0
    for h, w in shapes:
        for layout in all_layouts(h, w, '.#O', ('O', max_obstacles)):
            if not any('O' in row for row in layout):
                continue
            k += 1
            agent_yx = (k % h, (k // h) % w)
            run_obstacles_scripted(
                layout,
                agent_yx,
                ORIENTATIONS[k % 4],
                ACTIONS[k % len(ACTIONS)],
            )
            count('obstacle layouts (exhaustive)')


def random_layout(rnd_py, h, w, alphabet, weights):
    return [
        ''.join(rnd_py.choices(alphabet, weights=weights, k=w))
        for _ in range(h)
    ]


def same_generator_state(a, b):
    sa, sb = a.bit_generator.state, b.bit_generator.state
    return repr(sa) == repr(sb)


def seeded_obstacles(num_layouts, seeds_per_layout):
    rnd_py = random.Random(20240611)
    alphabet = '.,#OQEKDBMcrgR'
    weights = [30, 6, 8, 14, 4, 2, 2, 2, 2, 2, 2, 3, 2, 2]
    for k in range(num_layouts):
        h, w = rnd_py.randint(1, 7), rnd_py.randint(1, 8)
        layout = random_layout(rnd_py, h, w, alphabet, weights)
        for s in range(seeds_per_layout):
            seed = 1000 * k + s
            action = ACTIONS[(k + s) % len(ACTIONS)]
            agent_yx = (rnd_py.randrange(h), rnd_py.randrange(w))
            orientation = ORIENTATIONS[(k + s) % 4]
            mode = s % 3  # explicit rng / library rng / factory-made function
            state = build_state(layout, agent_yx, orientation, Key(Color.BLUE))
            before = snapshot(state)
            held = state.agent.grid_object
            if mode == 0:
                rng = make_rng(seed)
                move_obstacles(state, action, rng=rng)
            elif mode == 1:
                rng = reset_gv_rng(seed)
                move_obstacles(state, action)
            else:
                rng = make_rng(seed)
                factory('move_obstacles')(state, action, rng=rng)
            twin = make_rng(seed)
            cells = model_of_layout(layout)
            cells_before = dict(cells)
            log = []
            ref_move_obstacles(cells, h, w, twin, log)
            assert_grid_matches(state, before, cells)
            check_obstacle_rules(log, cells_before, cells, h, w)
            assert same_generator_state(rng, twin)
            assert state.agent.position == Position(*agent_yx)
            assert state.agent.orientation is orientation
            assert state.agent.grid_object is held
            count('obstacle runs (numpy seeds)')


def reset_function_obstacles(num):
    """layouts produced by the library's own reset function"""
    for k in range(num):
        h, w = 4 + k % 5, 4 + (k // 5) % 5
        vacant = (h - 2) * (w - 2) - 2
        n_obs = 1 + k % max(1, min(vacant, 6))
        state = reset_functions.dynamic_obstacles(
            Shape(h, w), n_obs, random_agent=bool(k % 2), rng=make_rng(k)
        )
        for step in range(6):
            cells = model_of_state(state)
            cells_before = dict(cells)
            before = snapshot(state)
            seed = 77 * k + step
            rng, twin = make_rng(seed), make_rng(seed)
            agent_yx = state.agent.position.yx
            move_obstacles(state, ACTIONS[step % len(ACTIONS)], rng=rng)
            log = []
            ref_move_obstacles(cells, h, w, twin, log)
            assert_grid_matches(state, before, cells)
            check_obstacle_rules(log, cells_before, cells, h, w)
            assert same_generator_state(rng, twin)
            assert state.agent.position.yx == agent_yx
            assert len(log) == n_obs
            count('obstacle runs (reset-function layouts)')


# --------------------------------------------------------------------------
# teleport
# --------------------------------------------------------------------------


def run_teleport_scripted(layout, agent_yx, orientation, action):
    h, w = len(layout), len(layout[0])
    cells = model_of_layout(layout)
    destinations = set()

    def run(script):
        state = build_state(layout, agent_yx, orientation, Key(Color.GREEN))
        before = snapshot(state)
        agent_obj = state.agent
        held = state.agent.grid_object
        rng = ScriptRng(script)
        result = teleport(state, action, rng=rng)
        assert result is None
        rng_model = ScriptRng(rng.used)
        expected = ref_teleport(cells, h, w, agent_yx, rng_model)
        assert rng_model.calls == rng.calls, (rng_model.calls, rng.calls)
        assert state.agent.position == Position(*expected), (layout, agent_yx)
        assert isinstance(state.agent.position, Position)
        assert state.agent is agent_obj
        assert state.agent.orientation is orientation
        assert state.agent.grid_object is held
        assert_grid_matches(state, before, cells)  # the grid never changes
        destinations.add(state.agent.position.yx)
        return rng

    n = sum(1 for _ in enumerate_scripts(run))
    # statement of the property, independent of ref_teleport
    code = layout[agent_yx[0]][agent_yx[1]]
    kind = MAKERS[code][1]
    partners = {
        yx
        for yx, (other, _) in cells.items()
        if kind.startswith('T') and other == kind and yx != agent_yx
    }
    if partners:
        assert destinations == partners and n == len(partners)
    else:
        assert destinations == {agent_yx} and n == 1
    count('teleport outcomes (scripted)', n)


def exhaustive_teleport(shapes, alphabet):
    k = 0
    for h, w in shapes:
        for layout in all_layouts(h, w, alphabet):
            for y in range(h):
                for x in range(w):
                    k += 1
                    run_teleport_scripted(
                        layout,
                        (y, x),
                        ORIENTATIONS[k % 4],
                        ACTIONS[k % len(ACTIONS)],
                    )
            count('teleport layouts (exhaustive)')


def seeded_teleport(num_layouts, seeds_per_pose):
    rnd_py = random.Random(987654321)
    alphabet = '.,#OrgbynRcE'
    weights = [20, 3, 5, 5, 10, 8, 5, 3, 3, 4, 2, 2]
    for k in range(num_layouts):
        h, w = rnd_py.randint(1, 6), rnd_py.randint(1, 7)
        layout = random_layout(rnd_py, h, w, alphabet, weights)
        cells = model_of_layout(layout)
        for y in range(h):
            for x in range(w):
                for s in range(seeds_per_pose):
                    seed = 31 * k + 7 * (y * w + x) + s
                    action = ACTIONS[(k + s + x) % len(ACTIONS)]
                    orientation = ORIENTATIONS[(s + y) % 4]
                    state = build_state(layout, (y, x), orientation)
                    before = snapshot(state)
                    mode = s % 3
                    if mode == 0:
                        rng = make_rng(seed)
                        teleport(state, action, rng=rng)
                    elif mode == 1:
                        rng = reset_gv_rng(seed)
                        teleport(state, action)
                    else:
                        rng = make_rng(seed)
                        transition_function_registry['teleport'](
                            state, action, rng=rng
                        )
                    twin = make_rng(seed)
                    expected = ref_teleport(cells, h, w, (y, x), twin)
                    assert state.agent.position == Position(*expected)
                    assert state.agent.orientation is orientation
                    assert same_generator_state(rng, twin)
                    assert_grid_matches(state, before, cells)
                    count('teleport runs (numpy seeds)')


def reset_function_teleport(num):
    for k in range(num):
        h, w = 5 + k % 4, 5 + (k // 4) % 4
        state = reset_functions.teleport(Shape(h, w), rng=make_rng(k))
        cells = model_of_state(state)
        pods = [yx for yx, (kind, _) in cells.items() if kind.startswith('T')]
        assert len(pods) == 2
        for here, there in (pods, pods[::-1]):
            for seed in range(3):
                state.agent.position = Position(*here)
                teleport(state, ACTIONS[seed], rng=make_rng(seed))
                assert state.agent.position.yx == there
                count('teleport runs (reset-function layouts)')
        state.agent.position = Position(1, 1)
        if (1, 1) not in pods:
            teleport(state, Action.MOVE_FORWARD, rng=make_rng(0))
            assert state.agent.position.yx == (1, 1)


# --------------------------------------------------------------------------
# composition: chain / transition_with_copy
# --------------------------------------------------------------------------


def composition(num_layouts, seeds):
    rnd_py = random.Random(55)
    alphabet = '.#OrgE'
    weights = [12, 2, 4, 4, 3, 1]
    for k in range(num_layouts):
        h, w = rnd_py.randint(2, 5), rnd_py.randint(2, 6)
        layout = random_layout(rnd_py, h, w, alphabet, weights)
        for seed in range(seeds):
            agent_yx = (rnd_py.randrange(h), rnd_py.randrange(w))
            order = (seed + k) % 2
            functions = [move_obstacles, teleport]
            if order:
                functions.reverse()
            state = build_state(layout, agent_yx, ORIENTATIONS[seed % 4])
            rng, twin = make_rng(seed), make_rng(seed)
            action = ACTIONS[seed % len(ACTIONS)]
            next_state = transition_with_copy(
                lambda s, a, *, rng=None: chain(
                    s, a, transition_functions=functions, rng=rng
                ),
                state,
                action,
                rng=rng,
            )
            # the input state is untouched (copy semantics)
            unchanged = model_of_state(state)
            for yx, (kind, _) in model_of_layout(layout).items():
                assert unchanged[yx][0] == kind
            assert state.agent.position.yx == agent_yx
            cells = model_of_layout(layout)
            pos = agent_yx
            if order:
                pos = ref_teleport(cells, h, w, pos, twin)
                ref_move_obstacles(cells, h, w, twin)
            else:
                ref_move_obstacles(cells, h, w, twin)
                pos = ref_teleport(cells, h, w, pos, twin)
            got = model_of_state(next_state)
            for yx, (kind, _) in cells.items():
                assert got[yx][0] == kind, (layout, yx)
            assert next_state.agent.position.yx == pos
            assert same_generator_state(rng, twin)
            count('chain runs')


# --------------------------------------------------------------------------
# geometry helpers used by the dynamics
# --------------------------------------------------------------------------


def walk_boundary(y, x, d):
    """independent construction: walk around the diamond, clockwise from top"""
    out = []
    cy, cx = y - d, x
    for dy, dx in ((1, 1), (1, -1), (-1, -1), (-1, 1)):
        for _ in range(d):
            out.append((cy, cx))
            cy, cx = cy + dy, cx + dx
    assert (cy, cx) == (y - d, x)
    return out


def geometry_checks(max_distance, span):
    for d in range(1, max_distance + 1):
        for y in range(-span, span + 1):
            for x in range(-span, span + 1):
                got = get_manhattan_boundary(Position(y, x), d)
                assert type(got) is list
                assert all(type(p) is Position for p in got)
                assert [p.yx for p in got] == walk_boundary(y, x, d)
                assert len(set(got)) == 4 * d
                assert all(
                    abs(p.y - y) + abs(p.x - x) == d for p in got
                )
                got_kw = get_manhattan_boundary(
                    position=Position(y, x), distance=d
                )
                assert got_kw == got
                count('boundary calls')
    assert [p.yx for p in get_manhattan_boundary(Position(3, 5), 1)] == [
        (2, 5),
        (3, 6),
        (4, 5),
        (3, 4),
    ]
    for bad in (0, -1, -7):
        try:
            get_manhattan_boundary(Position(0, 0), bad)
        except ValueError as error:
            assert str(error) == f'distance ({bad}) must be positive'
        else:
            raise AssertionError('non-positive distance accepted')


def swap_checks(shapes):
    for h, w in shapes:
        cells = [(y, x) for y in range(h) for x in range(w)]
        for p, q in itertools.product(cells, repeat=2):
            for as_tuple in (False, True):
                grid = Grid(
                    [
                        [
                            (Wall, Floor, MovingObstacle)[(y + x) % 3]()
                            for x in range(w)
                        ]
                        for y in range(h)
                    ]
                )
                before = {yx: grid[yx] for yx in cells}
                if as_tuple:
                    result = grid.swap(p, q)
                else:
                    result = grid.swap(Position(*p), Position(*q))
                assert result is None
                for yx in cells:
                    src = q if yx == p else p if yx == q else yx
                    assert grid[yx] is before[src]
                count('swap calls')
        # out-of-range positions raise and leave the grid untouched
        grid = Grid.from_shape((h, w))
        before = {yx: grid[yx] for yx in cells}
        for p, q in (
            (Position(0, 0), Position(h, 0)),
            (Position(0, w), Position(0, 0)),
            (Position(h, 0), Position(0, w)),
        ):
            try:
                grid.swap(p, q)
            except IndexError:
                pass
            else:
                raise AssertionError('out-of-range swap accepted')
            assert all(grid[yx] is before[yx] for yx in cells)


# --------------------------------------------------------------------------


def main():
    big = FOCUS
    # obstacles
    if big in ('obstacles', 'geometry'):
        exhaustive_obstacles([(1, 1), (1, 4), (2, 2), (2, 3), (3, 3)], 3)
        exhaustive_obstacles([(2, 2), (1, 5), (2, 3)], 6)
        seeded_obstacles(250, 6)
        reset_function_obstacles(50)
    else:
        exhaustive_obstacles([(1, 1), (1, 3), (2, 2), (2, 3)], 4)
        seeded_obstacles(80, 6)
        reset_function_obstacles(20)
    # teleport
    if big == 'teleport':
        exhaustive_teleport([(1, 1), (1, 4), (2, 2)], '.#rgbO')
        exhaustive_teleport([(2, 3)], '.rgR')
        exhaustive_teleport([(3, 3)], '.r')
        seeded_teleport(150, 6)
        reset_function_teleport(32)
    else:
        exhaustive_teleport([(1, 1), (1, 3), (2, 2)], '.#rgO')
        exhaustive_teleport([(2, 3)], '.rg')
        seeded_teleport(40, 6)
        reset_function_teleport(8)
    # composition
    composition(60, 8)
    # geometry
    if big == 'geometry':
        geometry_checks(8, 6)
        swap_checks([(1, 1), (1, 3), (2, 2), (3, 3), (3, 4)])
    else:
        geometry_checks(3, 3)
        swap_checks([(1, 1), (2, 2), (2, 3)])

    for name in sorted(COUNTS):
        print(f'{name}: {COUNTS[name]}')
    print(f'OK (focus: {FOCUS})')


if __name__ == '__main__':
    main()
