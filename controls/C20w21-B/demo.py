# ---------------------------------------------------------------------------
# shared harness: the gym adapter is a faithful view of the wrapped environment
# ---------------------------------------------------------------------------
import glob
import os
import warnings

warnings.filterwarnings('ignore')

import numpy as np  # noqa: E402

REPRESENTATION_NAMES = ['default', 'no-overlap', 'compact']
REPRESENTATION_PAIRS = [
    ('default', 'default'),
    ('no-overlap', 'compact'),
    ('compact', 'no-overlap'),
]


def fail(msg):
    raise SystemExit(f'FAIL: {msg}')


def check(cond, msg):
    if not cond:
        fail(msg)


def dict_equal(a, b):
    return (
        isinstance(a, dict)
        and isinstance(b, dict)
        and a.keys() == b.keys()
        and all(
            a[k].shape == b[k].shape
            and a[k].dtype == b[k].dtype
            and np.array_equal(a[k], b[k])
            for k in a
        )
    )


def in_outer_space(space, x):
    return space.keys() == x.keys() and all(
        space[k].contains(x[k]) for k in space
    )


def gym_spaces_equal(a, b):
    return a.spaces.keys() == b.spaces.keys() and all(
        np.array_equal(a[k].low, b[k].low)
        and np.array_equal(a[k].high, b[k].high)
        and a[k].dtype == b[k].dtype
        and a[k].shape == b[k].shape
        for k in a.spaces
    )


# --- minimal YAML reader (the shipped configurations use a small subset) ----
# PyYAML may be missing; in that case a shim `yaml.safe_load` is installed so
# that the *real* code path (outer_env_factory / registered ids) is exercised.


def _yaml_scalar(tok):
    tok = tok.strip()
    if tok in ('true', 'True'):
        return True
    if tok in ('false', 'False'):
        return False
    if tok in ('null', '~', ''):
        return None
    for cast in (int, float):
        try:
            return cast(tok)
        except ValueError:
            pass
    if tok[0] in '"\'' and tok[-1] == tok[0]:
        return tok[1:-1]
    return tok


def _yaml_flow(text):
    pos = 0

    def parse():
        nonlocal pos
        while text[pos] == ' ':
            pos += 1
        if text[pos] == '[':
            pos += 1
            items = []
            while True:
                while text[pos] == ' ':
                    pos += 1
                if text[pos] == ']':
                    pos += 1
                    return items
                items.append(parse())
                while text[pos] == ' ':
                    pos += 1
                if text[pos] == ',':
                    pos += 1
        start = pos
        while text[pos] not in ',]':
            pos += 1
        return _yaml_scalar(text[start:pos])

    value = parse()
    assert text[pos:].strip() == '', text
    return value


def _yaml_value(text):
    text = text.strip()
    return _yaml_flow(text) if text.startswith('[') else _yaml_scalar(text)


def _yaml_block(lines, i, indent):
    if lines[i][1].startswith('- '):
        items = []
        while i < len(lines) and lines[i][0] == indent:
            assert lines[i][1].startswith('- '), lines[i]
            rest = lines[i][1][2:].strip()
            if ':' in rest and not rest.startswith('['):
                lines[i] = (indent + 2, rest)
                value, i = _yaml_block(lines, i, indent + 2)
                items.append(value)
            else:
                items.append(_yaml_value(rest))
                i += 1
        return items, i

    mapping = {}
    while i < len(lines) and lines[i][0] == indent:
        key, sep, rest = lines[i][1].partition(':')
        assert sep == ':', lines[i]
        if rest.strip():
            mapping[key.strip()] = _yaml_value(rest)
            i += 1
        else:
            i += 1
            assert lines[i][0] >= indent, lines[i]
            mapping[key.strip()], i = _yaml_block(lines, i, lines[i][0])
    assert i == len(lines) or lines[i][0] < indent, lines[i]
    return mapping, i


def mini_yaml_load(stream):
    text = stream if isinstance(stream, str) else stream.read()
    lines = []
    for raw in text.splitlines():
        raw = raw.split(' #')[0].rstrip()
        if not raw.strip() or raw.lstrip().startswith('#'):
            continue
        lines.append((len(raw) - len(raw.lstrip()), raw.strip()))
    value, i = _yaml_block(lines, 0, lines[0][0])
    assert i == len(lines)
    return value


def ensure_yaml():
    import sys
    import types

    try:
        import yaml

        if not hasattr(yaml, 'safe_load'):
            # e.g. the repository's `yaml/` directory seen as a namespace package
            yaml.safe_load = mini_yaml_load
        return
    except ImportError:
        pass
    shim = types.ModuleType('yaml')
    shim.safe_load = mini_yaml_load
    sys.modules['yaml'] = shim


def yaml_paths():
    import gym_gridverse

    root = os.path.dirname(gym_gridverse.__file__)
    return sorted(glob.glob(os.path.join(root, 'registered_envs', '*.yaml')))


def check_gym_layer(num_seeds=2, num_steps=20):
    """C20 over all shipped configurations x seeds x action sequences x names"""
    ensure_yaml()
    try:
        import gym

        import gym_gridverse.gym as gv_gym
        from gym_gridverse.envs.yaml.factory import factory_env_from_yaml
    except ImportError as e:  # optional dependencies missing
        print(f'gym layer skipped ({e!r})')
        return 0

    from gym_gridverse.representations.observation_representations import (
        make_observation_representation,
    )
    from gym_gridverse.representations.state_representations import (
        make_state_representation,
    )

    paths = yaml_paths()
    check(len(paths) == len(gv_gym.STRING_TO_YAML_FILE), 'yaml files')
    file_to_id = {v: k for k, v in gv_gym.STRING_TO_YAML_FILE.items()}

    count = 0
    for path in paths:
        env_id = file_to_id[os.path.basename(path)]
        envs = [gv_gym.GymEnvironment(gv_gym.outer_env_factory(path))]
        try:
            made = gym.make(env_id, disable_env_checker=True)
            envs.append(made.unwrapped)
        except Exception:
            envs.append(gv_gym.from_factory(gym.envs.registry[env_id].kwargs['factory']))

        for env in envs:
            inner = env.outer_env.inner_env
            actions = inner.action_space.actions
            check(env.action_space.n == len(actions), 'action space size')
            check(env.state_space is None, 'registered env has no state repr')

            for obs_name, state_name in REPRESENTATION_PAIRS:
                if True:
                    env.set_observation_representation(obs_name)
                    env.set_state_representation(state_name)
                    obs_rep = make_observation_representation(
                        obs_name, inner.observation_space
                    )
                    state_rep = make_state_representation(
                        state_name, inner.state_space
                    )
                    check(
                        gym_spaces_equal(
                            env.observation_space,
                            gv_gym.outer_space_to_gym_space(obs_rep.space),
                        ),
                        f'{env_id} observation space {obs_name}',
                    )
                    check(
                        gym_spaces_equal(
                            env.state_space,
                            gv_gym.outer_space_to_gym_space(state_rep.space),
                        ),
                        f'{env_id} state space {state_name}',
                    )
                    wrapped = gv_gym.GymStateWrapper(env)
                    check(
                        wrapped.observation_space is env.state_space,
                        'wrapper space',
                    )

                    for seed in range(num_seeds):
                        # twin inner environment, driven through the inner API
                        twin = factory_env_from_yaml(path)
                        twin.set_seed(seed)
                        twin.reset()

                        try:
                            check(env.seed(seed) == [seed], 'seed')
                        except AttributeError:
                            # installed gym lacks seeding.create_seed
                            inner.set_seed(seed)
                        use_wrapper = seed % 2 == 1
                        front = wrapped if use_wrapper else env
                        first = front.reset()

                        action_rng = np.random.default_rng(1000 + seed)

                        def check_now(out, info, where):
                            check(
                                inner.state == twin.state,
                                f'{env_id} {where}: state differs from twin',
                            )
                            o = obs_rep.convert(twin.observation)
                            s = state_rep.convert(twin.state)
                            check(
                                in_outer_space(obs_rep.space, o)
                                and env.observation_space.contains(o),
                                f'{env_id} {where}: observation not in space',
                            )
                            check(
                                in_outer_space(state_rep.space, s)
                                and env.state_space.contains(s),
                                f'{env_id} {where}: state not in space',
                            )
                            check(dict_equal(env.observation, o), 'obs prop')
                            check(dict_equal(env.state, s), 'state prop')
                            if use_wrapper:
                                check(dict_equal(out, s), f'{where}: wrapper')
                                if info is not None:
                                    check(
                                        info.keys() == {'observation'}
                                        and dict_equal(info['observation'], o),
                                        f'{where}: info observation',
                                    )
                            else:
                                check(dict_equal(out, o), f'{where}: obs')
                                if info is not None:
                                    check(info == {}, 'info')

                        check_now(first, None, 'reset')
                        for t in range(num_steps):
                            i = int(action_rng.integers(len(actions)))
                            out, reward, done, info = front.step(i)
                            r, d = twin.step(actions[i])
                            check(
                                reward == r and done == d,
                                f'{env_id} step {t}: reward/done',
                            )
                            check_now(out, info, f'step {t}')
                            count += 1
                            if done:
                                twin.reset()
                                check_now(front.reset(), None, 're-reset')
    return count


# ---------------------------------------------------------------------------
# change-specific: random draws of the reset functions
# ---------------------------------------------------------------------------
import hashlib  # noqa: E402


class RecordingRNG:
    """duck-typed generator which logs every call made on the real generator"""

    def __init__(self, seed):
        self._rng = np.random.default_rng(seed)
        self.log = []

    def __getattr__(self, name):
        method = getattr(self._rng, name)

        def wrapper(*args, **kwargs):
            if name == 'shuffle':
                logged_args = (len(args[0]),)
            else:
                logged_args = tuple(
                    len(a) if isinstance(a, (list, tuple)) else int(a)
                    for a in args
                )
            out = method(*args, **kwargs)
            kwargs = dict(kwargs)
            if name == 'integers':
                # endpoint=False is the default: same call
                kwargs.setdefault('endpoint', False)
            self.log.append((name, logged_args, sorted(kwargs.items()), out))
            return out

        return wrapper

    def integers_calls(self):
        return [
            (args[0], args[1], dict(kwargs)['endpoint'], int(out))
            for name, args, kwargs, out in self.log
            if name == 'integers'
        ]


def state_signature(state):
    cells = [
        (
            type(state.grid[p]).__name__,
            int(state.grid[p].state_index),
            state.grid[p].color.name,
        )
        for p in state.grid.area.positions()
    ]
    agent = (
        int(state.agent.position.y),
        int(state.agent.position.x),
        state.agent.orientation.name,
        type(state.agent.grid_object).__name__,
    )
    return (state.grid.shape.height, state.grid.shape.width, cells, agent)


def log_signature(rng):
    return [
        (name, args, kwargs, np.asarray(out).tolist())
        for name, args, kwargs, out in rng.log
    ]


def scenarios():
    from gym_gridverse.envs import reset_functions as R
    from gym_gridverse.geometry import Shape
    from gym_gridverse.grid_object import Color, Wall

    colors = {Color.RED, Color.GREEN, Color.BLUE}
    out = []
    for shape in [(5, 5), (5, 7), (7, 5), (6, 9), (9, 6), (13, 8)]:
        out.append(('keydoor', shape, R.keydoor, {}))
    for shape, layout in [
        ((7, 7), (2, 2)),
        ((9, 13), (2, 3)),
        ((13, 9), (3, 2)),
        ((10, 10), (3, 3)),
        ((5, 11), (1, 4)),
        ((11, 5), (4, 1)),
        ((5, 5), (1, 1)),
    ]:
        out.append((f'rooms{layout}', shape, R.rooms, {'layout': layout}))
        out.append(
            (
                f'memory_rooms{layout}',
                shape,
                R.memory_rooms,
                {
                    'layout': layout,
                    'colors': colors,
                    'num_beacons': 1,
                    'num_exits': 2,
                },
            )
        )
    for shape, n in [((5, 5), 1), ((7, 7), 2), ((5, 9), 3), ((9, 5), 3), ((9, 9), 6)]:
        out.append(
            (
                f'crossing{n}',
                shape,
                R.crossing,
                {'num_rivers': n, 'object_type': Wall},
            )
        )
    return [(n, Shape(*s), f, k) for n, s, f, k in out]


EXPECTED_DIGEST = 'e00da161ad19703842824d5f7eb06b5f763bd5d7c410342039f61b0af6e0de79'


def check_reset_draws(num_seeds=6):
    import gym_gridverse.rng as gv_rng
    from gym_gridverse.envs import reset_functions as R
    from gym_gridverse.geometry import Shape
    from gym_gridverse.grid_object import Floor, Key, Wall

    digest = hashlib.sha256()
    count = 0
    for name, shape, f, kwargs in scenarios():
        for seed in range(num_seeds):
            rec = RecordingRNG(seed)
            state = f(shape, rng=rec, **kwargs)
            # same state with a plain generator, and on repeated calls
            plain = f(shape, rng=np.random.default_rng(seed), **kwargs)
            check(state == plain, f'{name} {shape} seed {seed}: proxy vs plain')
            check(
                state_signature(state) == state_signature(plain), 'signature'
            )
            # module-level generator (rng=None), re-seeded
            gv_rng.reset_gv_rng(seed)
            check(f(shape, **kwargs) == plain, f'{name}: module rng')
            second = f(shape, **kwargs)
            gv_rng.reset_gv_rng(seed)
            check(f(shape, **kwargs) == plain, f'{name}: re-seeding')
            check(f(shape, **kwargs) == second, f'{name}: second draw')

            calls = rec.integers_calls()
            H, W = shape.height, shape.width
            for low, high, endpoint, out in calls:
                check(low <= out < high + endpoint, f'{name}: draw in range')

            if name == 'keydoor':
                x_wall = calls[0][3]
                expected = [
                    (2, W - 3, True),
                    (1, H - 2, True),
                    (1, x_wall - 1, True),
                    (1, H - 2, True),
                    (1, x_wall - 1, True),
                ]
                check([c[:3] for c in calls] == expected, f'keydoor {calls}')
                check(
                    [n for n, *_ in rec.log]
                    == ['integers', 'choice'] + ['integers'] * 4 + ['choice'],
                    'keydoor order of draws',
                )
                check(
                    all(
                        isinstance(state.grid[y, x_wall], Wall)
                        or type(state.grid[y, x_wall]).__name__ == 'Door'
                        for y in range(H)
                    ),
                    'keydoor wall',
                )
                y_key, x_key, y_agent, x_agent = (c[3] for c in calls[1:])
                check(isinstance(state.grid[y_key, x_key], Key), 'key')
                check(
                    (state.agent.position.y, state.agent.position.x)
                    == (y_agent, x_agent),
                    'keydoor agent',
                )

            if name.startswith(('rooms', 'memory_rooms')):
                ly, lx = kwargs['layout']
                ys = np.linspace(0, H - 1, num=ly + 1, dtype=int).tolist()
                xs = np.linspace(0, W - 1, num=lx + 1, dtype=int).tolist()
                expected, cells = [], []
                for y in ys[1:-1]:
                    for x_from, x_to in zip(xs, xs[1:]):
                        expected.append((x_from + 1, x_to, False))
                        cells.append((y, None))
                for y_from, y_to in zip(ys, ys[1:]):
                    for x in xs[1:-1]:
                        expected.append((y_from + 1, y_to, False))
                        cells.append((None, x))
                check([c[:3] for c in calls] == expected, f'{name} {calls}')
                for (y, x), call in zip(cells, calls):
                    y, x = (call[3], x) if y is None else (y, call[3])
                    check(not isinstance(state.grid[y, x], Wall), f'{name} passage')

            if name.startswith('crossing'):
                check(len(calls) == kwargs['num_rivers'], 'crossing draws')
                check(all(not c[2] for c in calls), 'crossing endpoint')

            digest.update(repr(state_signature(state)).encode())
            digest.update(repr(log_signature(rec)).encode())
            count += 1

    # empty ranges are rejected as before
    for shape in [Shape(5, 4), Shape(2, 7), Shape(3, 3)]:
        check(
            raises(ValueError, R.keydoor, shape, rng=np.random.default_rng(0)),
            f'keydoor {shape} must raise ValueError',
        )
    check(
        raises(
            ValueError, R.rooms, Shape(3, 7), (2, 2), rng=np.random.default_rng(0)
        ),
        'rooms with insufficient height',
    )

    helper = getattr(gv_rng, 'integer', None)
    if helper is not None:
        for seed in range(5):
            a, b = np.random.default_rng(seed), np.random.default_rng(seed)
            for low, high in [(0, 1), (1, 2), (3, 9), (-4, 4), (5, 5), (6, 2)]:
                for endpoint in [None, False, True]:
                    kw = {} if endpoint is None else {'endpoint': endpoint}
                    ref_kw = {} if endpoint is None else {'endpoint': endpoint}
                    try:
                        expected = a.integers(low, high, **ref_kw)
                    except ValueError:
                        check(
                            raises(ValueError, helper, b, low, high, **kw),
                            'helper must raise on empty range',
                        )
                    else:
                        got = helper(b, low, high, **kw)
                        check(
                            got == expected and type(got) is type(expected),
                            'helper draw',
                        )
                    check(
                        a.bit_generator.state == b.bit_generator.state,
                        'generator state after draw',
                    )

    got = digest.hexdigest()
    check(got == EXPECTED_DIGEST, f'digest of states and draws changed: {got}')
    return count


def raises(exc, f, *args, **kwargs):
    try:
        f(*args, **kwargs)
    except exc:
        return True
    return False


def main():
    import os
    import sys

    sys.path.insert(0, os.getcwd())
    ensure_yaml()
    n = check_reset_draws()
    print(f'reset functions: {n} (scenario, seed) pairs match the expectations')
    m = check_gym_layer()
    print(f'gym layer: {m} steps checked')
    print('OK')


if __name__ == '__main__':
    main()
