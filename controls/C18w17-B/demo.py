"""Demo for change B (observation wrappers in envs/observation_functions.py).

Checks property C18 (geometry is a consistent algebra of quarter turns and
rigid motions) on the primitives the observation wrappers are built from, and
checks that the wrappers (`from_visibility`, `fully_transparent`,
`partially_occluded`, `raytracing`, `stochastic_raytracing`, `factory`) give
exactly the egocentric observations predicted by the pose algebra and by a
reference implementation embedded here.

Run from the worktree root:  /venv/bin/python _seed/B/demo.py
Exits 0 on the pristine tree and with the patch applied.
"""
import itertools as itt
import os
import sys

sys.path.insert(0, os.getcwd())

import numpy as np  # noqa: E402
import numpy.random as rnd  # noqa: E402

from gym_gridverse.action import Action  # noqa: E402
from gym_gridverse.agent import Agent  # noqa: E402
from gym_gridverse.envs import observation_functions as of  # noqa: E402
from gym_gridverse.envs.utils import get_next_position  # noqa: E402
from gym_gridverse.envs.visibility_functions import (  # noqa: E402
    visibility_function_registry,
)
from gym_gridverse.geometry import (  # noqa: E402
    Area,
    Orientation,
    Position,
    Transform,
)
from gym_gridverse.grid import Grid  # noqa: E402
from gym_gridverse.grid_object import (  # noqa: E402
    Color,
    Exit,
    Floor,
    Hidden,
    Key,
    NoneGridObject,
    Wall,
)
from gym_gridverse.observation import Observation  # noqa: E402
from gym_gridverse.state import State  # noqa: E402

F, R, B, L = Orientation.F, Orientation.R, Orientation.B, Orientation.L
ORIENTATIONS = [F, R, B, L]
checks = 0


def check(condition, message):
    global checks
    checks += 1
    if not condition:
        print('FAIL:', message)
        sys.exit(1)


# ---------------------------------------------------------------------------
# independent reference for the pose algebra (plain integer arithmetic)
# ---------------------------------------------------------------------------


def ref_rotate_yx(o, y, x):
    return {F: (y, x), B: (-y, -x), R: (x, -y), L: (-x, y)}[o]


def ref_pose_yx(pose_yx, o, y, x):
    ry, rx = ref_rotate_yx(o, y, x)
    return (pose_yx[0] + ry, pose_yx[1] + rx)


# ---------------------------------------------------------------------------
# part 1:  the algebra itself (C18)
# ---------------------------------------------------------------------------

COORDS = [-(10**30), -7, -2, -1, 0, 1, 2, 3, 11, 2**63]
POSITIONS = [Position(y, x) for y in COORDS for x in COORDS]
SMALL = [Position(y, x) for y in range(-3, 4) for x in range(-3, 4)]
INTERVALS = [(0, 0), (-1, -1), (0, 1), (-6, 0), (-3, 3), (-2, 5), (4, 9)]
AREAS = [Area(ys, xs) for ys in INTERVALS for xs in INTERVALS]
TRANSFORMS = [
    Transform(p, o)
    for p in [Position(0, 0), Position(1, -2), Position(-5, 3), Position(10**30, -9)]
    for o in ORIENTATIONS
]
IDENTITY = Transform(Position(0, 0), F)

TURNS = {F: 0, R: 1, B: 2, L: 3}
for a, b in itt.product(ORIENTATIONS, repeat=2):
    check(TURNS[a * b] == (TURNS[a] + TURNS[b]) % 4, 'cyclic group')
for a in ORIENTATIONS:
    check(F * a is a and a * F is a, 'FORWARD is the identity')
    check(a * -a is F and -a * a is F, 'inverse orientation')
for a, b, c in itt.product(ORIENTATIONS, repeat=3):
    check((a * b) * c is a * (b * c), 'associativity')
for o in ORIENTATIONS:
    for p in POSITIONS:
        check((o * p).yx == ref_rotate_yx(o, p.y, p.x), 'rotation')
        check(p * o == o * p, 'reflected product')
        check((o * p).y ** 2 + (o * p).x ** 2 == p.y**2 + p.x**2, 'isometry')
        check(-o * (o * p) == p, 'inverse rotation')
    for p, q in itt.product(SMALL[::2], repeat=2):
        check(o * (p + q) == o * p + o * q, 'linearity')
    for area in AREAS:
        check(
            set((o * area).positions()) == {o * p for p in area.positions()},
            'rotated area == rotated positions',
        )
for t in TRANSFORMS:
    check(t * IDENTITY == t and IDENTITY * t == t, 'identity transform')
    check(t * -t == IDENTITY and -t * t == IDENTITY, 'inverse transform')
    for p in SMALL:
        check(
            (t * p).yx == ref_pose_yx(t.position.yx, t.orientation, p.y, p.x),
            'transform * position',
        )
    for area in AREAS:
        check(
            set((t * area).positions()) == {t * p for p in area.positions()},
            'transformed area == transformed positions',
        )
for s, t in itt.product(TRANSFORMS, repeat=2):
    for p in SMALL[::5]:
        check((s * t) * p == s * (t * p), 'composed == successive')
    for area in AREAS[::6]:
        check((s * t) * area == s * (t * area), 'composed == successive (area)')
for s, t, u in itt.product(TRANSFORMS[::3], TRANSFORMS, TRANSFORMS[1::3]):
    check((s * t) * u == s * (t * u), 'transform associativity')

MOVES = {
    Action.MOVE_FORWARD: F,
    Action.MOVE_LEFT: L,
    Action.MOVE_RIGHT: R,
    Action.MOVE_BACKWARD: B,
}
for o in ORIENTATIONS:
    for p in SMALL:
        for action in Action:
            nxt = get_next_position(p, o, action)
            expected = (
                Transform(p, o) * Position.from_orientation(MOVES[action])
                if action in MOVES
                else p
            )
            check(nxt == expected, 'tentative next position')


def make_grid(height, width):
    palette = [
        Floor,
        Floor,
        Wall,
        Exit,
        lambda: Key(Color.NONE),
        lambda: Key(Color.RED),
        Floor,
        lambda: Key(Color.BLUE),
    ]
    return Grid(
        [
            [
                palette[(3 * y + 5 * x + y * x) % len(palette)]()
                for x in range(width)
            ]
            for y in range(height)
        ]
    )


SHAPES = [(1, 1), (1, 5), (5, 1), (2, 3), (3, 2), (4, 4), (4, 7), (7, 4)]
for height, width in SHAPES:
    grid = make_grid(height, width)
    for o in ORIENTATIONS:
        rotated = grid * o
        check(rotated == o * grid, 'reflected grid product')
        image = -o * grid.area
        shift = Position(-image.ymin, -image.xmin)
        for p in grid.area.positions():
            check(rotated[shift + -o * p] is grid[p], 'objects rearranged')
        check(
            rotated.shape.height * rotated.shape.width == height * width,
            'objects preserved',
        )
        check(rotated * -o == grid, 'inverse rotation undoes')

# ---------------------------------------------------------------------------
# part 2:  observation wrappers
# ---------------------------------------------------------------------------


def reference_from_visibility(state, *, area, visibility_function, rng=None):
    """the historical implementation, kept verbatim"""
    pov_area = state.agent.transform * area
    pov_agent_position = Position(-area.ymin, -area.xmin)

    observation_grid = state.grid.subgrid(pov_area) * state.agent.orientation
    visibility = visibility_function(
        observation_grid, pov_agent_position, rng=rng
    )

    if visibility.shape != (area.height, area.width):
        raise ValueError('incorrect visibility shape')

    for pos in observation_grid.area.positions():
        if not visibility[pos.y, pos.x]:
            observation_grid[pos] = Hidden()

    observation_agent = Agent(
        pov_agent_position, Orientation.F, state.agent.grid_object
    )
    return Observation(observation_grid, observation_agent)


def call(function, *args, **kwargs):
    """result or exception type"""
    try:
        return 'ok', function(*args, **kwargs)
    except Exception as error:  # pylint: disable=broad-except
        return 'error', type(error)


def same_observation(a, b):
    return (
        type(a) is Observation
        and type(b) is Observation
        and a.grid.shape == b.grid.shape
        and all(
            type(a.grid[p]) is type(b.grid[p]) and a.grid[p] == b.grid[p]
            for p in a.grid.area.positions()
        )
        and a.agent == b.agent
        and a.agent.orientation is b.agent.orientation
        and type(a.agent.grid_object) is type(b.agent.grid_object)
    )


def check_against_pose_algebra(state, area, observation, visibility=None):
    """every observed cell is the state cell predicted by the pose algebra"""
    check(
        observation.grid.shape.as_tuple == (area.height, area.width),
        'observation shape',
    )
    pov_agent = Position(-area.ymin, -area.xmin)
    check(observation.agent.position == pov_agent, 'pov agent position')
    check(observation.agent.orientation is F, 'pov agent faces forward')
    check(
        observation.agent.grid_object is state.agent.grid_object,
        'held object is passed through',
    )
    pose = state.agent.transform
    for q in observation.grid.area.positions():
        relative = q - pov_agent  # position relative to the agent
        check(area.contains(relative), 'relative position in view area')
        y, x = ref_pose_yx(
            pose.position.yx, pose.orientation, relative.y, relative.x
        )
        check((pose * relative).yx == (y, x), 'pose algebra == reference')
        inside = 0 <= y < state.grid.shape.height and (
            0 <= x < state.grid.shape.width
        )
        visible = visibility is None or visibility[q.y, q.x]
        if inside and visible:
            check(
                observation.grid[q] is state.grid[y, x],
                f'cell {q} shows the object at ({y}, {x})',
            )
        else:
            check(type(observation.grid[q]) is Hidden, f'cell {q} is hidden')


VIEW_AREAS = [
    Area((-6, 0), (-3, 3)),  # default
    Area((-2, 1), (-1, 3)),  # asymmetric
    Area((-1, 2), (-4, 0)),  # asymmetric, agent on the right border
    Area((0, 0), (0, 0)),  # agent only
    Area((-3, 0), (0, 0)),  # a column
    Area((0, 0), (-2, 2)),  # a row
    Area((-9, 9), (-9, 9)),  # larger than any grid
]
OFFSET_AREAS = [  # the agent is not in the area
    Area((1, 2), (1, 3)),
    Area((-4, -2), (2, 2)),
]
HELD = [None, Key(Color.NONE), Key(Color.RED)]


def agent_positions(height, width):
    ys = sorted({0, height // 2, height - 1})
    xs = sorted({0, width // 2, width - 1})
    return [Position(y, x) for y in ys for x in xs]  # corners, borders, middle


WRAPPERS = {
    'fully_transparent': of.fully_transparent,
    'partially_occluded': of.partially_occluded,
    'raytracing': of.raytracing,
    'stochastic_raytracing': of.stochastic_raytracing,
}

n_states = 0
outcomes = {}
for (height, width), held in zip(SHAPES, itt.cycle(HELD)):
    for position in agent_positions(height, width):
        for orientation in ORIENTATIONS:
            n_states += 1

            def make_state():
                return State(
                    make_grid(height, width),
                    Agent(position, orientation, held),
                )

            for area in VIEW_AREAS + OFFSET_AREAS:
                names = (
                    list(WRAPPERS)
                    if area in VIEW_AREAS
                    else ['fully_transparent']
                )
                for name in names:
                    state, state_ref = make_state(), make_state()
                    rng, rng_ref = rnd.default_rng(7), rnd.default_rng(7)
                    status, result = call(
                        WRAPPERS[name], state, area=area, rng=rng
                    )
                    status_ref, result_ref = call(
                        reference_from_visibility,
                        state_ref,
                        area=area,
                        visibility_function=visibility_function_registry[name],
                        rng=rng_ref,
                    )
                    check(status == status_ref, f'{name}: same outcome')
                    outcomes[name, status] = outcomes.get((name, status), 0) + 1
                    if status == 'error':
                        check(result is result_ref, f'{name}: same error')
                        continue
                    check(
                        same_observation(result, result_ref),
                        f'{name}: same observation as the reference',
                    )
                    check(
                        result.agent.grid_object is state.agent.grid_object,
                        f'{name}: held object passed through',
                    )
                    # same use of the random stream
                    check(
                        rng.random() == rng_ref.random(),
                        f'{name}: rng used the same way',
                    )
                    # the state is left alone
                    check(state == state_ref, f'{name}: state untouched')
                    check(
                        state.agent.transform == Transform(position, orientation),
                        'agent pose untouched',
                    )
                    if name == 'fully_transparent':
                        check_against_pose_algebra(state, area, result)

                    # repeated call, through the factory
                    function = of.factory(name, area=area)
                    again = function(state, rng=rnd.default_rng(7))
                    check(
                        same_observation(again, result_ref),
                        f'{name}: repeated call through factory',
                    )

for name in WRAPPERS:
    check(outcomes.get((name, 'ok'), 0) >= 500, f'{name}: enough comparisons')

# custom visibility functions:  called exactly once, with the pov grid, the
# pov position and the very same rng;  mask applied cell by cell
for (height, width), orientation, area in itt.product(
    [(2, 3), (4, 7), (5, 1)], ORIENTATIONS, VIEW_AREAS[:3] + OFFSET_AREAS
):
    for position in agent_positions(height, width):
        state = State(
            make_grid(height, width), Agent(position, orientation, None)
        )
        calls = []
        mask = (
            np.arange(area.height * area.width).reshape(
                (area.height, area.width)
            )
            % 3
            != 0
        )

        def visibility_function(grid, pov_position, *, rng=None):
            calls.append((grid, pov_position, rng))
            return mask

        rng = rnd.default_rng(3)
        observation = of.from_visibility(
            state, area=area, visibility_function=visibility_function, rng=rng
        )
        check(len(calls) == 1, 'visibility function called exactly once')
        check(calls[0][0] is observation.grid, 'called with the pov grid')
        check(
            calls[0][1] == Position(-area.ymin, -area.xmin),
            'called with the pov position',
        )
        check(calls[0][2] is rng, 'called with the given rng')
        check_against_pose_algebra(state, area, observation, mask)
        check(
            type(observation.agent.grid_object) is NoneGridObject,
            'empty hands',
        )

        # rng defaults to None
        calls.clear()
        of.from_visibility(
            state, area=area, visibility_function=visibility_function
        )
        check(len(calls) == 1 and calls[0][2] is None, 'rng defaults to None')

        # wrong shape of the visibility mask
        status, result = call(
            of.from_visibility,
            state,
            area=area,
            visibility_function=lambda grid, position, *, rng=None: np.ones(
                (area.height + 1, area.width), dtype=bool
            ),
        )
        check((status, result) == ('error', ValueError), 'shape is validated')

# the wrappers look their visibility function up when they are called
for name, wrapper in WRAPPERS.items():
    original = visibility_function_registry[name]
    calls = []

    def nothing_visible(grid, position, *, rng=None):
        calls.append((name, rng))
        return np.zeros((grid.shape.height, grid.shape.width), dtype=bool)

    state = State(make_grid(4, 7), Agent(Position(3, 0), R, Key(Color.RED)))
    area = Area((-3, 0), (-1, 2))
    rng = rnd.default_rng(0)
    visibility_function_registry[name] = nothing_visible
    try:
        observation = wrapper(state, area=area, rng=rng)
    finally:
        visibility_function_registry[name] = original
    check(len(calls) == 1 and calls[0][1] is rng, f'{name}: late lookup')
    check(
        all(
            type(observation.grid[p]) is Hidden
            for p in observation.grid.area.positions()
        ),
        f'{name}: replaced visibility function used',
    )
    # and the original one is back afterwards
    status, result = call(wrapper, state, area=area, rng=rnd.default_rng(0))
    status_ref, result_ref = call(
        reference_from_visibility,
        state,
        area=area,
        visibility_function=original,
        rng=rnd.default_rng(0),
    )
    check(status == status_ref == 'ok', f'{name}: restored')
    check(same_observation(result, result_ref), f'{name}: restored result')

# registry / factory surface is unchanged
for name in ['from_visibility', *WRAPPERS]:
    check(name in of.observation_function_registry, f'{name} registered')
    check(
        of.observation_function_registry[name] is getattr(of, name),
        f'{name} registered as itself',
    )
check(
    sorted(of.observation_function_registry)
    == sorted(['from_visibility', *WRAPPERS]),
    'nothing else is registered',
)
for bad in [lambda: of.factory('nope', area=VIEW_AREAS[0]), lambda: of.factory('raytracing')]:
    status, result = call(bad)
    check((status, result) == ('error', ValueError), 'factory validation')

# hard-coded scenario:  2x3 grid, agent in the top-right corner facing RIGHT
wall, exit_, key = Wall(), Exit(), Key(Color.RED)
floor_a, floor_b, floor_c = Floor(), Floor(), Floor()
state = State(
    Grid([[wall, exit_, key], [floor_a, floor_b, floor_c]]),
    Agent(Position(0, 2), R, Key(Color.NONE)),
)
observation = of.fully_transparent(state, area=Area((-1, 1), (-1, 1)))
expected = [
    [Hidden, Hidden, Hidden],  # in front of the agent: outside of the grid
    [Hidden, Key, Floor],  # left of the agent is outside;  right is below
    [Hidden, Exit, Floor],  # behind the agent is the exit
]
check(
    [
        [type(observation.grid[y, x]) for x in range(3)]
        for y in range(3)
    ]
    == expected,
    'hard-coded observation',
)
check(observation.grid[1, 1] is key, 'agent cell')
check(observation.grid[1, 2] is floor_c, 'right of the agent')
check(observation.grid[2, 1] is exit_, 'behind the agent')
check(observation.grid[2, 2] is floor_b, 'behind-right of the agent')
check(observation.agent.position == Position(1, 1), 'pov position')

print(f'OK ({checks} checks, {n_states} agent poses, outcomes {outcomes})')
