"""C11 demo for change B (GridWorld wiring): exits 0 with and without the patch.

Run from the worktree root:  /venv/bin/python _seed/B/demo.py
"""
import os
import sys

sys.path.insert(0, os.getcwd())

import itertools
import sys

import numpy.random as rnd

from gym_gridverse.action import Action
from gym_gridverse.geometry import Orientation, Position
from gym_gridverse.grid import Grid
from gym_gridverse.agent import Agent
from gym_gridverse.grid_object import (
    Color,
    Exit,
    Floor,
    Key,
    MovingObstacle,
    Telepod,
    Wall,
)
from gym_gridverse.state import State

CHECKS = 0


def check(condition, *message):
    global CHECKS
    CHECKS += 1
    if not condition:
        print('FAILED:', *message)
        sys.exit(1)


# --------------------------------------------------------------------------
# scenarios
# --------------------------------------------------------------------------

_TELEPOD_COLORS = {
    'r': Color.RED,
    'g': Color.GREEN,
    'b': Color.BLUE,
    'y': Color.YELLOW,
    'n': Color.NONE,
}


def make_grid(rows):
    def make_object(c):
        if c == '.':
            return Floor()
        if c == '#':
            return Wall()
        if c == 'O':
            return MovingObstacle()
        if c == 'E':
            return Exit()
        if c == 'K':
            return Key(Color.RED)
        return Telepod(_TELEPOD_COLORS[c])

    return Grid([[make_object(c) for c in row] for row in rows])


MAPS = [
    # degenerate shapes
    ['O'],
    ['.'],
    ['r'],
    ['n'],
    ['O.O'],
    ['.O.'],
    ['.OO'],
    ['OO.'],
    ['OO.OO'],
    ['rOr'],
    ['O', '.', 'O'],
    ['.', 'O', 'O', '.'],
    ['n', '.', 'n', 'O', 'n'],
    # everything is an obstacle:  nobody can move
    ['OO', 'OO'],
    # obstacle in each corner, non-square
    ['O.O', '...', '...', 'O.O'],
    ['O..O', '....', 'O..O'],
    # obstacle walled in by non-floor objects of every kind
    ['#E#', 'KOr', '#n#'],
    # exactly one free neighbour, on each side
    ['#.#', '#O#', '###'],
    ['###', '#O.', '###'],
    ['###', '#O#', '#.#'],
    ['###', '.O#', '###'],
    # moving one obstacle frees / takes the cell of another one
    ['O.O.', '.O.O'],
    ['.OOO.'],
    # telepods:  pairs, triples, lonely ones, colour NONE, on borders/corners
    ['r..r'],
    ['r.g', '...', 'g.r'],
    ['rr', 'rr'],
    ['n.n', '.g.', 'n.r'],
    ['r.b.r', '.y.y.', 'r.b.n'],
    # both together
    ['rO.r', 'O.#.', 'n.On'],
    ['gO', 'Or', '.g', 'rO', 'n.'],
    ['O.r#', '.OO.', 'r.gn'],
]


def all_positions(grid):
    return [
        Position(y, x)
        for y in range(grid.shape.height)
        for x in range(grid.shape.width)
    ]


def snapshot(state):
    """identity-level description of a state"""
    return (
        tuple(
            tuple(id(obj) for obj in row) for row in state.grid.objects
        ),
        state.agent.position.yx,
        state.agent.orientation,
        id(state.agent.grid_object),
    )


def describe(state):
    """value-level description of a state"""
    return (
        tuple(
            tuple(
                (type(obj).__name__, obj.color.name, obj.state_index)
                for obj in row
            )
            for row in state.grid.objects
        ),
        state.agent.position.yx,
        state.agent.orientation.name,
        type(state.agent.grid_object).__name__,
    )


# --------------------------------------------------------------------------
# random outcomes:  a scripted generator which enumerates every resolution
# --------------------------------------------------------------------------


class ScriptedRng:
    """Stand-in for numpy's Generator:  `choice(n)` follows a script.

    Mimics `Generator.choice(0)`, which raises ValueError.  Records the
    number of alternatives of every choice, so that all scripts can be
    enumerated.
    """

    def __init__(self, script=()):
        self.script = list(script)
        self.sizes = []

    def choice(self, n):
        if n <= 0:
            raise ValueError(
                'a must be a positive integer unless no samples are taken'
            )
        k = len(self.sizes)
        self.sizes.append(n)
        i = self.script[k] if k < len(self.script) else 0
        assert 0 <= i < n
        return i


def all_scripts(run):
    """Calls run(rng) for every resolution of every random choice.

    Yields (script, sizes, result of run).
    """
    pending = [()]
    seen = set()
    while pending:
        script = pending.pop()
        rng = ScriptedRng(script)
        result = run(rng)
        sizes = tuple(rng.sizes)
        full = tuple(script) + (0,) * (len(sizes) - len(script))
        full = full[: len(sizes)]
        if full in seen:
            continue
        seen.add(full)
        yield full, sizes, result
        # branch on every choice made beyond the given prefix
        for k in range(len(script), len(sizes)):
            for i in range(1, sizes[k]):
                pending.append(full[:k] + (i,))


# --------------------------------------------------------------------------
# reference implementations (written independently from the library),
# asserting the property at every turn
# --------------------------------------------------------------------------


def ref_move_obstacles(state, rng):
    objects = state.grid.objects
    height, width = len(objects), len(objects[0])

    before = [row[:] for row in objects]
    obstacles = [
        (y, x)
        for y in range(height)
        for x in range(width)
        if type(objects[y][x]) is MovingObstacle
    ]
    moved = set()

    for y, x in obstacles:
        obstacle = objects[y][x]
        check(type(obstacle) is MovingObstacle, 'obstacle was displaced')
        check(id(obstacle) not in moved, 'obstacle moved twice')
        # up, right, down, left
        free = [
            (ny, nx)
            for ny, nx in [(y - 1, x), (y, x + 1), (y + 1, x), (y, x - 1)]
            if 0 <= ny < height
            and 0 <= nx < width
            and type(objects[ny][nx]) is Floor
        ]
        if not free:
            continue  # stays, and only then
        ny, nx = free[rng.choice(len(free))]
        objects[y][x], objects[ny][nx] = objects[ny][nx], objects[y][x]
        moved.add(id(obstacle))

    # nothing lost, nothing duplicated, everything else stays
    ids_before = sorted(id(obj) for row in before for obj in row)
    ids_after = sorted(id(obj) for row in objects for obj in row)
    check(ids_before == ids_after, 'objects lost or duplicated')
    for y in range(height):
        for x in range(width):
            if type(before[y][x]) not in (MovingObstacle, Floor):
                check(before[y][x] is objects[y][x], 'static object moved')


def ref_teleport(state, rng):
    objects = state.grid.objects
    ay, ax = state.agent.position.yx
    pod = objects[ay][ax]
    if type(pod) is not Telepod:
        return
    others = [
        (y, x)
        for y, row in enumerate(objects)
        for x, obj in enumerate(row)
        if (y, x) != (ay, ax)
        and type(obj) is Telepod
        and obj.color is pod.color
    ]
    if not others:
        return
    y, x = others[rng.choice(len(others))]
    state.agent.position = Position(y, x)


REFERENCES = {
    'move_obstacles': ref_move_obstacles,
    'teleport': ref_teleport,
}


def ref_chain(names):
    def run(state, rng):
        for name in names:
            REFERENCES[name](state, rng)

    return run


def twin_states(rows, position, orientation):
    """two states sharing the very same grid objects (compared by identity)"""
    grid = make_grid(rows)
    twin = Grid([row[:] for row in grid.objects])
    held = Key(Color.BLUE)
    return (
        State(grid, Agent(position, orientation, held)),
        State(twin, Agent(position, orientation, held)),
    )


def check_dynamics_exhaustively(label, function, names, *, actions, poses):
    """`function` (library) against the references `names`, for all outcomes

    Checks equality with the reference for every resolution of the random
    choices, that every alternative of every choice leads to a distinct
    destination, and the telepod part of the property on the agent.
    """
    reference = ref_chain(names)

    for rows in MAPS:
        grid = make_grid(rows)
        positions = all_positions(grid)
        for position, orientation in poses(positions):
            for action in actions:

                def run(rng):
                    state, twin = twin_states(rows, position, orientation)
                    check(
                        function(state, action, rng=rng) is None,
                        'transition functions return None',
                    )
                    twin_rng = ScriptedRng(rng.script)
                    reference(twin, twin_rng)
                    check(
                        rng.sizes == twin_rng.sizes,
                        label,
                        rows,
                        'random choices differ',
                        rng.sizes,
                        twin_rng.sizes,
                    )
                    check(
                        snapshot(state) == snapshot(twin),
                        label,
                        rows,
                        position,
                        action,
                        rng.script,
                        'differs from reference',
                    )
                    return state

                outcomes = {}
                for script, sizes, state in all_scripts(run):
                    check(script not in outcomes, 'script enumerated twice')
                    outcomes[script] = sizes, snapshot(state)

                    # agent:  displaced only by teleportation
                    if 'teleport' not in names:
                        check(
                            state.agent.position == position,
                            'agent displaced without teleport',
                        )
                    check(state.agent.orientation is orientation)

                # the enumeration is complete:  every alternative of every
                # random choice (each free neighbour, each partner telepod)
                # has been taken ...
                for script, (sizes, _) in outcomes.items():
                    for k, size in enumerate(sizes):
                        for i in range(size):
                            check(
                                any(
                                    other[: k + 1] == script[:k] + (i,)
                                    for other in outcomes
                                ),
                                label,
                                rows,
                                'alternative not enumerated',
                            )
                # ... and leads somewhere else
                snaps = [snap for _, snap in outcomes.values()]
                check(
                    len(set(snaps)) == len(snaps),
                    label,
                    rows,
                    position,
                    'alternatives collapse',
                )


def check_teleport_property(function):
    """direct statement of the telepod part of the property"""
    for rows in MAPS:
        grid = make_grid(rows)
        for position in all_positions(grid):
            here = grid[position]
            partners = {
                p.yx
                for p in all_positions(grid)
                if p != position
                and isinstance(here, Telepod)
                and isinstance(grid[p], Telepod)
                and grid[p].color == here.color
            }
            for orientation in Orientation:

                def run(rng):
                    state = State(
                        make_grid(rows), Agent(position, orientation)
                    )
                    function(state, Action.ACTUATE, rng=rng)
                    return state.agent.position.yx

                reached = {yx for _, _, yx in all_scripts(run)}
                if partners:
                    check(reached == partners, rows, position, reached)
                else:
                    check(reached == {position.yx}, rows, position, reached)


def check_obstacles_property(function):
    """direct statement of the obstacle part, for single obstacles' turns"""
    for rows in MAPS:
        grid = make_grid(rows)
        obstacles = [
            p for p in all_positions(grid) if isinstance(grid[p], MovingObstacle)
        ]
        if not obstacles:
            continue
        first = obstacles[0]
        free = {
            (first.y + dy, first.x + dx)
            for dy, dx in [(-1, 0), (0, 1), (1, 0), (0, -1)]
            if grid.area.contains(Position(first.y + dy, first.x + dx))
            and isinstance(grid[first.y + dy, first.x + dx], Floor)
        }

        def run(rng):
            state = State(
                make_grid(rows), Agent(Position(0, 0), Orientation.F)
            )
            obstacle = state.grid[first]
            function(state, Action.MOVE_LEFT, rng=rng)
            count = sum(
                isinstance(state.grid[p], MovingObstacle)
                for p in all_positions(state.grid)
            )
            check(count == len(obstacles), rows, 'obstacle count changed')
            (where,) = [
                p.yx
                for p in all_positions(state.grid)
                if state.grid[p] is obstacle
            ]
            return where

        reached = {yx for _, _, yx in all_scripts(run)}
        # NOTE a later obstacle never moves the first one (it only swaps with
        # floors), so the final place of the first obstacle is its destination
        check(
            reached == (free or {first.yx}),
            rows,
            'destinations of first obstacle',
            reached,
            free,
        )


def check_seeded(label, function, names, seeds, *, steps=6):
    """real numpy generators:  same results and same stream consumption"""
    reference = ref_chain(names)
    actions = list(Action)
    for rows in MAPS:
        grid = make_grid(rows)
        positions = all_positions(grid)
        for seed in seeds:
            position = positions[seed % len(positions)]
            orientation = list(Orientation)[seed % 4]
            state, twin = twin_states(rows, position, orientation)
            rng, twin_rng = rnd.default_rng(seed), rnd.default_rng(seed)
            for step in range(steps):
                action = actions[(seed + step) % len(actions)]
                function(state, action, rng=rng)
                reference(twin, twin_rng)
                check(
                    snapshot(state) == snapshot(twin),
                    label,
                    rows,
                    seed,
                    step,
                    'seeded run differs from reference',
                )
                check(
                    rng.bit_generator.state == twin_rng.bit_generator.state,
                    label,
                    rows,
                    seed,
                    'random stream consumed differently',
                )


def all_poses(positions):
    return itertools.product(
        positions,
        [Orientation.F, Orientation.B, Orientation.L, Orientation.R],
    )


def corner_poses(positions):
    """first and last position (corners), one heading each + all four once"""
    yield positions[0], Orientation.F
    yield positions[-1], Orientation.R
    yield positions[len(positions) // 2], Orientation.B
    yield positions[len(positions) // 2], Orientation.L


# ==========================================================================
# change B:  wiring of GridWorld
# ==========================================================================

from gym_gridverse.debugging import gv_debug, reset_gv_debug
from gym_gridverse.envs import transition_functions as tf
from gym_gridverse.envs.gridworld import GridWorld
from gym_gridverse.geometry import Shape
from gym_gridverse.grid_object import Hidden, NoneGridObject
from gym_gridverse.observation import Observation
from gym_gridverse.rng import make_rng, reset_gv_rng
from gym_gridverse.spaces import ActionSpace, ObservationSpace, StateSpace

OBJECT_TYPES = [Floor, Wall, MovingObstacle, Exit, Key, Telepod]
COLORS = list(Color)

LOG = []


class LoggingStateSpace(StateSpace):
    def contains(self, state):
        LOG.append(('state_space.contains', state))
        return super().contains(state)


class LoggingActionSpace(ActionSpace):
    def contains(self, action):
        LOG.append(('action_space.contains', action))
        return super().contains(action)


class LoggingObservationSpace(ObservationSpace):
    def contains(self, observation):
        LOG.append(('observation_space.contains', observation))
        return super().contains(observation)


def expect_value_error(message, f, *args, **kwargs):
    try:
        f(*args, **kwargs)
    except ValueError as error:
        check(str(error) == message, 'error message', str(error), message)
    else:
        check(False, 'ValueError expected:', message)


def make_env(rows, *, transition=None, reset_state=None, actions=None):
    """GridWorld whose components log every call they receive"""
    shape = Shape(len(rows), len(rows[0]))

    def reset_function(*args, **kwargs):
        LOG.append(('reset', args, kwargs))
        if reset_state is not None:
            return reset_state
        return State(make_grid(rows), Agent(Position(0, 0), Orientation.F))

    def transition_function(*args, **kwargs):
        LOG.append(('transition', args, kwargs, describe(args[0])))
        if transition is not None:
            return transition(*args, **kwargs)

    def observation_function(*args, **kwargs):
        LOG.append(('observation', args, kwargs))
        return Observation(
            Grid.from_shape((3, 3)), Agent(Position(2, 1), Orientation.F)
        )

    def reward_function(*args, **kwargs):
        LOG.append(('reward', args, kwargs))
        return 1.5

    def termination_function(*args, **kwargs):
        LOG.append(('termination', args, kwargs))
        return True

    env = GridWorld(
        LoggingStateSpace(shape, OBJECT_TYPES, COLORS),
        LoggingActionSpace(list(Action) if actions is None else actions),
        LoggingObservationSpace(Shape(3, 3), OBJECT_TYPES, COLORS),
        reset_function,
        transition_function,
        observation_function,
        reward_function,
        termination_function,
    )
    return env


def tags():
    return [entry[0] for entry in LOG]


ROWS = ['rO.r', 'O.#.', 'n.On']

for debug in [True, False]:
    reset_gv_debug(debug)
    check(gv_debug() is debug)

    for seed in [None, 0, 7]:
        env = make_env(ROWS)
        check(env._rng is None)
        if seed is not None:
            check(env.set_seed(seed) is None)
            check(
                env._rng.bit_generator.state
                == make_rng(seed).bit_generator.state
            )
        rng = env._rng

        # ---- functional_reset
        del LOG[:]
        state = env.functional_reset()
        check(
            tags() == ['reset'] + ['state_space.contains'] * debug,
            'reset wiring',
            tags(),
        )
        check(LOG[0][1] == () and list(LOG[0][2]) == ['rng'])
        check(LOG[0][2]['rng'] is rng)
        if debug:
            check(LOG[1][1] is state)
        check(env._rng is rng)

        # ---- functional_step
        for action in Action:
            del LOG[:]
            before = describe(state), snapshot(state)
            result = env.functional_step(state, action)
            check(type(result) is tuple and len(result) == 3)
            next_state, reward, terminal = result
            check(reward == 1.5 and terminal is True)
            check(
                tags()
                == ['state_space.contains'] * debug
                + ['action_space.contains', 'transition']
                + ['state_space.contains'] * debug
                + ['reward', 'termination'],
                'step wiring',
                tags(),
            )
            offset = 1 if debug else 0
            if debug:
                check(LOG[0][1] is state)
                check(LOG[3][1] is next_state)
            check(LOG[offset][1] is action)
            _, args, kwargs, described = LOG[offset + 1]
            check(len(args) == 2 and list(kwargs) == ['rng'])
            check(kwargs['rng'] is rng)
            check(args[0] is next_state and args[0] is not state)
            check(args[1] is action)
            # the transition function got an (equal) copy
            check(described == before[0])
            check(args[0].grid is not state.grid)
            check(args[0].agent is not state.agent)
            for tag, entry in [('reward', LOG[-2]), ('termination', LOG[-1])]:
                check(entry[0] == tag and entry[2] == {})
                check(len(entry[1]) == 3)
                check(entry[1][0] is state)
                check(entry[1][1] is action)
                check(entry[1][2] is next_state)
            # the given state is left alone
            check((describe(state), snapshot(state)) == before)

        # ---- functional_observation
        del LOG[:]
        observation = env.functional_observation(state)
        check(
            tags() == ['observation'] + ['observation_space.contains'] * debug,
            'observation wiring',
            tags(),
        )
        check(LOG[0][1] == (state,) and LOG[0][1][0] is state)
        check(list(LOG[0][2]) == ['rng'] and LOG[0][2]['rng'] is rng)
        if debug:
            check(LOG[1][1] is observation)

        # ---- reset / step / state / observation (InnerEnv on top)
        del LOG[:]
        env.reset()
        check(tags() == ['reset'] + ['state_space.contains'] * debug)
        first = env.state
        del LOG[:]
        check(env.step(Action.MOVE_FORWARD) == (1.5, True))
        check(tags().count('transition') == 1)
        check(env.state is not first)
        check(env.state is LOG[tags().index('transition')][1][0])
        del LOG[:]
        check(env.observation is env.observation)
        check(tags().count('observation') == 1)

    # ---- failures
    good = State(make_grid(ROWS), Agent(Position(0, 0), Orientation.F))
    wrong_shape = State(make_grid(['..']), Agent(Position(0, 0), Orientation.F))
    outside = State(make_grid(ROWS), Agent(Position(3, 0), Orientation.F))

    for bad in [wrong_shape, outside]:
        # reset function returning garbage
        env = make_env(ROWS, reset_state=bad)
        del LOG[:]
        if debug:
            expect_value_error(
                'state does not satisfy state_space', env.functional_reset
            )
            check(tags() == ['reset', 'state_space.contains'])
        else:
            check(env.functional_reset() is bad)
            check(tags() == ['reset'])

        # stepping from garbage
        env = make_env(ROWS)
        del LOG[:]
        if debug:
            expect_value_error(
                'state does not satisfy state_space',
                env.functional_step,
                bad,
                Action.ACTUATE,
            )
            check(tags() == ['state_space.contains'])
        else:
            env.functional_step(bad, Action.ACTUATE)
            check(
                tags()
                == ['action_space.contains', 'transition', 'reward', 'termination']
            )

    # action outside of the action space:  always checked, before the dynamics
    env = make_env(ROWS, actions=[Action.MOVE_FORWARD, Action.TURN_LEFT])
    for action in Action:
        del LOG[:]
        if action in (Action.MOVE_FORWARD, Action.TURN_LEFT):
            env.functional_step(good, action)
            check('transition' in tags())
        else:
            expect_value_error(
                'action {action} does not satisfy action-space',
                env.functional_step,
                good,
                action,
            )
            check(
                tags()
                == ['state_space.contains'] * debug + ['action_space.contains']
            )
    env = make_env(ROWS, actions=[])
    expect_value_error(
        'action {action} does not satisfy action-space',
        env.functional_step,
        good,
        Action.MOVE_FORWARD,
    )

    # dynamics leaving the state space
    def walk_out(state, action, *, rng=None):
        state.agent.position = Position(-1, 0)

    env = make_env(ROWS, transition=walk_out)
    del LOG[:]
    if debug:
        expect_value_error(
            'next_state does not satisfy state_space',
            env.functional_step,
            good,
            Action.MOVE_FORWARD,
        )
        check(
            tags()
            == [
                'state_space.contains',
                'action_space.contains',
                'transition',
                'state_space.contains',
            ]
        )
    else:
        next_state, _, _ = env.functional_step(good, Action.MOVE_FORWARD)
        check(next_state.agent.position == Position(-1, 0))
    check(good.agent.position == Position(0, 0))

    # observation function returning garbage
    env = make_env(ROWS)
    env._observation_function = lambda state, *, rng=None: Observation(
        Grid.from_shape((2, 3)), Agent(Position(1, 1), Orientation.F)
    )
    if debug:
        expect_value_error(
            'observation does not satisfy observation_space',
            env.functional_observation,
            good,
        )
    else:
        check(env.functional_observation(good).grid.shape == Shape(2, 3))


# -- the property, through GridWorld ----------------------------------------

NAMES = ['move_obstacles', 'teleport']
dynamics = tf.factory(
    'chain',
    transition_functions=[tf.factory(name) for name in NAMES],
)
reference = ref_chain(NAMES)


def real_env(rows):
    shape = Shape(len(rows), len(rows[0]))
    return GridWorld(
        StateSpace(shape, OBJECT_TYPES, COLORS),
        ActionSpace(list(Action)),
        ObservationSpace(Shape(3, 3), OBJECT_TYPES, COLORS),
        lambda *, rng=None: State(
            make_grid(rows), Agent(Position(0, 0), Orientation.F)
        ),
        dynamics,
        lambda state, *, rng=None: Observation(
            Grid.from_shape((3, 3)), Agent(Position(2, 1), Orientation.F)
        ),
        lambda state, action, next_state: 0.0,
        lambda state, action, next_state: False,
    )


def start_state(rows, k):
    grid = make_grid(rows)
    positions = all_positions(grid)
    return State(
        grid,
        Agent(positions[k % len(positions)], list(Orientation)[k % 4]),
    )


def check_same_values(state, twin, *message):
    check(describe(state) == describe(twin), *message)


ACTIONS = list(Action)

for debug in [True, False]:
    reset_gv_debug(debug)

    # (1) exhaustively:  every random outcome of a step, from every position
    for rows in MAPS:
        env = real_env(rows)
        grid = make_grid(rows)
        for k, position in enumerate(all_positions(grid)):
            orientation = list(Orientation)[k % 4]
            action = ACTIONS[k % len(ACTIONS)]

            def run(rng):
                env._rng = rng
                state = State(make_grid(rows), Agent(position, orientation))
                before = describe(state)
                next_state, reward, terminal = env.functional_step(
                    state, action
                )
                check(describe(state) == before, 'state modified by step')
                check(env._rng is rng)
                twin = State(make_grid(rows), Agent(position, orientation))
                twin_rng = ScriptedRng(rng.script)
                reference(twin, twin_rng)
                check(rng.sizes == twin_rng.sizes, rows, 'choices differ')
                check_same_values(next_state, twin, rows, position, rng.script)
                return describe(next_state)

            outcomes = [result for _, _, result in all_scripts(run)]
            check(len(outcomes) >= 1)
            # telepods:  the agent is displaced iff it has a partner
            here = grid[position]
            partners = {
                p.yx
                for p in all_positions(grid)
                if p != position
                and isinstance(here, Telepod)
                and isinstance(grid[p], Telepod)
                and grid[p].color is here.color
            }
            reached = {outcome[1] for outcome in outcomes}
            check(reached == (partners or {position.yx}), rows, position)
            # obstacles are never lost or duplicated
            for outcome in outcomes:
                count = sum(
                    cell[0] == 'MovingObstacle'
                    for row in outcome[0]
                    for cell in row
                )
                check(count == sum(row.count('O') for row in rows))

    # (2) seeded, several environments in one process, interleaved
    for rows_a, rows_b in zip(MAPS, MAPS[1:] + MAPS[:1]):
        env_a, env_b = real_env(rows_a), real_env(rows_b)
        for seed in [0, 1, 5]:
            env_a.set_seed(seed)
            env_b.set_seed(seed + 1)
            rng_a, rng_b = make_rng(seed), make_rng(seed + 1)
            state_a, twin_a = start_state(rows_a, seed), start_state(rows_a, seed)
            state_b, twin_b = start_state(rows_b, seed), start_state(rows_b, seed)
            for step in range(5):
                action = ACTIONS[(seed + step) % len(ACTIONS)]
                state_a, _, _ = env_a.functional_step(state_a, action)
                state_b, _, _ = env_b.functional_step(state_b, action)
                reference(twin_b, rng_b)
                reference(twin_a, rng_a)
                check_same_values(state_a, twin_a, rows_a, seed, step)
                check_same_values(state_b, twin_b, rows_b, seed, step)
            check(env_a._rng.bit_generator.state == rng_a.bit_generator.state)
            check(env_b._rng.bit_generator.state == rng_b.bit_generator.state)

    # (3) re-seeding reproduces, reset()/step() go the same way
    for rows in MAPS:
        env = real_env(rows)
        runs = []
        for seed in [3, 4, 3, 3]:
            env.set_seed(seed)
            env.reset()
            trace = []
            for step in range(6):
                env.step(ACTIONS[step % len(ACTIONS)])
                trace.append(describe(env.state))
            runs.append(trace)

            twin_rng = make_rng(seed)
            twin = State(make_grid(rows), Agent(Position(0, 0), Orientation.F))
            for step in range(6):
                reference(twin, twin_rng)
                check(trace[step] == describe(twin), rows, seed, step)
        check(runs[0] == runs[2] == runs[3])

    # (4) never seeded:  the library generator is used (rng=None forwarded)
    for rows in MAPS:
        env = real_env(rows)
        check(env._rng is None)
        for seed in [0, 9, 0]:
            reset_gv_rng(seed)
            twin_rng = make_rng(seed)
            state, twin = start_state(rows, seed), start_state(rows, seed)
            for step in range(4):
                state, _, _ = env.functional_step(state, Action.ACTUATE)
                reference(twin, twin_rng)
                check_same_values(state, twin, rows, seed, step)
        check(env._rng is None)

reset_gv_debug(None)
print(f'OK ({CHECKS} checks)')
