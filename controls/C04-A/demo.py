"""Check program for property C04 (stateful interface mirrors the functional
one; observations are never stale).

FOCUS of this copy: see the FOCUS constant below (the three refactorings A, B
and C share the same check program; FOCUS only scales how much effort goes to
each section).

The reference model (class ``Model``) is an independent re-implementation of
the stateful protocol that does NOT use ``InnerEnv``/``GridWorld``/``OuterEnv``
at all: it calls the raw component functions (reset / transition / reward /
termination / observation functions) with its own numpy generator, copies
states with its own pickle round trip, and memoises the observation lazily.

Run as:  cd /tmp/wt3-C04 && /venv/bin/python -W ignore _seed/<X>/demo.py
"""
import os
import sys

sys.path.insert(0, os.getcwd())

import copy
import pickle
import random

import numpy as np
import numpy.random as rnd

from gym_gridverse.action import Action
from gym_gridverse.debugging import reset_gv_debug
from gym_gridverse.envs.gridworld import GridWorld
from gym_gridverse.envs.inner_env import InnerEnv
from gym_gridverse.envs.yaml import factory as yf
from gym_gridverse.geometry import Orientation, Position, Shape
from gym_gridverse.grid import Grid
from gym_gridverse.grid_object import Floor, Key, Color, Wall
from gym_gridverse.agent import Agent
from gym_gridverse.observation import Observation
from gym_gridverse.outer_env import OuterEnv
from gym_gridverse.representations.observation_representations import (
    make_observation_representation,
)
from gym_gridverse.representations.state_representations import (
    make_state_representation,
)
from gym_gridverse.rng import reset_gv_rng
from gym_gridverse.spaces import ActionSpace
from gym_gridverse.state import State

FOCUS = 'A'  # one of 'A' (InnerEnv), 'B' (GridWorld), 'C' (OuterEnv / gym)

# --------------------------------------------------------------------------
# configurations (python transcriptions of shipped yaml files + variations)
# --------------------------------------------------------------------------

SIX_ACTIONS = [
    'MOVE_FORWARD',
    'MOVE_BACKWARD',
    'MOVE_LEFT',
    'MOVE_RIGHT',
    'TURN_LEFT',
    'TURN_RIGHT',
]

AREA = [[-6, 0], [-3, 3]]


def _exit_rewards():
    return [
        {'name': 'reach_exit', 'reward_on': 5.0, 'reward_off': 0.0},
        {
            'name': 'getting_closer',
            'distance_function': 'manhattan',
            'object_type': 'Exit',
            'reward_closer': 0.2,
            'reward_further': -0.2,
        },
        {'name': 'living_reward', 'reward': -0.05},
    ]


def _memory_rewards():
    return [
        {'name': 'reach_exit_memory', 'reward_good': 5.0, 'reward_bad': -5.0},
        {'name': 'living_reward', 'reward': -0.05},
    ]


def _simple(objects, colors, reset, transitions, rewards, terminating, *,
            actions=SIX_ACTIONS, observation='partially_occluded', area=AREA):
    data = {
        'state_space': {'objects': list(objects), 'colors': list(colors)},
        'observation_space': {'objects': list(objects), 'colors': list(colors)},
        'reset_function': reset,
        'transition_functions': [{'name': n} for n in transitions],
        'reward_functions': rewards,
        'observation_function': {'name': observation, 'area': area},
        'terminating_function': terminating,
    }
    if actions is not None:
        data['action_space'] = list(actions)
    return data


REACH_EXIT = {'name': 'reach_exit'}


def make_configs():
    c = {}
    for n in (5, 7):
        c[f'crossing.{n}x{n}'] = _simple(
            ['Wall', 'Floor', 'Exit'], ['NONE'],
            {'name': 'crossing', 'shape': [n, n], 'num_rivers': 1 if n == 5 else 2,
             'object_type': 'Wall'},
            ['move_agent', 'turn_agent'], _exit_rewards(), REACH_EXIT)
        c[f'dynamic_obstacles.{n}x{n}'] = _simple(
            ['Wall', 'Floor', 'Exit', 'MovingObstacle'], ['NONE'],
            {'name': 'dynamic_obstacles', 'shape': [n, n],
             'num_obstacles': 1 if n == 5 else 3, 'random_agent': n == 7},
            ['move_agent', 'turn_agent', 'move_obstacles'],
            [
                {'name': 'reach_exit', 'reward_on': 5.0, 'reward_off': 0.0},
                {'name': 'bump_moving_obstacle', 'reward': -1.0},
                {'name': 'bump_into_wall', 'reward': -1.0},
                {'name': 'living_reward', 'reward': -0.05},
            ],
            {'name': 'reduce_any', 'terminating_functions': [
                {'name': 'reach_exit'},
                {'name': 'bump_moving_obstacle'},
                {'name': 'bump_into_wall'},
            ]})
        c[f'keydoor.{n}x{n}'] = _simple(
            ['Wall', 'Floor', 'Exit', 'Door', 'Key'], ['NONE', 'YELLOW'],
            {'name': 'keydoor', 'shape': [n, n]},
            ['move_agent', 'turn_agent', 'actuate_door', 'pickndrop'],
            [
                {'name': 'reach_exit', 'reward_on': 5.0, 'reward_off': 0.0},
                {'name': 'pickndrop', 'object_type': 'Key',
                 'reward_pick': 1.0, 'reward_drop': -1.0},
                {'name': 'actuate_door', 'reward_open': 1.0,
                 'reward_close': -1.0},
                {'name': 'living_reward', 'reward': -0.05},
            ],
            REACH_EXIT, actions=None)
        c[f'teleport.{n}x{n}'] = _simple(
            ['Wall', 'Floor', 'Exit', 'Telepod'], ['NONE', 'RED'],
            {'name': 'teleport', 'shape': [n, n]},
            ['move_agent', 'turn_agent', 'teleport'], _exit_rewards(),
            REACH_EXIT)
    c['empty.4x4'] = _simple(
        ['Wall', 'Floor', 'Exit'], ['NONE'],
        {'name': 'empty', 'shape': [4, 4], 'random_agent': True},
        ['move_agent', 'turn_agent'], _exit_rewards(), REACH_EXIT)
    c['empty.8x8.random_exit'] = _simple(
        ['Wall', 'Floor', 'Exit'], ['NONE'],
        {'name': 'empty', 'shape': [8, 8], 'random_agent': True,
         'random_exit': True},
        ['move_agent', 'turn_agent'], _exit_rewards(), REACH_EXIT,
        observation='raytracing')
    c['four_rooms.7x7'] = _simple(
        ['Wall', 'Floor', 'Exit'], ['NONE'],
        {'name': 'rooms', 'shape': [7, 7], 'layout': [2, 2]},
        ['move_agent', 'turn_agent'], _exit_rewards(), REACH_EXIT)
    c['nine_rooms.10x10'] = _simple(
        ['Wall', 'Floor', 'Exit'], ['NONE'],
        {'name': 'rooms', 'shape': [10, 10], 'layout': [3, 3]},
        ['move_agent', 'turn_agent'], _exit_rewards(), REACH_EXIT,
        observation='fully_transparent')
    mem_colors = ['NONE', 'RED', 'GREEN', 'BLUE', 'YELLOW']
    c['memory.5x5'] = _simple(
        ['Wall', 'Floor', 'Exit', 'Beacon'], mem_colors,
        {'name': 'memory', 'shape': [5, 5],
         'colors': ['RED', 'GREEN', 'BLUE', 'YELLOW']},
        ['move_agent', 'turn_agent'], _memory_rewards(), REACH_EXIT)
    c['memory_four_rooms.7x7'] = _simple(
        ['Wall', 'Floor', 'Exit', 'Beacon'], mem_colors,
        {'name': 'memory_rooms', 'shape': [7, 7], 'layout': [2, 2],
         'colors': ['RED', 'GREEN', 'BLUE', 'YELLOW'], 'num_beacons': 1,
         'num_exits': 2},
        ['move_agent', 'turn_agent'], _memory_rewards(), REACH_EXIT)
    # stochastic observation functions: the memo matters most here
    c['stoch.keydoor.7x7'] = copy.deepcopy(c['keydoor.7x7'])
    c['stoch.keydoor.7x7']['observation_function'] = {
        'name': 'stochastic_raytracing', 'area': AREA}
    c['stoch.dynamic_obstacles.7x7'] = copy.deepcopy(
        c['dynamic_obstacles.7x7'])
    c['stoch.dynamic_obstacles.7x7']['observation_function'] = {
        'name': 'stochastic_raytracing', 'area': [[-4, 1], [-2, 2]]}
    c['stoch.teleport.5x5'] = copy.deepcopy(c['teleport.5x5'])
    c['stoch.teleport.5x5']['observation_function'] = {
        'name': 'stochastic_raytracing', 'area': AREA}
    return c


CONFIGS = make_configs()

# --------------------------------------------------------------------------
# fingerprints (structural, independent of the library's __eq__)
# --------------------------------------------------------------------------


def fp_object(obj):
    return (type(obj).__name__, obj.state_index, obj.color.name)


def fp_grid(grid):
    h, w = grid.shape.height, grid.shape.width
    return tuple(
        tuple(fp_object(grid[Position(y, x)]) for x in range(w))
        for y in range(h)
    )


def fp(x):
    """fingerprint of a State or Observation"""
    return (
        type(x).__name__,
        fp_grid(x.grid),
        (x.agent.position.y, x.agent.position.x),
        x.agent.orientation.name,
        fp_object(x.agent.grid_object),
    )


def rng_state(rng):
    return None if rng is None else repr(rng.bit_generator.state)


def same_arrays(d1, d2):
    assert isinstance(d1, dict) and isinstance(d2, dict)
    assert list(d1.keys()) == list(d2.keys()), (d1.keys(), d2.keys())
    for k in d1:
        a, b = d1[k], d2[k]
        assert isinstance(a, np.ndarray) and isinstance(b, np.ndarray)
        assert a.dtype == b.dtype and a.shape == b.shape, k
        assert np.array_equal(a, b), k
    return True


# --------------------------------------------------------------------------
# components + counting wrappers
# --------------------------------------------------------------------------


class Components:
    """The raw component functions of a configuration (built through the
    public yaml factory functions, exactly like factory_env_from_data)."""

    def __init__(self, data):
        data = copy.deepcopy(data)
        self.state_space_builder = yf.factory_state_space_builder(
            data['state_space'])
        self.action_space = (
            yf.factory_action_space(data['action_space'])
            if 'action_space' in data
            else ActionSpace(list(Action))
        )
        self.observation_space_builder = yf.factory_observation_space_builder(
            data['observation_space'])
        self.reset_function = yf.factory_reset_function(
            data['reset_function'])
        self.transition_function = yf.factory_transition_function(
            {'name': 'chain',
             'transition_functions': data['transition_functions']})
        self.reward_function = yf.factory_reward_function(
            {'name': 'reduce_sum',
             'reward_functions': data['reward_functions']})
        self.observation_function = yf.factory_observation_function(
            data['observation_function'])
        self.terminating_function = yf.factory_terminating_function(
            data['terminating_function'])

        probe_rng = rnd.default_rng(12345)
        state = self.reset_function(rng=probe_rng)
        self.state_space_builder.set_grid_shape(state.grid.shape)
        self.state_space = self.state_space_builder.build()
        observation = self.observation_function(state, rng=probe_rng)
        self.observation_space_builder.set_grid_shape(observation.grid.shape)
        self.observation_space = self.observation_space_builder.build()


class Spy:
    """call log shared by the wrappers given to the GridWorld under test"""

    def __init__(self):
        self.log = []

    def count(self, name):
        return sum(1 for entry in self.log if entry[0] == name)


def make_gridworld(comp, spy=None):
    """GridWorld under test, built with the public constructor; component
    functions are wrapped so that every call is logged"""
    if spy is None:
        return GridWorld(
            comp.state_space, comp.action_space, comp.observation_space,
            comp.reset_function, comp.transition_function,
            comp.observation_function, comp.reward_function,
            comp.terminating_function)

    def reset_function(*, rng=None):
        spy.log.append(('reset', rng_state(rng)))
        return comp.reset_function(rng=rng)

    def transition_function(state, action, *, rng=None):
        spy.log.append(('transition', id(state), action, rng_state(rng)))
        return comp.transition_function(state, action, rng=rng)

    def observation_function(state, *, rng=None):
        spy.log.append(('observation', id(state), rng_state(rng)))
        return comp.observation_function(state, rng=rng)

    def reward_function(state, action, next_state):
        spy.log.append(('reward', id(state), action, id(next_state)))
        return comp.reward_function(state, action, next_state)

    def terminating_function(state, action, next_state):
        spy.log.append(('terminating', id(state), action, id(next_state)))
        return comp.terminating_function(state, action, next_state)

    return GridWorld(
        comp.state_space, comp.action_space, comp.observation_space,
        reset_function, transition_function, observation_function,
        reward_function, terminating_function)


# --------------------------------------------------------------------------
# reference model of the stateful protocol
# --------------------------------------------------------------------------


class NotReset(Exception):
    pass


class Model:
    """Independent re-implementation: raw components, own rng, own copy."""

    def __init__(self, comp, seed, *, seeded=True):
        self.comp = comp
        # seeded=False models an environment on which set_seed was never
        # called:  the components then fall back to the library-level rng
        self.rng = rnd.default_rng(seed) if seeded else None
        self.state = None
        self.observation = None
        self.n_observation_calls = 0

    def reset(self):
        self.state = self.comp.reset_function(rng=self.rng)
        self.observation = None

    def step(self, action):
        if self.state is None:
            raise NotReset
        if action not in self.comp.action_space.actions:
            raise ValueError
        next_state = pickle.loads(pickle.dumps(self.state))
        self.comp.transition_function(next_state, action, rng=self.rng)
        reward = self.comp.reward_function(self.state, action, next_state)
        done = self.comp.terminating_function(self.state, action, next_state)
        self.state = next_state
        self.observation = None
        return reward, done

    def get_state(self):
        if self.state is None:
            raise NotReset
        return self.state

    def get_observation(self):
        if self.state is None:
            raise NotReset
        if self.observation is None:
            self.observation = self.comp.observation_function(
                self.state, rng=self.rng)
            self.n_observation_calls += 1
        return self.observation


STATE_MSG = 'The state was not set properly;  was the environment reset?'


def expect_raises(exc_type, f, message=None):
    try:
        f()
    except exc_type as e:
        assert type(e) is exc_type, type(e)
        if message is not None:
            assert e.args == (message,), e.args
        return
    raise AssertionError(f'expected {exc_type.__name__}')


# --------------------------------------------------------------------------
# section 1: InnerEnv protocol against the model
# --------------------------------------------------------------------------


def drive(name, seed, pattern_seed, n_ops, *, seeded=True, debug=True):
    """Drive env-under-test and model with the same random script of
    operations (reset, step, reads of state / observation, invalid actions,
    functional calls) and compare everything after every operation."""
    reset_gv_debug(debug)
    comp = Components(CONFIGS[name])
    spy = Spy()
    env = make_gridworld(comp, spy)
    model = Model(comp, seed, seeded=seeded)
    script = random.Random(pattern_seed)

    assert isinstance(env, InnerEnv)

    if seeded:
        env.set_seed(seed)

    def sync_global(which):
        # when the environment is not seeded both sides use the library-level
        # generator;  we keep one generator per side and swap it in
        if not seeded:
            import gym_gridverse.rng as gvrng
            gvrng._gv_rng = which

    global_env = rnd.default_rng(seed)
    global_model = rnd.default_rng(seed)

    def on_env(f):
        sync_global(global_env)
        return f()

    def on_model(f):
        sync_global(global_model)
        return f()

    # --- before the first reset everything raises, and nothing is drawn
    for _ in range(2):
        expect_raises(RuntimeError, lambda: env.state, STATE_MSG)
        expect_raises(RuntimeError, lambda: env.observation, STATE_MSG)
        expect_raises(
            RuntimeError,
            lambda: env.step(comp.action_space.actions[0]),
            STATE_MSG,
        )
    assert spy.log == []
    if seeded:
        assert rng_state(env._rng) == rng_state(model.rng)

    all_actions = list(Action)
    valid_actions = list(comp.action_space.actions)
    invalid_actions = [a for a in all_actions if a not in valid_actions]

    was_reset = False
    obs_calls_this_state = 0
    last_obs_obj = None
    last_state_obj = None
    n_steps = n_resets = n_obs_reads = n_state_reads = 0

    def check_sync():
        if seeded:
            assert rng_state(env._rng) == rng_state(model.rng)
        else:
            assert rng_state(global_env) == rng_state(global_model)
        assert spy.count('observation') == model.n_observation_calls

    for op_index in range(n_ops):
        if not was_reset:
            op = 'reset'
        else:
            op = script.choices(
                ['reset', 'step', 'obs', 'state', 'bad_step', 'functional',
                 'burst'],
                weights=[3, 40, 22, 12, 3 if invalid_actions else 0, 5, 5],
            )[0]

        if op == 'reset':
            n_log = len(spy.log)
            ret = on_env(env.reset)
            assert ret is None
            on_model(model.reset)
            # exactly one call of the reset function and nothing else
            assert [e[0] for e in spy.log[n_log:]] == ['reset']
            was_reset = True
            obs_calls_this_state = 0
            last_obs_obj = None
            new_state = env.state
            assert new_state is not last_state_obj
            last_state_obj = new_state
            n_resets += 1

        elif op == 'step':
            action = script.choice(valid_actions)
            prev_state = env.state
            prev_fp = fp(prev_state)
            n_log = len(spy.log)
            ret = on_env(lambda: env.step(action))
            expected = on_model(lambda: model.step(action))
            assert isinstance(ret, tuple) and len(ret) == 2
            assert ret == expected, (ret, expected)
            assert type(ret[0]) is type(expected[0])
            assert type(ret[1]) is type(expected[1])
            new_state = env.state
            # old state object was not modified, new one is a distinct object
            assert new_state is not prev_state
            assert fp(prev_state) == prev_fp
            # component call protocol of a step: no observation is computed
            new_entries = spy.log[n_log:]
            assert [e[0] for e in new_entries] == [
                'transition', 'reward', 'terminating'], new_entries
            assert new_entries[0][1] == id(new_state)
            assert new_entries[0][2] is action
            assert new_entries[1][1:] == (id(prev_state), action,
                                          id(new_state))
            assert new_entries[2][1:] == (id(prev_state), action,
                                          id(new_state))
            obs_calls_this_state = 0
            last_obs_obj = None
            last_state_obj = new_state
            n_steps += 1

        elif op == 'bad_step':
            action = script.choice(invalid_actions)
            prev_state = env.state
            had_obs = last_obs_obj
            n_log = len(spy.log)
            expect_raises(
                ValueError,
                lambda: on_env(lambda: env.step(action)),
                'action {action} does not satisfy action-space',
            )
            expect_raises(ValueError,
                          lambda: on_model(lambda: model.step(action)))
            assert len(spy.log) == n_log
            assert env.state is prev_state
            if had_obs is not None:
                # a failed step must not invalidate the memo
                assert env.observation is had_obs
                assert len(spy.log) == n_log

        elif op in ('obs', 'burst'):
            reads = 1 if op == 'obs' else script.randint(2, 5)
            for _ in range(reads):
                n_log = len(spy.log)
                o = on_env(lambda: env.observation)
                expected = on_model(model.get_observation)
                assert isinstance(o, Observation)
                assert fp(o) == fp(expected)
                assert o == expected
                new_entries = spy.log[n_log:]
                if last_obs_obj is None:
                    assert [e[0] for e in new_entries] == ['observation']
                    assert new_entries[0][1] == id(env.state)
                    obs_calls_this_state += 1
                else:
                    assert new_entries == []
                    assert o is last_obs_obj
                last_obs_obj = o
                assert obs_calls_this_state == 1
                n_obs_reads += 1
                if op == 'burst' and script.random() < 0.5:
                    assert env.state is last_state_obj

        elif op == 'state':
            n_log = len(spy.log)
            s = env.state
            assert isinstance(s, State)
            assert s is last_state_obj
            assert s is env.state
            assert len(spy.log) == n_log
            assert fp(s) == fp(model.get_state())
            assert s == model.get_state()
            n_state_reads += 1

        elif op == 'functional':
            # calls of the functional interface on the side do not disturb
            # the stateful one (apart from the shared generator, which the
            # model mirrors)
            which = script.choice(['reset', 'step', 'observation'])
            cur = env.state
            cur_fp = fp(cur)
            if which == 'reset':
                s = on_env(env.functional_reset)
                e = on_model(lambda: comp.reset_function(rng=model.rng))
                assert fp(s) == fp(e)
            elif which == 'step':
                action = script.choice(valid_actions)
                s, r, d = on_env(lambda: env.functional_step(cur, action))

                def ref_step():
                    nxt = pickle.loads(pickle.dumps(model.state))
                    comp.transition_function(nxt, action, rng=model.rng)
                    return (
                        nxt,
                        comp.reward_function(model.state, action, nxt),
                        comp.terminating_function(model.state, action, nxt),
                    )

                es, er, ed = on_model(ref_step)
                assert fp(s) == fp(es) and r == er and d == ed
                assert s is not cur
            else:
                o = on_env(lambda: env.functional_observation(cur))
                e = on_model(
                    lambda: comp.observation_function(model.state,
                                                      rng=model.rng))
                model.n_observation_calls += 1  # spy sees this call too
                assert fp(o) == fp(e)
                if last_obs_obj is not None:
                    assert o is not last_obs_obj
            assert env.state is cur and fp(cur) == cur_fp
            if last_obs_obj is not None:
                n_log = len(spy.log)
                assert env.observation is last_obs_obj
                assert len(spy.log) == n_log

        check_sync()
        # state always mirrors the model
        assert fp(env.state) == fp(model.state)

    # final read: observation belongs to the current state
    o = on_env(lambda: env.observation)
    e = on_model(model.get_observation)
    assert fp(o) == fp(e)
    check_sync()
    reset_gv_debug(True)
    return n_resets, n_steps, n_obs_reads, n_state_reads


def section_inner_env(scale):
    totals = [0, 0, 0, 0]
    runs = 0
    for ci, name in enumerate(sorted(CONFIGS)):
        for seed in range(scale):
            for seeded, debug in ((True, True), (True, False), (False, True)):
                if not seeded and seed >= max(1, scale // 2):
                    continue
                res = drive(name, 1000 * ci + seed, 77 * seed + ci, 60,
                            seeded=seeded, debug=debug)
                totals = [t + r for t, r in zip(totals, res)]
                runs += 1
    print(f'[inner-env] runs={runs} resets={totals[0]} steps={totals[1]} '
          f'observation reads={totals[2]} state reads={totals[3]}')


def section_factory_env(scale):
    """same protocol on environments built by factory_env_from_data, with
    the purely functional threading as reference (two envs, same seed)"""
    n = 0
    for ci, name in enumerate(sorted(CONFIGS)):
        for seed in range(scale):
            env = yf.factory_env_from_data(copy.deepcopy(CONFIGS[name]))
            ref = yf.factory_env_from_data(copy.deepcopy(CONFIGS[name]))
            env.set_seed(seed)
            ref.set_seed(seed)
            script = random.Random(seed * 31 + ci)
            actions = env.action_space.actions
            expect_raises(RuntimeError, lambda: env.state, STATE_MSG)
            env.reset()
            state = ref.functional_reset()
            obs = None
            for t in range(40):
                for _ in range(script.choice([0, 0, 1, 1, 2, 3])):
                    if script.random() < 0.7:
                        if obs is None:
                            obs = ref.functional_observation(state)
                        assert fp(env.observation) == fp(obs)
                        assert env.observation is env.observation
                    else:
                        assert fp(env.state) == fp(state)
                if script.random() < 0.08:
                    env.reset()
                    state = ref.functional_reset()
                    obs = None
                    continue
                a = script.choice(actions)
                r, d = env.step(a)
                state, er, ed = ref.functional_step(state, a)
                obs = None
                assert (r, d) == (er, ed)
                assert fp(env.state) == fp(state)
                n += 1
            assert rng_state(env._rng) == rng_state(ref._rng)
    print(f'[factory-env] compared {n} steps against functional threading')


# --------------------------------------------------------------------------
# section 2: GridWorld functional interface, validation and call protocol
# --------------------------------------------------------------------------


def small_state(shape=(4, 5), extra=None):
    grid = Grid.from_shape(Shape(*shape), factory=Floor)
    for y in range(shape[0]):
        for x in range(shape[1]):
            if y in (0, shape[0] - 1) or x in (0, shape[1] - 1):
                grid[Position(y, x)] = Wall()
    if extra is not None:
        grid[Position(1, 1)] = extra
    return State(grid, Agent(Position(2, 2), Orientation.F))


def section_gridworld(scale):
    checks = 0
    for ci, name in enumerate(sorted(CONFIGS)):
        comp = Components(CONFIGS[name])
        valid_actions = list(comp.action_space.actions)
        invalid_actions = [a for a in Action if a not in valid_actions]
        h, w = (comp.state_space.grid_shape.height,
                comp.state_space.grid_shape.width)
        wrong_shape_state = small_state((h + 1, w + 2))
        # right shape but an object type / colour outside of the space
        alien = small_state((h, w), extra=Key(Color.BLUE))

        for debug in (True, False):
            reset_gv_debug(debug)
            for seed in range(scale):
                spy = Spy()
                env = make_gridworld(comp, spy)
                env.set_seed(seed)
                rng = rnd.default_rng(seed)

                # functional_reset
                s = env.functional_reset()
                e = comp.reset_function(rng=rng)
                assert isinstance(s, State) and fp(s) == fp(e)
                assert [x[0] for x in spy.log] == ['reset']
                # functional interface does not touch the stateful one
                expect_raises(RuntimeError, lambda: env.state, STATE_MSG)

                # functional_observation: no memo at the functional level
                o1 = env.functional_observation(s)
                o2 = env.functional_observation(s)
                e1 = comp.observation_function(e, rng=rng)
                e2 = comp.observation_function(e, rng=rng)
                assert o1 is not o2
                assert fp(o1) == fp(e1) and fp(o2) == fp(e2)
                assert rng_state(env._rng) == rng_state(rng)

                # functional_step over a short action sequence
                script = random.Random(seed + 13 * ci)
                for t in range(12):
                    a = script.choice(valid_actions)
                    before = fp(s)
                    n_log = len(spy.log)
                    out = env.functional_step(s, a)
                    assert type(out) is tuple and len(out) == 3
                    ns, r, d = out
                    en = pickle.loads(pickle.dumps(e))
                    comp.transition_function(en, a, rng=rng)
                    er = comp.reward_function(e, a, en)
                    ed = comp.terminating_function(e, a, en)
                    assert fp(ns) == fp(en) and r == er and d == ed
                    assert type(r) is type(er) and type(d) is type(ed)
                    assert ns is not s and fp(s) == before
                    # no sharing of mutable parts between s and ns
                    assert ns.grid is not s.grid and ns.agent is not s.agent
                    assert ns.agent.transform is not s.agent.transform
                    entries = spy.log[n_log:]
                    assert [x[0] for x in entries] == [
                        'transition', 'reward', 'terminating']
                    assert entries[0][1] == id(ns) and entries[0][2] is a
                    assert entries[1][1:] == (id(s), a, id(ns))
                    assert entries[2][1:] == (id(s), a, id(ns))
                    assert rng_state(env._rng) == rng_state(rng)
                    s, e = ns, en
                    checks += 1

                # invalid action: always refused, before any component call
                for a in invalid_actions:
                    n_log = len(spy.log)
                    expect_raises(
                        ValueError, lambda: env.functional_step(s, a),
                        'action {action} does not satisfy action-space')
                    assert len(spy.log) == n_log
                    assert rng_state(env._rng) == rng_state(rng)

                # invalid states: refused only in debug mode, state first
                for bad in (wrong_shape_state, alien):
                    if bad is alien and comp.state_space.contains(alien):
                        continue
                    assert not comp.state_space.contains(bad)
                    n_log = len(spy.log)
                    if debug:
                        for a in valid_actions[:2] + invalid_actions[:1]:
                            expect_raises(
                                ValueError,
                                lambda: env.functional_step(bad, a),
                                'state does not satisfy state_space')
                        assert len(spy.log) == n_log
                        assert rng_state(env._rng) == rng_state(rng)
                    else:
                        for a in invalid_actions[:1]:
                            expect_raises(
                                ValueError,
                                lambda: env.functional_step(bad, a),
                                'action {action} does not satisfy '
                                'action-space')
                        assert len(spy.log) == n_log
                checks += 1
    reset_gv_debug(True)

    # custom components producing values outside of the spaces
    comp = Components(CONFIGS['keydoor.5x5'])
    good = comp.reset_function(rng=rnd.default_rng(0))
    h, w = good.grid.shape.height, good.grid.shape.width
    bad_state = small_state((h + 1, w))
    calls = []

    def bad_reset(*, rng=None):
        calls.append('reset')
        return bad_state

    def bad_transition(state, action, *, rng=None):
        calls.append('transition')
        state.grid[Position(1, 1)] = Key(Color.GREEN)  # GREEN not in space

    def bad_observation(state, *, rng=None):
        calls.append('observation')
        return Observation(bad_state.grid, bad_state.agent)

    def reward(state, action, next_state):
        calls.append('reward')
        return 1.5

    def terminating(state, action, next_state):
        calls.append('terminating')
        return True

    for debug in (True, False):
        reset_gv_debug(debug)
        env = GridWorld(
            comp.state_space, comp.action_space, comp.observation_space,
            bad_reset, bad_transition, bad_observation, reward, terminating)
        env.set_seed(3)
        del calls[:]
        if debug:
            expect_raises(ValueError, env.functional_reset,
                          'state does not satisfy state_space')
            expect_raises(ValueError, env.reset,
                          'state does not satisfy state_space')
            # a failed reset leaves the environment un-reset
            expect_raises(RuntimeError, lambda: env.state, STATE_MSG)
            expect_raises(
                ValueError,
                lambda: env.functional_step(good, Action.MOVE_FORWARD),
                'next_state does not satisfy state_space')
            # reward / termination are not evaluated for a refused next state
            assert calls == ['reset', 'reset', 'transition'], calls
            expect_raises(ValueError,
                          lambda: env.functional_observation(good),
                          'observation does not satisfy observation_space')
            assert calls[-1] == 'observation'
        else:
            assert env.functional_reset() is bad_state
            env.reset()
            assert env.state is bad_state
            ns, r, d = env.functional_step(good, Action.MOVE_FORWARD)
            assert (r, d) == (1.5, True) and ns is not good
            assert type(ns.grid[Position(1, 1)]) is Key
            assert type(good.grid[Position(1, 1)]) is not Key or \
                good.grid[Position(1, 1)].color is not Color.GREEN
            o = env.functional_observation(good)
            assert o.grid is bad_state.grid
            assert calls == ['reset', 'reset', 'transition', 'reward',
                             'terminating', 'observation'], calls
            # stateful step goes through the same path
            r, d = env.step(Action.TURN_LEFT)
            assert (r, d) == (1.5, True)
            assert env.state is not bad_state
            assert env.observation is env.observation
            assert calls.count('observation') == 2
        checks += 1
    reset_gv_debug(True)

    # a stateful step with a refused next state keeps state and memo
    env = GridWorld(
        comp.state_space, comp.action_space, comp.observation_space,
        comp.reset_function, bad_transition, comp.observation_function,
        reward, terminating)
    env.set_seed(5)
    env.reset()
    s0, o0 = env.state, env.observation
    expect_raises(ValueError, lambda: env.step(Action.MOVE_FORWARD),
                  'next_state does not satisfy state_space')
    assert env.state is s0 and env.observation is o0
    checks += 1
    print(f'[gridworld] {checks} functional checks')


# --------------------------------------------------------------------------
# section 3: OuterEnv and GymEnvironment
# --------------------------------------------------------------------------

REPRESENTATIONS = ['default', 'no-overlap', 'compact']


def section_outer_env(scale):
    n = 0
    for ci, name in enumerate(sorted(CONFIGS)):
        comp = Components(CONFIGS[name])
        for ri, (srep_name, orep_name) in enumerate(
            [(None, None), ('default', 'default'), ('no-overlap', None),
             (None, 'compact'), ('compact', 'no-overlap')]
        ):
            for seed in range(scale):
                spy = Spy()
                inner = make_gridworld(comp, spy)
                inner.set_seed(seed)
                model = Model(comp, seed)
                srep = (None if srep_name is None else
                        make_state_representation(srep_name,
                                                  comp.state_space))
                orep = (None if orep_name is None else
                        make_observation_representation(
                            orep_name, comp.observation_space))
                # independent converter instances for the expected values
                srep_ref = (None if srep_name is None else
                            make_state_representation(srep_name,
                                                      comp.state_space))
                orep_ref = (None if orep_name is None else
                            make_observation_representation(
                                orep_name, comp.observation_space))
                if ri == 0:
                    outer = OuterEnv(inner)
                else:
                    outer = OuterEnv(inner, state_representation=srep,
                                     observation_representation=orep)
                assert outer.inner_env is inner
                assert outer.state_representation is srep
                assert outer.observation_representation is orep
                assert outer.action_space is inner.action_space

                def read_state():
                    n_log = len(spy.log)
                    if srep is None:
                        expect_raises(
                            RuntimeError, lambda: outer.state,
                            'State representation not available')
                    elif model.state is None:
                        expect_raises(RuntimeError, lambda: outer.state,
                                      STATE_MSG)
                    else:
                        got = outer.state
                        same_arrays(got, srep_ref.convert(model.state))
                        same_arrays(got, srep.convert(inner.state))
                        assert set(got) == set(srep.space)
                    assert len(spy.log) == n_log

                def read_observation():
                    n_log = len(spy.log)
                    if orep is None:
                        # no representation: refused *without* computing
                        # (and hence without drawing) an observation
                        expect_raises(
                            RuntimeError, lambda: outer.observation,
                            'Observation representation not available')
                        assert len(spy.log) == n_log
                    elif model.state is None:
                        expect_raises(RuntimeError,
                                      lambda: outer.observation, STATE_MSG)
                        assert len(spy.log) == n_log
                    else:
                        fresh = model.observation is None
                        got = outer.observation
                        expected = model.get_observation()
                        same_arrays(got, orep_ref.convert(expected))
                        same_arrays(got, orep.convert(inner.observation))
                        assert set(got) == set(orep.space)
                        assert len(spy.log) == n_log + (1 if fresh else 0)
                    assert rng_state(inner._rng) == rng_state(model.rng)

                # before reset
                read_state()
                read_observation()
                expect_raises(
                    RuntimeError,
                    lambda: outer.step(comp.action_space.actions[0]),
                    STATE_MSG)

                script = random.Random(seed + 7 * ci + 101 * ri)
                assert outer.reset() is None
                model.reset()
                for t in range(25):
                    for _ in range(script.choice([0, 1, 1, 2, 4])):
                        if script.random() < 0.5:
                            read_state()
                        else:
                            read_observation()
                    if script.random() < 0.1:
                        assert outer.reset() is None
                        model.reset()
                        continue
                    a = script.choice(comp.action_space.actions)
                    out = outer.step(a)
                    assert type(out) is tuple and len(out) == 2
                    assert out == model.step(a)
                    assert fp(inner.state) == fp(model.state)
                    n += 1
                read_state()
                read_observation()
                assert spy.count('observation') == model.n_observation_calls
                assert rng_state(inner._rng) == rng_state(model.rng)
    print(f'[outer-env] compared {n} steps')


def section_gym(scale):
    from gym_gridverse.gym import GymEnvironment, GymStateWrapper

    n = 0
    for ci, name in enumerate(sorted(CONFIGS)):
        comp = Components(CONFIGS[name])
        for with_state in (False, True):
            for seed in range(scale):
                spy = Spy()
                inner = make_gridworld(comp, spy)
                inner.set_seed(seed)
                model = Model(comp, seed)
                orep = make_observation_representation(
                    'default', comp.observation_space)
                srep = (make_state_representation('default',
                                                  comp.state_space)
                        if with_state else None)
                outer = OuterEnv(inner, state_representation=srep,
                                 observation_representation=orep)
                genv = GymEnvironment(outer)
                assert genv.outer_env is outer
                assert genv.action_space.n == comp.action_space.num_actions
                assert (genv.state_space is None) == (srep is None)
                assert set(genv.observation_space.spaces) == set(orep.space)
                if with_state:
                    assert set(genv.state_space.spaces) == set(srep.space)
                    for k, v in srep.space.items():
                        box = genv.state_space.spaces[k]
                        assert np.array_equal(box.low, v.lower_bound)
                        assert np.array_equal(box.high, v.upper_bound)
                for k, v in orep.space.items():
                    box = genv.observation_space.spaces[k]
                    assert np.array_equal(box.low, v.lower_bound)
                    assert np.array_equal(box.high, v.upper_bound)

                expect_raises(RuntimeError, lambda: genv.observation,
                              STATE_MSG)
                if with_state:
                    expect_raises(RuntimeError, lambda: genv.state,
                                  STATE_MSG)
                else:
                    expect_raises(RuntimeError, lambda: genv.state,
                                  'State representation not available')

                script = random.Random(seed + 3 * ci)
                got = genv.reset()
                model.reset()
                same_arrays(got, orep.convert(model.get_observation()))
                wrapped = GymStateWrapper(genv) if with_state else None
                for t in range(20):
                    for _ in range(script.choice([0, 1, 2])):
                        same_arrays(genv.observation,
                                    orep.convert(model.get_observation()))
                        if with_state:
                            same_arrays(genv.state,
                                        srep.convert(model.state))
                    if script.random() < 0.1:
                        if with_state and script.random() < 0.5:
                            got = wrapped.reset()
                            model.reset()
                            same_arrays(got, srep.convert(model.state))
                            # the wrapped reset also computed the observation
                            model.get_observation()
                        else:
                            got = genv.reset()
                            model.reset()
                            same_arrays(
                                got, orep.convert(model.get_observation()))
                        continue
                    ai = script.randrange(comp.action_space.num_actions)
                    a = comp.action_space.actions[ai]
                    if with_state and script.random() < 0.3:
                        out = wrapped.step(ai)
                        er, ed = model.step(a)
                        assert type(out) is tuple and len(out) == 4
                        same_arrays(out[0], srep.convert(model.state))
                        assert out[1:3] == (er, ed)
                        assert list(out[3]) == ['observation']
                        same_arrays(out[3]['observation'],
                                    orep.convert(model.get_observation()))
                    else:
                        out = genv.step(ai)
                        er, ed = model.step(a)
                        assert type(out) is tuple and len(out) == 4
                        same_arrays(out[0],
                                    orep.convert(model.get_observation()))
                        assert out[1:] == (er, ed, {})
                    n += 1
                assert spy.count('observation') == model.n_observation_calls
                assert rng_state(inner._rng) == rng_state(model.rng)
    print(f'[gym] compared {n} steps')


def main():
    scale = {'A': (6, 3, 2, 2, 2), 'B': (3, 3, 5, 2, 2),
             'C': (3, 2, 2, 4, 4)}[FOCUS]
    reset_gv_debug(True)
    reset_gv_rng(0)
    section_inner_env(scale[0])
    section_factory_env(scale[1])
    section_gridworld(scale[2])
    section_outer_env(scale[3])
    section_gym(scale[4])
    print(f'demo (focus {FOCUS}): all checks passed')


if __name__ == '__main__':
    main()
