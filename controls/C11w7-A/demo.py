"""Check program for move_obstacles / teleport (property C11).

Runs the library's `move_obstacles` and `teleport` transition functions
through the public API and compares them, cell by cell and object identity by
object identity, against an independent re-implementation written on plain
lists of tuples (no library geometry / grid helpers), including the number and
order of the random draws (generator state compared after every call).

Run as:  cd /tmp/wt7-C11 && /venv/bin/python -W ignore _seed/A/demo.py
Must exit 0 on the clean tree and with the commit applied.
"""
import copy
import hashlib
import itertools
import os
import sys

sys.path.insert(0, os.getcwd())

import numpy as np  # noqa: E402
import numpy.random as rnd  # noqa: E402

from gym_gridverse.action import Action  # noqa: E402
from gym_gridverse.agent import Agent  # noqa: E402
from gym_gridverse.envs import transition_functions as tfs  # noqa: E402
from gym_gridverse.envs.reset_functions import (  # noqa: E402
    factory as reset_factory,
)
from gym_gridverse.envs.yaml.factory import factory_env_from_data  # noqa: E402
from gym_gridverse.geometry import (  # noqa: E402
    Orientation,
    Position,
    Shape,
)
from gym_gridverse.grid import Grid  # noqa: E402
from gym_gridverse.grid_object import (  # noqa: E402
    Beacon,
    Box,
    Color,
    Door,
    Exit,
    Floor,
    Key,
    MovingObstacle,
    Telepod,
    Wall,
)
from gym_gridverse.rng import reset_gv_rng  # noqa: E402
from gym_gridverse.state import State  # noqa: E402

move_obstacles = tfs.move_obstacles
teleport = tfs.teleport

CHECKS = 0


def check(condition, *info):
    global CHECKS
    CHECKS += 1
    if not condition:
        raise AssertionError(info)


# --------------------------------------------------------------------------
# independent reference model (plain python, (y, x) tuples)
# --------------------------------------------------------------------------

# clockwise from the top: up, right, down, left
REF_NEIGHBOURS = ((-1, 0), (0, 1), (1, 0), (0, -1))


def ref_move_obstacles(cells, choose):
    """cells: list of lists of grid objects, modified in place.

    `choose(n)` is only called with n > 0 and returns an index in range(n).
    Returns the list of moves [(obstacle, from, to-or-None)].
    """
    height, width = len(cells), len(cells[0])
    obstacles = [
        (y, x)
        for y in range(height)
        for x in range(width)
        if isinstance(cells[y][x], MovingObstacle)
    ]
    moves = []
    for y, x in obstacles:
        free = []
        for dy, dx in REF_NEIGHBOURS:
            ny, nx = y + dy, x + dx
            if ny < 0 or nx < 0 or ny >= height or nx >= width:
                continue
            if isinstance(cells[ny][nx], Floor):
                free.append((ny, nx))
        if not free:
            moves.append((cells[y][x], (y, x), None, free))
            continue
        ny, nx = free[choose(len(free))]
        moves.append((cells[y][x], (y, x), (ny, nx), free))
        cells[y][x], cells[ny][nx] = cells[ny][nx], cells[y][x]
    return moves


def ref_teleport_targets(cells, agent_yx):
    """other telepods of the colour of the one under the agent, row-major"""
    ay, ax = agent_yx
    pod = cells[ay][ax]
    if not isinstance(pod, Telepod):
        return None
    return [
        (y, x)
        for y in range(len(cells))
        for x in range(len(cells[0]))
        if (y, x) != (ay, ax)
        and isinstance(cells[y][x], Telepod)
        and cells[y][x].color is pod.color
    ]


class ScriptedRng:
    """Stand-in generator resolving every random choice from a script.

    Mirrors numpy's behaviour of refusing to choose among zero alternatives.
    """

    def __init__(self, script):
        self.script = list(script)
        self.arities = []

    def choice(self, n):
        if n <= 0:
            raise ValueError('a must be a positive integer')
        k = len(self.arities)
        self.arities.append(n)
        return self.script[k] if k < len(self.script) else 0


def all_scripts(run):
    """enumerates every resolution of the random choices made by `run`.

    `run(script)` must return the list of arities of the choices it made.
    """
    pending = [()]
    while pending:
        script = pending.pop()
        arities = run(script)
        check(len(arities) >= len(script), script, arities)
        if len(arities) == len(script):
            yield script
            continue
        # extend by one more choice
        n = arities[len(script)]
        for i in range(n):
            pending.append(script + (i,))


def snapshot(grid):
    return [list(row) for row in grid.objects]


def ids(cells):
    return tuple(tuple(id(obj) for obj in row) for row in cells)


def rng_state(rng):
    return repr(rng.bit_generator.state)


# --------------------------------------------------------------------------
# grid generation
# --------------------------------------------------------------------------

MAKERS = {
    'F': Floor,
    'W': Wall,
    'O': MovingObstacle,
    'E': Exit,
    'r': lambda: Telepod(Color.RED),
    'g': lambda: Telepod(Color.GREEN),
    'b': lambda: Telepod(Color.BLUE),
    'K': lambda: Key(Color.RED),
    'D': lambda: Door(Door.Status.CLOSED, Color.RED),
    'B': lambda: Box(Floor()),
    'X': lambda: Box(MovingObstacle()),
    'N': lambda: Beacon(Color.RED),
}


def make_grid(rows):
    return Grid([[MAKERS[c]() for c in row] for row in rows])


def random_rows(gen, height, width, alphabet, weights):
    p = np.asarray(weights, dtype=float)
    p = p / p.sum()
    return [
        ''.join(gen.choice(list(alphabet), p=p) for _ in range(width))
        for _ in range(height)
    ]


SHAPES = [
    (1, 1),
    (1, 2),
    (2, 1),
    (1, 5),
    (5, 1),
    (2, 2),
    (2, 3),
    (3, 2),
    (3, 3),
    (2, 7),
    (7, 2),
    (3, 5),
    (5, 3),
    (4, 9),
    (9, 4),
    (6, 6),
    (8, 11),
]


def some_agent(gen, height, width, held=None):
    return Agent(
        Position(int(gen.integers(height)), int(gen.integers(width))),
        list(Orientation)[int(gen.integers(4))],
        held,
    )


# --------------------------------------------------------------------------
# move_obstacles
# --------------------------------------------------------------------------


def check_obstacle_rules(before, after, moves):
    """the rules of the property, stated directly on before/after grids"""
    height, width = len(before), len(before[0])
    where_before = {
        id(before[y][x]): (y, x) for y in range(height) for x in range(width)
    }
    where_after = {
        id(after[y][x]): (y, x) for y in range(height) for x in range(width)
    }
    # nothing lost, nothing duplicated
    check(len(where_before) == height * width)
    check(where_before.keys() == where_after.keys())
    for y in range(height):
        for x in range(width):
            obj = before[y][x]
            ny, nx = where_after[id(obj)]
            distance = abs(ny - y) + abs(nx - x)
            if isinstance(obj, MovingObstacle):
                # moved at most once, to one of the four neighbours
                check(distance <= 1, (y, x), (ny, nx))
            elif not isinstance(obj, Floor):
                # everything else stays
                check(distance == 0, (y, x), (ny, nx))
    for obstacle, source, target, free in moves:
        if target is None:
            check(free == [])
            check(where_after[id(obstacle)] == source)
        else:
            check(target in free)
            check(where_after[id(obstacle)] == target)


def compare_move_obstacles_seeded(rows, seed, gen, use_global):
    grid = make_grid(rows)
    held = Key(Color.BLUE)
    agent = some_agent(gen, grid.shape.height, grid.shape.width, held)
    pose = (agent.position, agent.orientation)
    state = State(grid, agent)
    objects_list = grid.objects
    row_lists = list(grid.objects)
    before = snapshot(grid)

    reference = snapshot(grid)
    ref_rng = rnd.default_rng(seed)
    moves = ref_move_obstacles(reference, lambda n: int(ref_rng.choice(n)))

    action = list(Action)[int(gen.integers(len(Action)))]
    if use_global:
        rng = reset_gv_rng(seed)
        result = move_obstacles(state, action)
    else:
        rng = rnd.default_rng(seed)
        result = move_obstacles(state, action, rng=rng)

    check(result is None)
    after = snapshot(grid)
    check(ids(after) == ids(reference), rows, seed)
    check(rng_state(rng) == rng_state(ref_rng), rows, seed)
    check_obstacle_rules(before, after, moves)
    # in place: same containers, same agent
    check(grid.objects is objects_list)
    check(all(a is b for a, b in zip(grid.objects, row_lists)))
    check(state.agent is agent and agent.grid_object is held)
    check((agent.position, agent.orientation) == pose)
    check(grid.shape.as_tuple == (len(rows), len(rows[0])))


def compare_move_obstacles_exhaustive(rows):
    """every resolution of every random choice, against the reference"""

    def run_library(script):
        grid = make_grid(rows)
        rng = ScriptedRng(script)
        agent = Agent(Position(0, 0), Orientation.F)
        move_obstacles(State(grid, agent), Action.MOVE_FORWARD, rng=rng)
        run_library.outcome = kinds(snapshot(grid))
        return rng.arities

    def run_reference(script):
        cells = snapshot(make_grid(rows))
        rng = ScriptedRng(script)
        run_reference.moves = ref_move_obstacles(cells, rng.choice)
        run_reference.outcome = kinds(cells)
        return rng.arities

    library = {}
    for script in all_scripts(run_library):
        run_library(script)
        library[script] = run_library.outcome
    reference = {}
    for script in all_scripts(run_reference):
        run_reference(script)
        reference[script] = run_reference.outcome
    check(library == reference, rows)

    # every free neighbour is a possible destination: the first choice has
    # exactly as many alternatives as the first obstacle has floor neighbours
    cells = snapshot(make_grid(rows))
    moves = ref_move_obstacles(cells, lambda n: 0)
    movable = [m for m in moves if m[3]]
    if movable:
        first = movable[0]
        firsts = {script[0] for script in library}
        check(firsts == set(range(len(first[3]))), rows)
    else:
        check(list(library) == [()], rows)
    return len(library)


def kinds(cells):
    return tuple(
        tuple(
            (type(obj).__name__, obj.color.name, obj.state_index)
            for obj in row
        )
        for row in cells
    )


def section_move_obstacles():
    gen = rnd.default_rng(20240611)

    # seeded, random layouts of every shape (dense, sparse, mixed objects)
    alphabets = [
        ('FWO', (5, 2, 3)),
        ('FO', (1, 1)),
        ('FO', (1, 6)),
        ('FWOErgKDBXN', (8, 2, 5, 1, 1, 1, 1, 1, 1, 1, 1)),
        ('WO', (1, 1)),
    ]
    for height, width in SHAPES:
        for alphabet, weights in alphabets:
            for k in range(12):
                rows = random_rows(gen, height, width, alphabet, weights)
                for seed in range(4):
                    compare_move_obstacles_seeded(
                        rows, seed + 10 * k, gen, use_global=(seed == 3)
                    )

    # fully exhaustive: every small grid over {Floor, Wall, Obstacle} and
    # every resolution of the random choices
    total = 0
    for height, width in [(1, 1), (1, 2), (2, 1), (1, 4), (4, 1), (2, 2)]:
        for cells in itertools.product('FWO', repeat=height * width):
            rows = [
                ''.join(cells[y * width : (y + 1) * width])
                for y in range(height)
            ]
            total += compare_move_obstacles_exhaustive(rows)
    for height, width in [(2, 3), (3, 2)]:
        for cells in itertools.product('FWO', repeat=height * width):
            if cells.count('O') > 3:
                continue
            rows = [
                ''.join(cells[y * width : (y + 1) * width])
                for y in range(height)
            ]
            total += compare_move_obstacles_exhaustive(rows)
    for height, width in [(3, 3), (3, 4), (4, 3), (2, 5), (5, 2)]:
        for _ in range(60):
            rows = random_rows(gen, height, width, 'FWOr', (5, 1, 2, 1))
            if sum(row.count('O') for row in rows) > 4:
                continue
            total += compare_move_obstacles_exhaustive(rows)
    check(total > 0)

    # hand-written corner cases
    for rows in [
        ['O'],
        ['OF'],
        ['FO'],
        ['OOF'],
        ['FOO'],
        ['OFO'],
        ['O', 'F'],
        ['F', 'O'],
        ['OO', 'OF'],
        ['FO', 'OO'],
        ['OFFFFFFO'],
        ['OWF', 'WFF', 'FFO'],
        ['FFF', 'FOF', 'FFF'],
        ['OFO', 'FFF', 'OFO'],
    ]:
        compare_move_obstacles_exhaustive(rows)
        for seed in range(25):
            compare_move_obstacles_seeded(rows, seed, gen, use_global=False)

    # repeated calls on the same state with one generator (second and later
    # calls must behave like the first)
    for height, width in [(4, 7), (7, 4), (1, 6), (6, 1), (5, 5)]:
        rows = random_rows(gen, height, width, 'FWO', (6, 1, 3))
        grid = make_grid(rows)
        state = State(grid, some_agent(gen, height, width))
        reference = snapshot(grid)
        rng, ref_rng = rnd.default_rng(99), rnd.default_rng(99)
        for _ in range(40):
            move_obstacles(state, Action.TURN_LEFT, rng=rng)
            ref_move_obstacles(reference, lambda n: int(ref_rng.choice(n)))
            check(ids(snapshot(grid)) == ids(reference))
            check(rng_state(rng) == rng_state(ref_rng))


# --------------------------------------------------------------------------
# teleport
# --------------------------------------------------------------------------


def compare_teleport(rows, gen):
    height, width = len(rows), len(rows[0])
    for y in range(height):
        for x in range(width):
            for orientation in Orientation:
                action = list(Action)[int(gen.integers(len(Action)))]
                seed = int(gen.integers(1000))

                grid = make_grid(rows)
                cells = snapshot(grid)
                held = Key(Color.GREEN)
                agent = Agent(Position(y, x), orientation, held)
                state = State(grid, agent)
                targets = ref_teleport_targets(cells, (y, x))

                # seeded run: same draw, same destination
                rng, ref_rng = rnd.default_rng(seed), rnd.default_rng(seed)
                result = teleport(state, action, rng=rng)
                check(result is None)
                if targets:
                    expected = targets[int(ref_rng.choice(len(targets)))]
                else:
                    expected = (y, x)
                check(isinstance(agent.position, Position))
                check(agent.position.yx == expected, rows, (y, x), seed)
                check(agent.position == Position(*expected))
                check(rng_state(rng) == rng_state(ref_rng), rows, (y, x))
                check(agent.orientation is orientation)
                check(agent.grid_object is held and state.agent is agent)
                check(ids(snapshot(grid)) == ids(cells))

                # every resolution of the random choice
                reached = []

                def run(script):
                    agent = Agent(Position(y, x), orientation)
                    rng = ScriptedRng(script)
                    teleport(State(grid, agent), action, rng=rng)
                    run.position = agent.position.yx
                    return rng.arities

                for script in all_scripts(run):
                    run(script)
                    reached.append(run.position)
                if targets:
                    # each partner possible, exactly once, in row-major order
                    check(sorted(reached) == sorted(targets), rows, (y, x))
                    check((y, x) not in reached)
                else:
                    # not on a telepod, or no partner: never displaced
                    check(reached == [(y, x)], rows, (y, x))
                check(ids(snapshot(grid)) == ids(cells))


def section_teleport():
    gen = rnd.default_rng(7)
    for height, width in SHAPES:
        for alphabet, weights in [
            ('Frgb', (4, 3, 2, 1)),
            ('FWOrgbKN', (6, 1, 1, 3, 2, 1, 1, 1)),
            ('r', (1,)),
            ('rg', (1, 1)),
        ]:
            repeats = 2 if height * width > 40 else 4
            for _ in range(repeats):
                compare_teleport(
                    random_rows(gen, height, width, alphabet, weights), gen
                )
    for rows in [
        ['r'],
        ['rr'],
        ['r', 'r'],
        ['rg'],
        ['rgr'],
        ['rFFFFFFr'],
        ['rFg', 'FFF', 'gFr'],
        ['rrr', 'rrr'],
        ['KFr', 'rFK'],  # red keys are not red telepods
    ]:
        compare_teleport(rows, gen)

    # library generator when rng is omitted
    grid = make_grid(['rFr', 'FrF'])
    for seed in range(30):
        agent = Agent(Position(0, 0), Orientation.F)
        rng = reset_gv_rng(seed)
        teleport(State(grid, agent), Action.ACTUATE)
        ref_rng = rnd.default_rng(seed)
        expected = [(0, 2), (1, 1)][int(ref_rng.choice(2))]
        check(agent.position.yx == expected)
        check(rng_state(rng) == rng_state(ref_rng))


# --------------------------------------------------------------------------
# whole environments (built from python dicts), chained dynamics
# --------------------------------------------------------------------------


def env_data(reset_function, transition_names, objects, colors):
    return {
        'state_space': {'objects': objects, 'colors': colors},
        'action_space': [
            'MOVE_FORWARD',
            'MOVE_BACKWARD',
            'MOVE_LEFT',
            'MOVE_RIGHT',
            'TURN_LEFT',
            'TURN_RIGHT',
        ],
        'observation_space': {'objects': objects, 'colors': colors},
        'reset_function': reset_function,
        'transition_functions': [{'name': n} for n in transition_names],
        'reward_functions': [{'name': 'living_reward', 'reward': -0.05}],
        'observation_function': {
            'name': 'partially_occluded',
            'area': [[-3, 0], [-2, 2]],
        },
        'terminating_function': {'name': 'reach_exit'},
    }


def digest_trajectory(env, seed, steps):
    env.set_seed(seed)
    env.reset()
    gen = rnd.default_rng(seed + 1000)
    actions = env.action_space.actions
    h = hashlib.sha256()
    for _ in range(steps):
        h.update(repr(kinds(env.state.grid.objects)).encode())
        h.update(repr(env.state.agent.position.yx).encode())
        h.update(env.state.agent.orientation.name.encode())
        action = actions[int(gen.integers(len(actions)))]
        _, done = env.step(action)
        if done:
            env.reset()
    return h.hexdigest()


# digests recorded on the unmodified library
RECORDED = {
    'obstacles': 'd746ee7a8f51ef70f4729dfbf4faa7c016e3accd943af0043c0024c89a90aaa9',
    'teleport': 'a5e0d552476203e8ba35f2c65a726aa08101e0eca2cf914f43524aa050ae9833',
}


def section_envs():
    gen = rnd.default_rng(5)

    # reset functions + chained transition functions with explicit rng,
    # compared step by step against the reference
    chain = tfs.factory(
        'chain',
        transition_functions=[
            tfs.factory('move_agent'),
            tfs.factory('turn_agent'),
            tfs.factory('move_obstacles'),
            tfs.factory('teleport'),
        ],
    )
    agent_only = tfs.factory(
        'chain',
        transition_functions=[
            tfs.factory('move_agent'),
            tfs.factory('turn_agent'),
        ],
    )
    resets = [
        reset_factory(
            'dynamic_obstacles', shape=Shape(6, 9), num_obstacles=6
        ),
        reset_factory(
            'dynamic_obstacles', shape=Shape(9, 5), num_obstacles=8
        ),
        reset_factory('teleport', shape=Shape(5, 8)),
        reset_factory('teleport', shape=Shape(8, 4)),
    ]
    for reset in resets:
        for seed in range(6):
            rng = rnd.default_rng(seed)
            state = reset(rng=rng)
            # add telepods / obstacles so both mechanisms are live
            floor = [
                (y, x)
                for y in range(state.grid.shape.height)
                for x in range(state.grid.shape.width)
                if type(state.grid[y, x]) is Floor
            ]
            picks = gen.permutation(len(floor))[:5]
            extra = [
                Telepod(Color.GREEN),
                Telepod(Color.GREEN),
                Telepod(Color.GREEN),
                MovingObstacle(),
                MovingObstacle(),
            ]
            for k, obj in zip(picks, extra):
                state.grid[floor[int(k)]] = obj

            for _ in range(60):
                action = list(Action)[int(gen.integers(len(Action)))]
                # reference: library agent dynamics, then the model
                expected = copy.deepcopy(state)
                agent_only(expected, action, rng=None)
                cells = snapshot(expected.grid)
                ref_rng = copy.deepcopy(rng)
                ref_move_obstacles(cells, lambda n: int(ref_rng.choice(n)))
                targets = ref_teleport_targets(cells, expected.agent.position.yx)
                position = expected.agent.position.yx
                if targets:
                    position = targets[int(ref_rng.choice(len(targets)))]

                next_state = tfs.transition_with_copy(
                    chain, state, action, rng=rng
                )
                check(next_state is not state)
                check(kinds(next_state.grid.objects) == kinds(cells))
                check(next_state.agent.position.yx == position)
                check(
                    next_state.agent.orientation is expected.agent.orientation
                )
                check(rng_state(rng) == rng_state(ref_rng))
                state = next_state

    # full environments from the yaml factory (python dicts), twice each in
    # the same process, against digests recorded on the unmodified library
    configs = {
        'obstacles': env_data(
            {
                'name': 'dynamic_obstacles',
                'shape': [6, 9],
                'num_obstacles': 7,
                'random_agent': True,
            },
            ['move_agent', 'turn_agent', 'move_obstacles'],
            ['Wall', 'Floor', 'Exit', 'MovingObstacle'],
            ['NONE'],
        ),
        'teleport': env_data(
            {'name': 'teleport', 'shape': [5, 8]},
            ['move_agent', 'turn_agent', 'teleport', 'move_obstacles'],
            ['Wall', 'Floor', 'Exit', 'Telepod', 'MovingObstacle'],
            ['NONE', 'RED'],
        ),
    }
    for name, data in configs.items():
        digests = []
        for _ in range(2):
            reset_gv_rng(0)
            env = factory_env_from_data(copy.deepcopy(data))
            digests.append(
                [digest_trajectory(env, seed, 150) for seed in range(5)]
            )
        check(digests[0] == digests[1], name)
        joined = hashlib.sha256(''.join(digests[0]).encode()).hexdigest()
        if '--record' in sys.argv:
            print(f"    {name!r}: {joined!r},")
        else:
            check(joined == RECORDED[name], name, joined)


def main():
    section_move_obstacles()
    section_teleport()
    section_envs()
    print(f'OK ({CHECKS} checks)')


if __name__ == '__main__':
    main()
