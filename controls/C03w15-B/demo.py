"""Demo for change B (`Grid.subgrid` gains a keyword-only `factory` for the
cells outside of the grid, defaulting to `Hidden`; `from_visibility` passes it
explicitly).

Run from the worktree root:  /venv/bin/python _seed/B/demo.py

Exits 0 on the pristine tree and with the patch applied (the checks of the new
keyword are only run if `Grid.subgrid` accepts it).  It checks

1. `Grid.subgrid` against a reference implementation embedded below, on
   non-square grids and areas inside / partially outside (each side, negative
   coordinates) / completely outside / larger than the grid: same objects in
   the same cells, a *new* Hidden object in every cell outside of the grid
   (never shared between cells or between calls), new row lists, operand not
   modified;
2. the observation functions against a reference observation derived
   independently (cell by cell, from the agent's pose), for all four headings,
   agents in corners and on borders, asymmetric view areas, every built-in
   visibility function;
3. the C03 property through `GridWorld.functional_observation` /
   `functional_step`: inputs are not modified, next states share no mutable
   component with inputs, answers are repeatable after arbitrary intervening
   calls on other environments and re-seeding, copies are equal and hash
   equally.
"""
import inspect
import os
import sys
from functools import partial

sys.path.insert(0, os.getcwd())

import numpy.random as rnd  # noqa: E402

from gym_gridverse.action import Action  # noqa: E402
from gym_gridverse.agent import Agent  # noqa: E402
from gym_gridverse.envs import observation_functions as obs_fs  # noqa: E402
from gym_gridverse.envs import reward_functions as rew_fs  # noqa: E402
from gym_gridverse.envs import terminating_functions as ter_fs  # noqa: E402
from gym_gridverse.envs import transition_functions as tra_fs  # noqa: E402
from gym_gridverse.envs.gridworld import GridWorld  # noqa: E402
from gym_gridverse.envs.visibility_functions import (  # noqa: E402
    visibility_function_registry,
)
from gym_gridverse.geometry import (  # noqa: E402
    Area,
    Orientation,
    Position,
    Shape,
)
from gym_gridverse.grid import Grid  # noqa: E402
from gym_gridverse.grid_object import (  # noqa: E402
    Box,
    Color,
    Door,
    Exit,
    Floor,
    Hidden,
    Key,
    MovingObstacle,
    Telepod,
    Wall,
)
from gym_gridverse.rng import get_gv_rng, reset_gv_rng  # noqa: E402
from gym_gridverse.spaces import (  # noqa: E402
    ActionSpace,
    ObservationSpace,
    StateSpace,
)
from gym_gridverse.state import State  # noqa: E402
from gym_gridverse.utils.fast_copy import fast_copy  # noqa: E402

CHECKS = 0
HAS_FACTORY = 'factory' in inspect.signature(Grid.subgrid).parameters


def check(condition, message):
    global CHECKS
    CHECKS += 1
    if not condition:
        print(f'FAIL: {message}')
        sys.exit(1)


# --------------------------------------------------------------------------
# structural description of states / observations (independent of __eq__)
# --------------------------------------------------------------------------


def describe_object(obj):
    description = [type(obj).__name__, obj.state_index, obj.color.name]
    if isinstance(obj, Box):
        description.append(describe_object(obj.content))
    if isinstance(obj, Door):
        description.append(obj.state.name)
    return tuple(description)


def describe_grid(grid):
    return (
        (grid.shape.height, grid.shape.width),
        tuple(tuple(describe_object(obj) for obj in row) for row in grid.objects),
    )


def describe(state):
    """works for states and observations"""
    return (
        describe_grid(state.grid),
        (state.agent.position.y, state.agent.position.x),
        state.agent.orientation.name,
        describe_object(state.agent.grid_object),
    )


def object_ids(obj):
    ids = {id(obj)}
    if isinstance(obj, Box):
        ids |= object_ids(obj.content)
    return ids


def mutable_ids(state):
    ids = {
        id(state.grid),
        id(state.grid.objects),
        id(state.agent),
        id(state.agent.transform),
    }
    ids |= object_ids(state.agent.grid_object)
    for row in state.grid.objects:
        ids.add(id(row))
        for obj in row:
            ids |= object_ids(obj)
    return ids


def scramble(state):
    """modifies every mutable component of a state, in place"""
    state.agent.position = Position(0, 0)
    state.agent.orientation = state.agent.orientation * Orientation.B
    held = state.agent.grid_object
    if isinstance(held, Box):
        held.content = Wall()
    if 'color' in vars(held):
        held.color = Color.YELLOW
    state.agent.grid_object = Key(Color.BLUE)
    for row in state.grid.objects:
        for obj in row:
            if isinstance(obj, Door):
                obj.state = Door.Status.OPEN
                obj.color = Color.YELLOW
            elif isinstance(obj, Box):
                if isinstance(obj.content, Box):
                    obj.content.content = Wall()
                obj.content = Wall()
            elif 'color' in vars(obj):
                obj.color = Color.YELLOW
    for position in list(state.grid.area.positions()):
        state.grid[position] = Wall()
    state.grid.objects[0].reverse()


# --------------------------------------------------------------------------
# scenarios
# --------------------------------------------------------------------------

CHARS = {
    '#': Wall,
    '.': Floor,
    'E': Exit,
    'e': lambda: Exit(Color.GREEN),
    'O': MovingObstacle,
    'r': lambda: Telepod(Color.RED),
    'n': lambda: Telepod(Color.NONE),
    'k': lambda: Key(Color.RED),
    'K': lambda: Key(Color.NONE),
    'D': lambda: Door(Door.Status.LOCKED, Color.RED),
    'd': lambda: Door(Door.Status.CLOSED, Color.GREEN),
    'o': lambda: Door(Door.Status.OPEN, Color.NONE),
    'B': lambda: Box(Box(Key(Color.RED))),
    'b': lambda: Box(Floor()),
}


def make_grid(rows):
    return Grid([[CHARS[c]() for c in row] for row in rows])


def make_state(rows, agent_yx, orientation, held=None):
    return State(make_grid(rows), Agent(Position(*agent_yx), orientation, held))


LAYOUTS = {
    'wide': [
        '.k#..D.r.',
        'B.#.o..#E',
        '..d.O.K.n',
    ],
    'tall': [
        'r.#',
        '.Dk',
        '#..',
        'b.o',
        '..#',
        'O.E',
        'd.K',
    ],
    'row': ['.k#oE.D.'],
    'column': ['.', 'D', 'k', '#', 'o', 'e'],
    'cell': ['K'],
    'open': ['....', '.e..', '..B.', '....', 'n...'],
}

HELD = [
    None,
    lambda: Key(Color.RED),
    lambda: Key(Color.NONE),
    lambda: Box(Box(Key(Color.GREEN))),
]


def agent_positions(rows):
    """corners, border midpoints, centre (without repetitions)"""
    height, width = len(rows), len(rows[0])
    ys = sorted({0, height // 2, height - 1})
    xs = sorted({0, width // 2, width - 1})
    return [(y, x) for y in ys for x in xs]


def scenarios():
    k = 0
    for name, rows in LAYOUTS.items():
        for agent_yx in agent_positions(rows):
            for orientation in Orientation:
                held = HELD[k % len(HELD)]
                k += 1
                yield (
                    f'{name}@{agent_yx}/{orientation.name}',
                    partial(make_state, rows, agent_yx, orientation),
                    held,
                )


# --------------------------------------------------------------------------
# part 1: Grid.subgrid against a reference
# --------------------------------------------------------------------------


def ref_subgrid(grid, area):
    """rows of (object or None), None standing for a cell outside the grid"""
    height, width = len(grid.objects), len(grid.objects[0])
    return [
        [
            grid.objects[y][x] if y in range(height) and x in range(width) else None
            for x in range(area.xs[0], area.xs[1] + 1)
        ]
        for y in range(area.ys[0], area.ys[1] + 1)
    ]


def areas_for(height, width):
    yield Area((0, height - 1), (0, width - 1))  # the whole grid
    yield Area((0, 0), (0, 0))
    yield Area((height - 1, height - 1), (width - 1, width - 1))
    yield Area((-1, height), (-1, width))  # one larger all around
    yield Area((-3, -1), (-2, -1))  # completely outside (negative)
    yield Area((-1, -1), (0, width - 1))  # just above (would wrap around)
    yield Area((0, height - 1), (-1, -1))  # just left (would wrap around)
    yield Area((height, height + 1), (0, width))  # just below
    yield Area((0, height - 1), (width, width + 2))  # just right
    yield Area((-2, 0), (-1, 1))  # over the top left corner
    yield Area((height - 1, height + 1), (width - 2, width + 3))  # bottom right
    yield Area((-height, 0), (width - 1, 2 * width))  # top right
    yield Area((height // 2, height + 2), (-4, width // 2))  # bottom left
    yield Area((-5, height + 4), (width // 2, width // 2))  # a long column
    yield Area((height // 2, height // 2), (-6, width + 3))  # a long row


def check_subgrid(name, grid, area, result, calls_expected=None):
    expected = ref_subgrid(grid, area)
    check(type(result) is Grid, f'{name}: type')
    check(result is not grid, f'{name}: new grid')
    check(
        (result.shape.height, result.shape.width) == (area.height, area.width),
        f'{name}: shape',
    )
    check(
        [len(row) for row in result.objects] == [area.width] * area.height,
        f'{name}: rows',
    )
    grid_lists = {id(grid.objects)} | {id(row) for row in grid.objects}
    check(id(result.objects) not in grid_lists, f'{name}: objects list shared')
    check(
        all(id(row) not in grid_lists for row in result.objects),
        f'{name}: row list shared',
    )
    check(
        len({id(row) for row in result.objects}) == area.height,
        f'{name}: row list repeated',
    )
    outside = []
    for row, row_expected in zip(result.objects, expected):
        for obj, obj_expected in zip(row, row_expected):
            if obj_expected is None:
                outside.append(obj)
            else:
                check(obj is obj_expected, f'{name}: wrong object')
    return outside


def part_subgrid():
    previous_outside = []
    for layout, rows in LAYOUTS.items():
        grid = make_grid(rows)
        before = describe_grid(grid)
        before_ids = [[id(obj) for obj in row] for row in grid.objects]
        height, width = len(rows), len(rows[0])
        grid_object_ids = set()
        for row in grid.objects:
            for obj in row:
                grid_object_ids |= object_ids(obj)

        for area in areas_for(height, width):
            name = f'subgrid {layout} {area}'
            for result in (grid.subgrid(area), grid.subgrid(area)):
                outside = check_subgrid(name, grid, area, result)
                check(
                    all(type(obj) is Hidden for obj in outside),
                    f'{name}: outside cells are Hidden',
                )
                check(
                    len({id(obj) for obj in outside}) == len(outside),
                    f'{name}: outside objects shared between cells',
                )
                check(
                    not ({id(obj) for obj in outside} & grid_object_ids),
                    f'{name}: outside objects taken from the grid',
                )
                check(
                    not (
                        {id(obj) for obj in outside}
                        & {id(obj) for obj in previous_outside}
                    ),
                    f'{name}: outside objects shared between calls',
                )
                # kept alive, so that ids cannot be reused
                previous_outside.extend(outside)

                # writing to the slice does not write to the grid
                for position in list(result.area.positions()):
                    result[position] = Wall()
                check(describe_grid(grid) == before, f'{name}: grid modified')
                check(
                    [[id(obj) for obj in row] for row in grid.objects]
                    == before_ids,
                    f'{name}: grid objects replaced',
                )

            if HAS_FACTORY:
                part_subgrid_factory(name, grid, area, before)


def part_subgrid_factory(name, grid, area, before):
    num_outside = sum(
        obj is None for row in ref_subgrid(grid, area) for obj in row
    )

    # the default, spelled out
    result = grid.subgrid(area, factory=Hidden)
    outside = check_subgrid(name, grid, area, result)
    check(all(type(obj) is Hidden for obj in outside), f'{name}: factory=Hidden')
    check(
        describe_grid(result) == describe_grid(grid.subgrid(area)),
        f'{name}: factory=Hidden is the default',
    )
    check(len({id(obj) for obj in outside}) == len(outside), f'{name}: shared')

    # other factories: called once per outside cell, in row-major order
    produced = []

    def counting_factory():
        obj = Key(list(Color)[len(produced) % len(Color)])
        produced.append(obj)
        return obj

    for factory, kind in [(Wall, Wall), (counting_factory, Key)]:
        del produced[:]
        result = grid.subgrid(area, factory=factory)
        outside = check_subgrid(name, grid, area, result)
        check(len(outside) == num_outside, f'{name}: number of outside cells')
        check(
            all(type(obj) is kind for obj in outside), f'{name}: {kind.__name__}'
        )
        check(
            len({id(obj) for obj in outside}) == len(outside), f'{name}: shared'
        )
        if factory is counting_factory:
            check(len(produced) == num_outside, f'{name}: factory calls')
            check(
                all(a is b for a, b in zip(outside, produced)),
                f'{name}: factory order',
            )
        check(describe_grid(grid) == before, f'{name}: grid modified')

    # the keyword is keyword-only
    try:
        grid.subgrid(area, Wall)
    except TypeError:
        pass
    else:
        check(False, f'{name}: factory accepted positionally')


# --------------------------------------------------------------------------
# part 2: observations against an independent reference
# --------------------------------------------------------------------------

# world offset of the view-frame offset (dy, dx), for each heading
ROTATE = {
    Orientation.F: lambda dy, dx: (dy, dx),
    Orientation.B: lambda dy, dx: (-dy, -dx),
    Orientation.R: lambda dy, dx: (dx, -dy),
    Orientation.L: lambda dy, dx: (-dx, dy),
}


def ref_observation(state, area, visibility_function, rng):
    """description of the expected observation"""
    height, width = len(state.grid.objects), len(state.grid.objects[0])
    rotate = ROTATE[state.agent.orientation]

    objects = []
    for dy in range(area.ys[0], area.ys[1] + 1):
        row = []
        for dx in range(area.xs[0], area.xs[1] + 1):
            wy, wx = rotate(dy, dx)
            y, x = state.agent.position.y + wy, state.agent.position.x + wx
            row.append(
                fast_copy(state.grid.objects[y][x])
                if y in range(height) and x in range(width)
                else Hidden()
            )
        objects.append(row)

    grid = Grid(objects)
    position = Position(-area.ys[0], -area.xs[0])
    visibility = visibility_function(grid, position, rng=rng)
    for y in range(area.height):
        for x in range(area.width):
            if not visibility[y, x]:
                objects[y][x] = Hidden()

    return (
        describe_grid(Grid(objects)),
        (position.y, position.x),
        Orientation.F.name,
        describe_object(state.agent.grid_object),
    )


VIEW_AREAS = [
    # (area, works with partially_occluded (agent in the bottom row))
    (Area((-2, 0), (-1, 1)), True),  # the usual kind
    (Area((-6, 0), (-3, 3)), True),  # larger than most grids
    (Area((0, 0), (0, 0)), True),  # the agent's cell only
    (Area((-3, 0), (0, 2)), True),  # asymmetric: nothing on the left
    (Area((-1, 0), (-4, 1)), True),  # asymmetric: mostly left
    (Area((-2, 1), (-1, 3)), False),  # asymmetric: also behind
    (Area((0, 3), (-2, 0)), False),  # only behind and left
    (Area((-1, 1), (0, 0)), False),  # a column through the agent
]

VISIBILITIES = [
    'fully_transparent',
    'partially_occluded',
    'raytracing',
    'stochastic_raytracing',
]


def part_observation():
    for k, (name, make, held) in enumerate(scenarios()):
        state = make(held() if held else None)
        before = describe(state)
        before_ids = mutable_ids(state)

        for j, (area, bottom_row) in enumerate(VIEW_AREAS):
            # all visibility functions on some, one on the others
            visibilities = (
                VISIBILITIES if (k + j) % 4 == 0 else [VISIBILITIES[(k + j) % 4]]
            )
            for visibility_name in visibilities:
                if visibility_name == 'partially_occluded' and not bottom_row:
                    continue

                visibility_function = visibility_function_registry[
                    visibility_name
                ]
                observation_function = getattr(obs_fs, visibility_name)
                seed = (k + j) % 5
                label = f'{name} {area} {visibility_name}'

                expected = ref_observation(
                    state, area, visibility_function, rnd.default_rng(seed)
                )
                rng = rnd.default_rng(seed)
                observation = observation_function(state, area=area, rng=rng)
                check(describe(observation) == expected, f'{label}: reference')
                check(describe(state) == before, f'{label}: state modified')
                check(mutable_ids(state) == before_ids, f'{label}: replaced')

                # the same through from_visibility, and with the library rng
                reset_gv_rng(seed)
                other = obs_fs.from_visibility(
                    state, area=area, visibility_function=visibility_function
                )
                check(describe(other) == expected, f'{label}: from_visibility')
                check(other == observation, f'{label}: eq')
                check(hash(other) == hash(observation), f'{label}: hash')

                # Hidden cells are never shared: not within an observation,
                # not between observations
                hidden = [
                    obj
                    for o in (observation, other)
                    for row in o.grid.objects
                    for obj in row
                    if type(obj) is Hidden
                ]
                check(
                    len({id(obj) for obj in hidden}) == len(hidden),
                    f'{label}: Hidden shared',
                )
                # observation grids own their lists
                lists = [
                    id(lst)
                    for o in (observation, other)
                    for lst in [o.grid.objects, *o.grid.objects]
                ]
                check(len(set(lists)) == len(lists), f'{label}: lists shared')
                check(not (set(lists) & before_ids), f'{label}: state lists')

                # writing to the observation grid does not write to the state
                for position in list(observation.grid.area.positions()):
                    observation.grid[position] = Wall()
                observation.agent.position = Position(7, 7)
                check(describe(state) == before, f'{label}: leak to state')
                check(describe(other) == expected, f'{label}: leak to other')


# --------------------------------------------------------------------------
# part 3: the property through the functional interface
# --------------------------------------------------------------------------

OBJECT_TYPES = [Wall, Floor, Exit, MovingObstacle, Telepod, Key, Door, Box]

VIEWS = [
    ('partially_occluded', Shape(3, 5)),
    ('raytracing', Shape(2, 7)),
    ('fully_transparent', Shape(5, 1)),
    ('stochastic_raytracing', Shape(4, 3)),
    ('raytracing', Shape(9, 9)),
]


def make_env(shape, view_shape, observation_name):
    state_space = StateSpace(shape, OBJECT_TYPES, list(Color))
    action_space = ActionSpace(list(Action))
    observation_space = ObservationSpace(
        view_shape, OBJECT_TYPES, list(Color)
    )
    transition_function = partial(
        tra_fs.chain,
        transition_functions=[
            tra_fs.move_agent,
            tra_fs.turn_agent,
            tra_fs.actuate_door,
            tra_fs.actuate_box,
            tra_fs.pickndrop,
            tra_fs.move_obstacles,
            tra_fs.teleport,
        ],
    )
    observation_function = partial(
        getattr(obs_fs, observation_name), area=observation_space.area
    )
    reward_function = partial(
        rew_fs.reduce_sum,
        reward_functions=[
            rew_fs.living_reward,
            rew_fs.reach_exit,
            rew_fs.bump_moving_obstacle,
            rew_fs.bump_into_wall,
        ],
    )
    termination_function = partial(
        ter_fs.reduce_any,
        terminating_functions=[ter_fs.reach_exit, ter_fs.bump_moving_obstacle],
    )
    return GridWorld(
        state_space,
        action_space,
        observation_space,
        lambda *, rng=None: make_state(
            ['....', '.#O.', '..E.', '....'], (1, 0), Orientation.R
        ),
        transition_function,
        observation_function,
        reward_function,
        termination_function,
    ), observation_space.area


def disturb(other_envs, k):
    """arbitrary intervening calls on other environments (cache history)"""
    for j, env in enumerate(other_envs):
        env.set_seed(1000 + k + j)
        env.reset()
        for action in list(Action)[(k + j) % 3 :: 2]:
            env.step(action)
            env.observation
    reset_gv_rng(k)
    get_gv_rng().random(k % 5)


def part_property():
    other_envs = [
        make_env(Shape(4, 4), view_shape, observation_name)[0]
        for observation_name, view_shape in VIEWS
    ]

    for k, (name, make, held) in enumerate(scenarios()):
        state = make(held() if held else None)
        observation_name, view_shape = VIEWS[k % len(VIEWS)]
        env, area = make_env(state.grid.shape, view_shape, observation_name)
        visibility_function = visibility_function_registry[observation_name]
        seed = k % 7

        before = describe(state)
        copy = fast_copy(state)
        check(copy == state and hash(copy) == hash(state), f'{name}: copy')
        check(describe(copy) == before, f'{name}: copy description')
        check(
            not (mutable_ids(copy) & mutable_ids(state)), f'{name}: copy alias'
        )

        # observation: pure, equal to the reference, repeatable
        env.set_seed(seed)
        observation = env.functional_observation(state)
        check(describe(state) == before, f'{name}: observation impure')
        expected = ref_observation(
            copy, area, visibility_function, rnd.default_rng(seed)
        )
        check(describe(observation) == expected, f'{name}: observation')
        env.set_seed(seed)
        observation_copy = env.functional_observation(copy)
        check(observation_copy == observation, f'{name}: observation of copy')
        check(hash(observation_copy) == hash(observation), f'{name}: hash')

        for action in list(Action)[k % 2 :: 2]:
            env.set_seed(seed)
            next_state, reward, done = env.functional_step(state, action)
            check(describe(state) == before, f'{name} {action}: input modified')
            check(state == copy and hash(state) == hash(copy), f'{name}: eq')
            check(
                not (mutable_ids(next_state) & mutable_ids(state)),
                f'{name} {action}: next state aliases input',
            )
            after = describe(next_state)
            env.set_seed(seed)
            observed = describe(env.functional_observation(next_state))
            check(describe(next_state) == after, f'{name}: observation impure')
            check(
                observed
                == ref_observation(
                    next_state, area, visibility_function, rnd.default_rng(seed)
                ),
                f'{name} {action}: observation of next state',
            )

            # history independence: other calls, other environments, re-seed
            disturb(other_envs, k)
            env.set_seed(seed)
            again, reward_again, done_again = env.functional_step(state, action)
            check(describe(again) == after, f'{name} {action}: repeat')
            check(again == next_state, f'{name} {action}: repeat eq')
            check(hash(again) == hash(next_state), f'{name} {action}: hash')
            check(
                (reward_again, done_again) == (reward, done),
                f'{name} {action}: repeat reward/done',
            )
            env.set_seed(seed)
            check(
                describe(env.functional_observation(state)) == expected,
                f'{name} {action}: repeat observation',
            )
            env.set_seed(seed)
            check(
                describe(env.functional_observation(again)) == observed,
                f'{name} {action}: repeat observation of next state',
            )

            # changing the output afterwards cannot affect the input, and
            # vice versa
            scramble(again)
            check(describe(state) == before, f'{name} {action}: leak to input')
            check(describe(next_state) == after, f'{name} {action}: leak')
            scrambled_input = fast_copy(state)
            env.set_seed(seed)
            output, _, _ = env.functional_step(scrambled_input, action)
            scramble(scrambled_input)
            check(describe(output) == after, f'{name} {action}: leak to output')


if __name__ == '__main__':
    part_subgrid()
    part_observation()
    part_property()
    print(
        f'OK ({CHECKS} checks, '
        f'factory keyword {"present" if HAS_FACTORY else "absent"})'
    )
