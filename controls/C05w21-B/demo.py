"""C05 demo (change B): observations are sound, and equal to the spelled-out
reference construction, on every grid / pose / view area / observation function.

Runs (exit 0) on the pristine tree and with the patch applied.
"""
import itertools as itt
import os
import sys

sys.path.insert(0, os.getcwd())  # run from the worktree root

import numpy as np  # noqa: E402

from gym_gridverse.agent import Agent
from gym_gridverse.envs import observation_functions as of
from gym_gridverse.envs.visibility_functions import visibility_function_registry
from gym_gridverse.geometry import Area, Orientation, Position, Shape
from gym_gridverse.grid import Grid
from gym_gridverse.grid_object import (
    Color,
    Door,
    Exit,
    Floor,
    Hidden,
    Key,
    MovingObstacle,
    NoneGridObject,
    Wall,
)
from gym_gridverse.observation import Observation
from gym_gridverse.rng import make_rng
from gym_gridverse.state import State

NAMES = ['fully_transparent', 'partially_occluded', 'raytracing', 'stochastic_raytracing']
checks = 0


def rotate(orientation, y, x):
    """independent oracle: relative (y, x) -> world displacement"""
    if orientation is Orientation.F:  # facing north
        return y, x
    if orientation is Orientation.B:  # facing south
        return -y, -x
    if orientation is Orientation.R:  # facing east: forward (-1, 0) -> (0, +1)
        return x, -y
    if orientation is Orientation.L:  # facing west: forward (-1, 0) -> (0, -1)
        return -x, y
    raise AssertionError


def random_grid(rng, height, width):
    def make():
        k = rng.integers(0, 7)
        if k == 0:
            return Wall()
        if k == 1:
            return Key(Color.NONE if rng.integers(2) else Color.RED)
        if k == 2:
            return Door(
                Door.Status.CLOSED if rng.integers(2) else Door.Status.OPEN,
                Color.NONE if rng.integers(2) else Color.BLUE,
            )
        if k == 3:
            return Exit()
        if k == 4:
            return MovingObstacle()
        return Floor()

    return Grid([[make() for _ in range(width)] for _ in range(height)])


def reference_from_visibility(state, area, visibility_function, rng):
    """the construction as spelled out before any refactoring"""
    pov_area = state.agent.transform * area
    pov_agent_position = Position(-area.ymin, -area.xmin)
    grid = state.grid.subgrid(pov_area) * state.agent.orientation
    visibility = visibility_function(grid, pov_agent_position, rng=rng)
    if visibility.shape != (area.height, area.width):
        raise ValueError('shape')
    for pos in grid.area.positions():
        if not visibility[pos.y, pos.x]:
            grid[pos] = Hidden()
    return Observation(
        grid, Agent(pov_agent_position, Orientation.F, state.agent.grid_object)
    )


def reference_stochastic_visibility(grid, position, rng):
    """stochastic_raytracing visibility as spelled out before any refactoring"""
    from gym_gridverse.utils.raytracing import cached_compute_rays_fancy

    rays = cached_compute_rays_fancy(position, grid.area)
    counts_num = np.zeros((grid.shape.height, grid.shape.width), dtype=int)
    counts_den = np.zeros((grid.shape.height, grid.shape.width), dtype=int)
    for ray in rays:
        light = True
        for pos in ray:
            counts_num[pos.y, pos.x] += int(light)
            counts_den[pos.y, pos.x] += 1
            light = light and not grid[pos].blocks_vision
    with np.errstate(all='ignore'):
        probs = np.nan_to_num(counts_num / counts_den)
    return probs, rng.random(probs.shape) < probs


def check_stochastic_visibility():
    """draw-for-draw equality of the stochastic visibility, also with the
    library-level generator (rng=None), re-seeding and repeated calls"""
    import warnings

    from gym_gridverse.rng import get_gv_rng, reset_gv_rng

    vf = visibility_function_registry['stochastic_raytracing']
    rng = make_rng(7)
    n = 0
    for height, width in [(1, 1), (1, 5), (4, 1), (3, 4), (7, 7), (5, 9)]:
        for _ in range(4):
            grid = random_grid(rng, height, width)
            for y, x in {(0, 0), (height - 1, width - 1), (height - 1, width // 2), (height // 2, 0)}:
                position = Position(y, x)
                for seed in (0, 1, 12345, 0):
                    a, b = make_rng(seed), make_rng(seed)
                    with warnings.catch_warnings():
                        warnings.simplefilter('ignore')
                        got = vf(grid, position, rng=a)
                        got2 = vf(grid, position, rng=a)  # repeated call
                    probs, expected = reference_stochastic_visibility(grid, position, b)
                    _, expected2 = reference_stochastic_visibility(grid, position, b)
                    assert isinstance(got, np.ndarray) and got.dtype == np.bool_
                    assert got.shape == (height, width)
                    assert np.array_equal(got, expected)
                    assert np.array_equal(got2, expected2)
                    assert a.random() == b.random()  # same number of draws
                    assert not got[probs == 0.0].any()
                    assert got[probs == 1.0].all()
                    assert got[y, x]  # the agent's own cell is always lit

                    # library-level generator
                    reset_gv_rng(seed)
                    with warnings.catch_warnings():
                        warnings.simplefilter('ignore')
                        got = vf(grid, position)
                    assert np.array_equal(got, expected)
                    assert get_gv_rng().random() == make_rng(seed).random(
                        (height * width + 1,)
                    )[-1]
                    n += 1
    return n


def outcome(f):
    try:
        return 'ok', f()
    except Exception as error:  # pylint: disable=broad-except
        return type(error).__name__, None


def check_sound(state, area, observation, transparent):
    global checks
    grid, agent = state.grid, state.agent
    H, W = grid.shape.height, grid.shape.width

    assert isinstance(observation, Observation)
    assert observation.grid.shape.as_tuple == (area.height, area.width)
    assert len(observation.grid.objects) == area.height
    assert all(len(row) == area.width for row in observation.grid.objects)
    assert observation.agent.position == Position(-area.ymin, -area.xmin)
    assert observation.agent.position.yx == (0 - area.ymin, 0 - area.xmin)
    assert observation.agent.orientation is Orientation.F
    assert observation.agent.grid_object is agent.grid_object

    for i in range(area.height):
        for j in range(area.width):
            dy, dx = rotate(agent.orientation, area.ymin + i, area.xmin + j)
            y, x = agent.position.y + dy, agent.position.x + dx
            obj = observation.grid.objects[i][j]
            inside = 0 <= y < H and 0 <= x < W
            if not inside:
                assert type(obj) is Hidden, (i, j, obj)
            elif transparent:
                assert obj is grid.objects[y][x], (i, j, obj)
            else:
                assert type(obj) is Hidden or obj is grid.objects[y][x], (i, j, obj)
            checks += 1


def snapshot(grid):
    return [[(id(o), repr(o)) for o in row] for row in grid.objects]


def run(state, area, seed):
    before = snapshot(state.grid)
    pose = (state.agent.position, state.agent.orientation, state.agent.grid_object)

    for name in NAMES:
        function = of.factory(name, area=area)
        vf = visibility_function_registry[name]

        for via in ('factory', 'direct', 'from_visibility'):
            rng, rng_ref = make_rng(seed), make_rng(seed)
            if via == 'factory':
                call = lambda: function(state, rng=rng)
            elif via == 'direct':
                call = lambda: getattr(of, name)(state, area=area, rng=rng)
            else:
                call = lambda: of.from_visibility(
                    state, area=area, visibility_function=vf, rng=rng
                )
            got = outcome(call)
            expected = outcome(
                lambda: reference_from_visibility(state, area, vf, rng_ref)
            )
            assert got[0] == expected[0], (name, via, area, got[0], expected[0])

            if name == 'partially_occluded' and area.contains(Position(0, 0)):
                assert (got[0] == 'NotImplementedError') == (area.ymax != 0)
            if name == 'fully_transparent':
                assert got[0] == 'ok'

            if got[0] == 'ok':
                observation, reference = got[1], expected[1]
                check_sound(state, area, observation, name == 'fully_transparent')
                # same cells hidden, same (identical) objects shown
                for row, row_ref in zip(observation.grid.objects, reference.grid.objects):
                    for obj, obj_ref in zip(row, row_ref):
                        assert type(obj) is type(obj_ref)
                        assert type(obj) is Hidden or obj is obj_ref
                assert observation == reference
                # the observation is a new container: no row is a row of the state
                for row in observation.grid.objects:
                    assert all(row is not r for r in state.grid.objects)
            # same number of draws from the generator
            assert rng.random() == rng_ref.random(), (name, via)

            # state untouched
            assert snapshot(state.grid) == before
            assert (
                state.agent.position,
                state.agent.orientation,
                state.agent.grid_object,
            ) == pose


def main():
    rng = make_rng(20210921)

    shapes = [(1, 1), (1, 4), (5, 1), (2, 3), (3, 3), (4, 7), (6, 5)]
    areas = [
        Area((0, 0), (0, 0)),
        Area((-1, 0), (-1, 1)),
        Area((-6, 0), (-3, 3)),  # default-like
        Area((-2, 0), (-1, 3)),  # asymmetric, agent on last row
        Area((-3, 1), (-2, 1)),  # asymmetric, agent not on last row
        Area((-1, 2), (0, 4)),  # agent on left column
        Area((0, 3), (-2, 0)),  # agent on top-right corner
        Area((-9, 0), (-8, 8)),  # much larger than any grid
        Area((-4, 0), (0, 0)),  # single column
        Area((0, 0), (-2, 3)),  # single row
    ]
    # view areas which do not contain the agent (only checked for agreement
    # with the reference, and soundness whenever an observation is returned)
    odd_areas = [Area((-3, -1), (-1, 1)), Area((1, 2), (2, 4)), Area((-2, 0), (1, 2))]

    seed = 0
    for height, width in shapes:
        grid = random_grid(rng, height, width)
        cells = sorted(
            {(0, 0), (0, width - 1), (height - 1, 0), (height - 1, width - 1),
             (height // 2, width // 2), (0, width // 2), (height // 2, 0)}
        )
        for (y, x), orientation in itt.product(cells, list(Orientation)[:4]):
            held = [None, Key(Color.NONE), Key(Color.GREEN)][seed % 3]
            state = State(grid, Agent(Position(y, x), orientation, held))
            if held is None:
                assert isinstance(state.agent.grid_object, NoneGridObject)
            for area in areas + odd_areas:
                seed += 1
                run(state, area, seed)
                # repeated call on the same state
                if seed % 7 == 0:
                    run(state, area, seed)

    # several environments in one process, re-seeding
    from gym_gridverse.envs.reset_functions import factory as reset_factory

    for name, kwargs in [
        ('empty', dict(shape=Shape(5, 8), random_agent=True)),
        ('rooms', dict(shape=Shape(9, 11), layout=(2, 2))),
        ('keydoor', dict(shape=Shape(6, 9))),
        ('dynamic_obstacles', dict(shape=Shape(7, 7), num_obstacles=3)),
    ]:
        reset = reset_factory(name, **kwargs)
        for s in (1, 2, 1):
            state = reset(rng=make_rng(s))
            for area in areas[:5]:
                run(state, area, s)

    n = check_stochastic_visibility()
    print(f'OK: {n} stochastic visibilities equal draw for draw')
    assert len({o.name for o in Orientation}) == 4
    print(f'OK: {checks} cells checked')
    return 0


if __name__ == '__main__':
    sys.exit(main())
