"""Demo for change A (transition_functions: shared `front cell` helper, pickndrop clean-up).

Run from the worktree root:  /venv/bin/python _seed/A/demo.py

Exits 0 both on the pristine tree and with the patch applied.  It

1. compares `pickndrop`, `actuate_door` and `actuate_box` (library versions)
   against reference implementations embedded below (verbatim copies of the
   pristine bodies) on an exhaustive set of small scenarios:  non-square grids
   (including 1x1, 1xN, Nx1, 3x4), the agent on every cell (borders, corners), all
   four headings, every action, every kind of held item (nothing, keys of
   several colours including NONE, a custom holdable object) and every kind of
   object in front (including a Floor subclass and a holdable custom object);
   object identities are compared as well as values;
2. checks a few hard-coded expectations of `pickndrop`;
3. checks property C01 (closure and totality) on environments assembled from
   the built-in components, with debugging checks on:  every action from
   every visited state gives a state of the state space, a finite float reward,
   a bool termination flag, an observation of the observation space;  actions
   outside the action space are rejected with ValueError and change nothing;
4. checks that seeded runs are reproducible, also with several environments
   interleaved in one process and after re-seeding.
"""
import itertools as itt
import math
import os
import sys
from functools import partial

# the worktree root (two levels up) provides `gym_gridverse`
sys.path.insert(
    0, os.path.dirname(os.path.dirname(os.path.dirname(os.path.abspath(__file__))))
)

from gym_gridverse.action import Action
from gym_gridverse.agent import Agent
from gym_gridverse.debugging import reset_gv_debug
from gym_gridverse.envs import (
    observation_functions,
    reset_functions,
    reward_functions,
    terminating_functions,
    transition_functions,
)
from gym_gridverse.envs.gridworld import GridWorld
from gym_gridverse.geometry import Area, Orientation, Position, Shape
from gym_gridverse.grid import Grid
from gym_gridverse.grid_object import (
    Beacon,
    Box,
    Color,
    Door,
    Exit,
    Floor,
    GridObject,
    Key,
    MovingObstacle,
    NoneGridObject,
    Telepod,
    Wall,
)
from gym_gridverse.rng import make_rng
from gym_gridverse.spaces import ActionSpace, ObservationSpace, StateSpace
from gym_gridverse.state import State
from gym_gridverse.utils.fast_copy import fast_copy

reset_gv_debug(True)

CHECKS = 0


def check(condition, message):
    global CHECKS
    CHECKS += 1
    if not condition:
        print(f'FAILED: {message}')
        sys.exit(1)


# ---------------------------------------------------------------------------
# custom objects (awkward but legal inputs)
# ---------------------------------------------------------------------------


class Gem(GridObject):
    """a custom holdable object"""

    state_index = 0
    color = Color.NONE
    blocks_movement = False
    blocks_vision = False
    holdable = True

    @classmethod
    def can_be_represented_in_state(cls) -> bool:
        return True

    @classmethod
    def num_states(cls) -> int:
        return 1

    def __repr__(self):
        return 'Gem()'


class Carpet(Floor):
    """a Floor subclass"""

    def __repr__(self):
        return 'Carpet()'


# ---------------------------------------------------------------------------
# reference implementations (verbatim pristine bodies)
# ---------------------------------------------------------------------------


def ref_pickndrop(state, action, *, rng=None):
    if action is not Action.PICK_N_DROP:
        return

    position_front = state.agent.front()

    if not state.grid.area.contains(position_front):
        return

    obj_front = state.grid[position_front]
    can_be_dropped = isinstance(obj_front, Floor) or obj_front.holdable

    if not can_be_dropped:
        return

    state.grid[position_front] = (
        state.agent.grid_object
        if not isinstance(state.agent.grid_object, NoneGridObject)
        and can_be_dropped
        else Floor()  # We know we are picking up if not dropping
    )

    state.agent.grid_object = (
        obj_front if obj_front.holdable else NoneGridObject()
    )


def ref_actuate_door(state, action, *, rng=None):
    if action is not Action.ACTUATE:
        return

    position = state.agent.front()

    if not state.grid.area.contains(position):
        return

    door = state.grid[position]

    if not isinstance(door, Door):
        return

    if door.is_open:
        pass

    elif not door.is_locked:
        door.state = Door.Status.OPEN

    else:
        if (
            isinstance(state.agent.grid_object, Key)
            and state.agent.grid_object.color == door.color
        ):
            door.state = Door.Status.OPEN


def ref_actuate_box(state, action, *, rng=None):
    if action is not Action.ACTUATE:
        return

    position = state.agent.front()

    if not state.grid.area.contains(position):
        return

    box = state.grid[position]

    if isinstance(box, Box):
        state.grid[position] = box.content


# ---------------------------------------------------------------------------
# 1. exhaustive comparison with the reference implementations
# ---------------------------------------------------------------------------

FRONT_FACTORIES = [
    Floor,
    Carpet,
    Wall,
    Exit,
    partial(Exit, Color.GREEN),
    partial(Door, Door.Status.OPEN, Color.RED),
    partial(Door, Door.Status.CLOSED, Color.RED),
    partial(Door, Door.Status.LOCKED, Color.RED),
    partial(Door, Door.Status.LOCKED, Color.NONE),
    partial(Key, Color.RED),
    partial(Key, Color.NONE),
    MovingObstacle,
    lambda: Box(Key(Color.BLUE)),
    lambda: Box(Floor()),
    lambda: Box(Gem()),
    partial(Telepod, Color.YELLOW),
    partial(Beacon, Color.GREEN),
    Gem,
]

HELD_FACTORIES = [
    None,
    NoneGridObject,
    partial(Key, Color.RED),
    partial(Key, Color.NONE),
    partial(Key, Color.BLUE),
    Gem,
]

SHAPES = [(1, 1), (1, 3), (3, 1), (2, 2), (3, 4)]

# what lies under the agent (the agent may legally stand on these)
UNDER_FACTORIES = [Floor, partial(Telepod, Color.RED), partial(Key, Color.RED)]


def identity_map(state):
    """maps id(object) -> label, for all objects referenced by a state"""
    labels = {}
    for position in state.grid.area.positions():
        obj = state.grid[position]
        labels[id(obj)] = ('grid', position.yx)
        if isinstance(obj, Box):
            labels[id(obj.content)] = ('content', position.yx)
    labels[id(state.agent.grid_object)] = ('held',)
    return labels


def fingerprint(state, labels):
    """value and provenance of every object of the state

    `labels` is the identity map of the state *before* the transition, so that
    the fingerprint says which of the old objects (if any) each slot holds.
    """

    def describe(obj):
        return (type(obj).__name__, repr(obj), labels.get(id(obj), 'new'))

    return (
        state.grid.shape,
        tuple(describe(state.grid[p]) for p in state.grid.area.positions()),
        state.agent.position,
        state.agent.orientation,
        describe(state.agent.grid_object),
    )


def make_state(shape, agent_position, orientation, held_f, front_f, under_f):
    grid = Grid.from_shape(shape)
    grid[agent_position] = under_f()
    agent = Agent(
        agent_position, orientation, None if held_f is None else held_f()
    )
    front = agent.front()
    if grid.area.contains(front):
        grid[front] = front_f()
    return State(grid, agent)


def compare(function, reference, state, action, what):
    state_lib = fast_copy(state)
    state_ref = fast_copy(state)
    labels_lib = identity_map(state_lib)
    labels_ref = identity_map(state_ref)
    before = fingerprint(state_lib, labels_lib)

    result_lib = function(state_lib, action, rng=make_rng(0))
    result_ref = reference(state_ref, action, rng=make_rng(0))

    check(result_lib is None and result_ref is None, f'{what}: returns None')
    check(
        fingerprint(state_lib, labels_lib) == fingerprint(state_ref, labels_ref),
        f'{what}: library and reference disagree\n'
        f'  lib: {state_lib}\n  ref: {state_ref}',
    )
    check(state_lib == state_ref, f'{what}: states differ')
    check(
        state_lib.grid.shape == state.grid.shape
        and state_lib.grid.area.contains(state_lib.agent.position),
        f'{what}: shape / agent position',
    )
    return before, fingerprint(state_lib, labels_lib)


def exhaustive_comparison():
    functions = [
        (transition_functions.pickndrop, ref_pickndrop, 'pickndrop'),
        (transition_functions.actuate_door, ref_actuate_door, 'actuate_door'),
        (transition_functions.actuate_box, ref_actuate_box, 'actuate_box'),
    ]
    n = 0
    for shape in SHAPES:
        grid_area = Area((0, shape[0] - 1), (0, shape[1] - 1))
        for agent_position in grid_area.positions():
            for orientation in Orientation:
                # NOTE:  Orientation has aliases, iteration yields 4 members
                for held_f, front_f in itt.product(
                    HELD_FACTORIES, FRONT_FACTORIES
                ):
                    front_inside = grid_area.contains(
                        agent_position + Position.from_orientation(orientation)
                    )
                    if not front_inside and front_f is not FRONT_FACTORIES[0]:
                        # the front object is irrelevant, do it once
                        continue
                    unders = (
                        UNDER_FACTORIES
                        if front_f in (Floor, Wall) or not front_inside
                        else UNDER_FACTORIES[:1]
                    )
                    for under_f in unders:
                        state = make_state(
                            shape,
                            agent_position,
                            orientation,
                            held_f,
                            front_f,
                            under_f,
                        )
                        # every action when holding nothing, otherwise the
                        # two actions these functions react to
                        actions = (
                            list(Action)
                            if held_f is None
                            else [Action.PICK_N_DROP, Action.ACTUATE]
                        )
                        for action in actions:
                            for function, reference, name in functions:
                                what = (
                                    f'{name} shape={shape} '
                                    f'agent={agent_position.yx} '
                                    f'{orientation.name} {action.name} '
                                    f'state={state}'
                                )
                                before, after = compare(
                                    function, reference, state, action, what
                                )
                                n += 1
                                if not front_inside:
                                    check(
                                        before == after,
                                        f'{what}: facing outward, no effect',
                                    )
                                if (
                                    name == 'pickndrop'
                                    and action is not Action.PICK_N_DROP
                                ) or (
                                    name != 'pickndrop'
                                    and action is not Action.ACTUATE
                                ):
                                    check(
                                        before == after,
                                        f'{what}: other action, no effect',
                                    )
    return n


# ---------------------------------------------------------------------------
# 2. hard-coded expectations of pickndrop
# ---------------------------------------------------------------------------


def hard_coded_expectations():
    pickndrop = transition_functions.pickndrop

    # pick up
    grid = Grid.from_shape((2, 3))
    key = Key(Color.RED)
    grid[0, 1] = key
    state = State(grid, Agent(Position(1, 1), Orientation.F))
    pickndrop(state, Action.PICK_N_DROP)
    check(state.agent.grid_object is key, 'pick: holds the very key')
    check(type(state.grid[0, 1]) is Floor, 'pick: floor left behind')

    # drop
    pickndrop(state, Action.PICK_N_DROP)
    check(state.grid[0, 1] is key, 'drop: the very key is on the floor')
    check(
        type(state.agent.grid_object) is NoneGridObject, 'drop: holds nothing'
    )

    # swap
    gem = Gem()
    state.agent.grid_object = gem
    pickndrop(state, Action.PICK_N_DROP)
    check(state.grid[0, 1] is gem, 'swap: gem on the floor')
    check(state.agent.grid_object is key, 'swap: key in hands')

    # blocked drop
    state.grid[0, 1] = Wall()
    pickndrop(state, Action.PICK_N_DROP)
    check(type(state.grid[0, 1]) is Wall, 'blocked: wall stays')
    check(state.agent.grid_object is key, 'blocked: key stays')

    # nothing to pick, nothing to drop:  fresh Floor, fresh NoneGridObject
    carpet = Carpet()
    state.grid[0, 1] = carpet
    state.agent.grid_object = NoneGridObject()
    pickndrop(state, Action.PICK_N_DROP)
    check(type(state.grid[0, 1]) is Floor, 'nothing: plain floor in front')
    check(type(state.agent.grid_object) is NoneGridObject, 'nothing: no item')

    # facing outward in every corner of a non-square grid
    for position, orientations in [
        (Position(0, 0), [Orientation.F, Orientation.L]),
        (Position(0, 2), [Orientation.F, Orientation.R]),
        (Position(1, 0), [Orientation.B, Orientation.L]),
        (Position(1, 2), [Orientation.B, Orientation.R]),
    ]:
        for orientation in orientations:
            state = State(
                Grid.from_shape((2, 3)),
                Agent(position, orientation, Key(Color.BLUE)),
            )
            expected = fast_copy(state)
            for action in Action:
                pickndrop(state, action)
                transition_functions.actuate_door(state, action)
                transition_functions.actuate_box(state, action)
            check(state == expected, f'outward {position} {orientation}')


# ---------------------------------------------------------------------------
# 3. property C01 on assembled environments
# ---------------------------------------------------------------------------

ALL_OBJECT_TYPES = [
    Floor,
    Wall,
    Exit,
    Door,
    Key,
    MovingObstacle,
    Box,
    Telepod,
    Beacon,
]
ALL_COLORS = list(Color)


def make_env(
    reset_function,
    shape,
    *,
    view_shape=Shape(5, 3),
    observation_name='partially_occluded',
    actions=None,
    object_types=None,
    colors=None,
):
    object_types = ALL_OBJECT_TYPES if object_types is None else object_types
    colors = ALL_COLORS if colors is None else colors
    state_space = StateSpace(shape, object_types, colors)
    action_space = ActionSpace(list(Action) if actions is None else actions)
    observation_space = ObservationSpace(view_shape, object_types, colors)

    transition_function = transition_functions.factory(
        'chain',
        transition_functions=[
            transition_functions.factory(name)
            for name in [
                'move_agent',
                'turn_agent',
                'pickndrop',
                'actuate_door',
                'actuate_box',
                'move_obstacles',
                'teleport',
            ]
        ],
    )
    reward_function = reward_functions.factory(
        'reduce_sum',
        reward_functions=[
            reward_functions.factory('living_reward', reward=-0.1),
            reward_functions.factory('reach_exit', reward_on=5.0),
            reward_functions.factory('bump_moving_obstacle', reward=-2.0),
            reward_functions.factory('bump_into_wall', reward=-0.5),
            reward_functions.factory(
                'actuate_door', reward_open=0.25, reward_close=-0.25
            ),
            reward_functions.factory(
                'pickndrop', object_type=Key, reward_pick=0.5, reward_drop=-0.5
            ),
        ],
    )
    termination_function = terminating_functions.factory(
        'reduce_any',
        terminating_functions=[
            terminating_functions.factory('reach_exit'),
            terminating_functions.factory('bump_moving_obstacle'),
            terminating_functions.factory('bump_into_wall'),
        ],
    )
    observation_function = observation_functions.factory(
        observation_name, area=observation_space.area
    )
    return GridWorld(
        state_space,
        action_space,
        observation_space,
        reset_function,
        transition_function,
        observation_function,
        reward_function,
        termination_function,
    )


def check_step(env, state, action, what):
    before = fast_copy(state)
    next_state, reward, terminal = env.functional_step(state, action)
    check(state == before, f'{what}: functional_step mutated its input')
    check(next_state is not state, f'{what}: next state is a new object')
    check(env.state_space.contains(next_state), f'{what}: next state in space')
    check(
        next_state.grid.shape == env.state_space.grid_shape,
        f'{what}: grid shape',
    )
    check(
        next_state.grid.area.contains(next_state.agent.position),
        f'{what}: agent in grid',
    )
    check(
        type(reward) is float and math.isfinite(reward),
        f'{what}: reward {reward!r} is a finite float',
    )
    check(type(terminal) is bool, f'{what}: terminal {terminal!r} is a bool')
    observation = env.functional_observation(next_state)
    check(
        env.observation_space.contains(observation),
        f'{what}: observation in space',
    )
    check(
        observation.grid.shape == env.observation_space.grid_shape,
        f'{what}: observation shape',
    )
    return next_state, reward, terminal


def check_rejects(env, state, bad_action, what):
    before = fast_copy(state)
    try:
        env.functional_step(state, bad_action)
    except ValueError:
        pass
    else:
        check(False, f'{what}: {bad_action!r} should raise ValueError')
    check(state == before, f'{what}: rejected action changed the state')


def explore(env, seed, num_steps, what, trace):
    """random walk;  from every visited state, every action is also tried"""
    env.set_seed(seed)
    rng = make_rng(seed + 1000)
    state = env.functional_reset()
    check(env.state_space.contains(state), f'{what}: reset state in space')
    check(
        env.observation_space.contains(env.functional_observation(state)),
        f'{what}: reset observation in space',
    )
    actions = env.action_space.actions
    for t in range(num_steps):
        results = [
            check_step(env, state, action, f'{what} t={t} {action.name}')
            for action in actions
        ]
        for bad_action in [a for a in Action if a not in actions] + [0, None]:
            check_rejects(env, state, bad_action, f'{what} t={t}')
        i = int(rng.integers(len(actions)))
        next_state, reward, terminal = results[i]
        trace.append(
            (
                actions[i].name,
                next_state.agent.position.yx,
                next_state.agent.orientation.name,
                repr(next_state.agent.grid_object),
                reward,
                terminal,
            )
        )
        state = env.functional_reset() if terminal else next_state
    return state


def handcrafted_states():
    """awkward states of a 4x5 state space"""
    states = []
    shape = Shape(4, 5)
    for held in [None, Key(Color.NONE), Key(Color.RED)]:
        for position in Area((0, 3), (0, 4)).positions('border'):
            for orientation in Orientation:
                grid = Grid.from_shape(shape)
                # a mix of objects, unpaired telepods, no walls on the border
                grid[1, 1] = Telepod(Color.RED)
                grid[1, 2] = Telepod(Color.BLUE)
                grid[2, 2] = Telepod(Color.RED)
                grid[2, 3] = Telepod(Color.RED)
                grid[1, 3] = Door(Door.Status.LOCKED, Color.RED)
                grid[2, 1] = Box(Key(Color.GREEN))
                grid[0, 2] = Key(Color.RED)
                grid[3, 2] = MovingObstacle()
                grid[0, 4] = Exit()
                grid[3, 0] = Beacon(Color.YELLOW)
                grid[2, 0] = Door(Door.Status.CLOSED, Color.NONE)
                grid[0, 1] = Wall()
                if grid[position].blocks_movement:
                    continue
                agent = Agent(position, orientation, fast_copy(held))
                states.append(State(grid, agent))
    return shape, states


def property_checks():
    traces = {}

    configurations = {
        'empty': (
            partial(reset_functions.empty, Shape(4, 6), True, True),
            Shape(4, 6),
            {},
        ),
        'keydoor': (
            partial(reset_functions.keydoor, Shape(5, 8)),
            Shape(5, 8),
            {'view_shape': Shape(3, 5), 'observation_name': 'raytracing'},
        ),
        'dynamic_obstacles': (
            partial(reset_functions.dynamic_obstacles, Shape(6, 5), 3, True),
            Shape(6, 5),
            {'view_shape': Shape(2, 7), 'observation_name': 'fully_transparent'},
        ),
        'teleport': (
            partial(reset_functions.teleport, Shape(5, 7)),
            Shape(5, 7),
            {'view_shape': Shape(7, 7), 'observation_name': 'stochastic_raytracing'},
        ),
        'crossing': (
            partial(reset_functions.crossing, Shape(7, 9), 2, Wall),
            Shape(7, 9),
            {'view_shape': Shape(1, 1)},
        ),
        'rooms': (
            partial(reset_functions.rooms, Shape(7, 9), (2, 2)),
            Shape(7, 9),
            {
                'actions': [
                    Action.MOVE_FORWARD,
                    Action.TURN_LEFT,
                    Action.PICK_N_DROP,
                    Action.ACTUATE,
                ]
            },
        ),
        'memory': (
            partial(
                reset_functions.memory, Shape(5, 7), {Color.RED, Color.BLUE}
            ),
            Shape(5, 7),
            {'view_shape': Shape(4, 1)},
        ),
    }

    for name, (reset_function, shape, kwargs) in configurations.items():
        env = make_env(reset_function, shape, **kwargs)
        trace = []
        for seed in range(3):
            explore(env, seed, 25, f'{name} seed={seed}', trace)
        traces[name] = trace

    # hand-crafted awkward states, every action, several views
    shape, states = handcrafted_states()
    for view_shape, observation_name in [
        (Shape(5, 3), 'partially_occluded'),
        (Shape(2, 7), 'raytracing'),
        (Shape(1, 1), 'fully_transparent'),
    ]:
        env = make_env(
            partial(reset_functions.empty, shape),
            shape,
            view_shape=view_shape,
            observation_name=observation_name,
        )
        env.set_seed(11)
        for i, state in enumerate(states):
            check(env.state_space.contains(state), f'handcrafted {i} in space')
            for action in Action:
                check_step(
                    env, state, action, f'handcrafted {i} {action.name}'
                )
            check_rejects(env, state, 'PICK_N_DROP', f'handcrafted {i}')

    return traces


# ---------------------------------------------------------------------------
# 4. reproducibility:  re-seeding, several environments in one process
# ---------------------------------------------------------------------------


def run_episode(env, seed, actions):
    env.set_seed(seed)
    env.reset()
    out = [fast_copy(env.state)]
    for action in actions:
        reward, done = env.step(action)
        out.append((fast_copy(env.state), reward, done, env.observation))
        if done:
            env.reset()
    return out


def reproducibility_checks():
    rng = make_rng(5)
    all_actions = list(Action)
    actions = [
        all_actions[int(i)] for i in rng.integers(len(all_actions), size=40)
    ]

    def new_env():
        return make_env(
            partial(reset_functions.dynamic_obstacles, Shape(6, 7), 4, True),
            Shape(6, 7),
            view_shape=Shape(3, 5),
            observation_name='stochastic_raytracing',
        )

    env_a, env_b = new_env(), new_env()
    first = run_episode(env_a, 42, actions)
    # re-seeding the same environment
    check(run_episode(env_a, 42, actions) == first, 're-seeding reproduces')
    # another environment in the same process
    check(run_episode(env_b, 42, actions) == first, 'second env reproduces')

    # interleaved environments do not disturb each other
    env_a.set_seed(42)
    env_b.set_seed(7)
    env_a.reset()
    env_b.reset()
    out = [fast_copy(env_a.state)]
    for action in actions:
        env_b.step(Action.PICK_N_DROP)
        env_b.step(Action.ACTUATE)
        reward, done = env_a.step(action)
        out.append((fast_copy(env_a.state), reward, done, env_a.observation))
        if done:
            env_a.reset()
    check(out == first, 'interleaved envs reproduce')

    # InnerEnv.step rejects invalid actions and keeps its state
    state = fast_copy(env_a.state)
    try:
        env_a.step(17)
    except ValueError:
        pass
    else:
        check(False, 'step(17) should raise ValueError')
    check(env_a.state == state, 'rejected step keeps the state')


def main():
    n = exhaustive_comparison()
    hard_coded_expectations()
    traces = property_checks()
    # the traces are reproducible
    check(property_checks() == traces, 'property traces are reproducible')
    reproducibility_checks()
    print(f'OK: {n} reference comparisons, {CHECKS} checks')


if __name__ == '__main__':
    main()
