"""C13 demo (change B): reset functions produce well-formed initial states.

Run from the worktree root:  /venv/bin/python _seed/B/demo.py

Exits 0 on the pristine tree and with the change applied.  Checks

1. the well-formedness property on every state produced by the eight built-in
   reset functions over a broad set of shapes / layouts / counts / colour sets
   / flags / seeds (including parameter combinations that must raise
   ValueError);
2. that the outcome of every scenario (canonical rendering of the state, or
   `ValueError`) is identical to hard-coded digests computed on the pristine
   tree;
3. that `design.draw_room_grid` agrees with a reference implementation
   embedded below (drawn cells, returned positions and their order, number of
   factory calls, exceptions) on lists, tuples, ranges, sets, dict views and
   numpy arrays of coordinates, sorted or not, with duplicates, on square and
   non-square grids, with partial room grids, and that `rooms` and
   `memory_rooms` agree, state by state, with reference implementations which
   draw their walls through that embedded reference;
4. rng plumbing: explicit generators, the library-level generator, re-seeding
   and repeated calls.
"""
import hashlib
import itertools as itt
import os
import sys
import warnings

warnings.filterwarnings('ignore')
sys.path.insert(0, os.getcwd())

import numpy as np  # noqa: E402

from gym_gridverse.agent import Agent  # noqa: E402
from gym_gridverse.design import (  # noqa: E402
    draw_room_grid,
)
from gym_gridverse.envs import reset_functions as rf  # noqa: E402
from gym_gridverse.geometry import Orientation, Position, Shape  # noqa: E402
from gym_gridverse.grid import Grid  # noqa: E402
from gym_gridverse.grid_object import (  # noqa: E402
    Beacon,
    Color,
    Door,
    Exit,
    Floor,
    Key,
    MovingObstacle,
    NoneGridObject,
    Telepod,
    Wall,
)
from gym_gridverse.rng import (  # noqa: E402
    choice,
    choices,
    get_gv_rng_if_none,
    make_rng,
    reset_gv_rng,
)
from gym_gridverse.state import State  # noqa: E402

FAILURES = []


def fail(message):
    FAILURES.append(message)
    if len(FAILURES) <= 30:
        print('FAIL', message)


# ---------------------------------------------------------------------------
# canonical rendering


def canon_object(obj):
    status = getattr(obj, 'state', None)
    return (
        f'{type(obj).__name__}:{obj.color.name}:{int(obj.state_index)}'
        f':{getattr(status, "name", "")}'
    )


def canon_state(state):
    rows = [
        ','.join(canon_object(obj) for obj in row) for row in state.grid.objects
    ]
    agent = state.agent
    return (
        f'{state.grid.shape.height}x{state.grid.shape.width}|'
        + ';'.join(rows)
        + f'|{int(agent.position.y)},{int(agent.position.x)}'
        + f',{agent.orientation.name},{canon_object(agent.grid_object)}'
    )


# ---------------------------------------------------------------------------
# the property


def objects_of(state, object_type):
    return [
        (position, state.grid[position])
        for position in state.grid.area.positions()
        if type(state.grid[position]) is object_type
    ]


def check_common(tag, state, shape):
    grid, agent = state.grid, state.agent

    if (grid.shape.height, grid.shape.width) != (shape.height, shape.width):
        fail(f'{tag}: shape {grid.shape} != requested {shape}')
        return False
    if len(grid.objects) != shape.height or any(
        len(row) != shape.width for row in grid.objects
    ):
        fail(f'{tag}: ragged objects')
        return False

    # unbroken wall boundary
    for y in range(shape.height):
        for x in range(shape.width):
            border = y in (0, shape.height - 1) or x in (0, shape.width - 1)
            if border and type(grid[y, x]) is not Wall:
                fail(f'{tag}: boundary broken at {(y, x)}: {grid[y, x]}')
                return False

    # objects are not shared between cells
    ids = [id(obj) for row in grid.objects for obj in row]
    if len(ids) != len(set(ids)):
        fail(f'{tag}: aliased grid objects')

    # agent
    y, x = int(agent.position.y), int(agent.position.x)
    if not (0 < y < shape.height - 1 and 0 < x < shape.width - 1):
        fail(f'{tag}: agent {agent.position} not inside the grid')
        return False
    if type(agent.grid_object) is not NoneGridObject:
        fail(f'{tag}: agent holds {agent.grid_object}')
    if agent.orientation not in list(Orientation):
        fail(f'{tag}: agent orientation {agent.orientation}')
    cell = grid[agent.position]
    if cell.blocks_movement:
        fail(f'{tag}: agent on blocking cell {cell}')
    if isinstance(cell, (Exit, MovingObstacle, Telepod)):
        fail(f'{tag}: agent on {cell}')
    return True


def check_types(tag, state, allowed):
    types = state.grid.object_types()
    if not types <= set(allowed):
        fail(f'{tag}: unexpected object types {types - set(allowed)}')


def check_count(tag, state, object_type, expected):
    found = objects_of(state, object_type)
    if len(found) != expected:
        fail(f'{tag}: {len(found)} {object_type.__name__}, want {expected}')
    return found


def check_empty(tag, state, shape, random_agent=False, random_exit=False):
    if not check_common(tag, state, shape):
        return
    check_types(tag, state, [Wall, Floor, Exit])
    exits = check_count(tag, state, Exit, 1)
    check_count(tag, state, Wall, 2 * shape.height + 2 * shape.width - 4)
    if not random_exit and exits[0][0] != Position(
        shape.height - 2, shape.width - 2
    ):
        fail(f'{tag}: exit at {exits[0][0]}')
    if not random_agent and (
        state.agent.position != Position(1, 1)
        or state.agent.orientation is not Orientation.R
    ):
        fail(f'{tag}: agent at {state.agent.position}')


def check_rooms(tag, state, shape, layout):
    if not check_common(tag, state, shape):
        return
    check_types(tag, state, [Wall, Floor, Exit])
    check_count(tag, state, Exit, 1)


def check_dynamic_obstacles(tag, state, shape, num_obstacles, random_agent):
    if not check_common(tag, state, shape):
        return
    check_types(tag, state, [Wall, Floor, Exit, MovingObstacle])
    check_count(tag, state, Exit, 1)
    check_count(tag, state, MovingObstacle, num_obstacles)
    check_count(tag, state, Wall, 2 * shape.height + 2 * shape.width - 4)
    if not random_agent and state.agent.position != Position(1, 1):
        fail(f'{tag}: agent at {state.agent.position}')


def check_keydoor(tag, state, shape):
    if not check_common(tag, state, shape):
        return
    check_types(tag, state, [Wall, Floor, Exit, Door, Key])
    check_count(tag, state, Exit, 1)
    doors = check_count(tag, state, Door, 1)
    keys = check_count(tag, state, Key, 1)
    if len(doors) != 1 or len(keys) != 1:
        return
    (door_position, door), (key_position, key) = doors[0], keys[0]
    if not door.is_locked or door.color is not Color.YELLOW:
        fail(f'{tag}: door {door.state} {door.color}')
    if key.color is not door.color:
        fail(f'{tag}: key {key.color} does not match door {door.color}')
    x_wall = door_position.x
    if not 2 <= x_wall <= shape.width - 3:
        fail(f'{tag}: dividing wall at column {x_wall}')
    for y in range(1, shape.height - 1):
        if y != door_position.y and type(state.grid[y, x_wall]) is not Wall:
            fail(f'{tag}: dividing wall broken at {(y, x_wall)}')
    for y in range(1, shape.height - 1):
        for x in range(1, shape.width - 1):
            if x != x_wall and type(state.grid[y, x]) is Wall:
                fail(f'{tag}: stray wall at {(y, x)}')
    if not key_position.x < x_wall:
        fail(f'{tag}: key {key_position} not left of wall {x_wall}')
    if not state.agent.position.x < x_wall:
        fail(f'{tag}: agent {state.agent.position} not on the key side')
    exit_position = objects_of(state, Exit)[0][0]
    if not exit_position.x > x_wall:
        fail(f'{tag}: exit {exit_position} not right of wall {x_wall}')


def check_crossing(tag, state, shape, num_rivers, object_type):
    if not check_common(tag, state, shape):
        return
    check_types(tag, state, {Wall, Floor, Exit, object_type})
    exits = check_count(tag, state, Exit, 1)
    if exits[0][0] != Position(shape.height - 2, shape.width - 2):
        fail(f'{tag}: exit at {exits[0][0]}')
    if state.agent.position != Position(1, 1):
        fail(f'{tag}: agent at {state.agent.position}')
    # the exit is reachable through non-river cells
    frontier, seen = [(1, 1)], {(1, 1)}
    while frontier:
        y, x = frontier.pop()
        for dy, dx in [(0, 1), (1, 0), (0, -1), (-1, 0)]:
            p = (y + dy, x + dx)
            if p not in seen and type(state.grid[p]) in (Floor, Exit):
                seen.add(p)
                frontier.append(p)
    if exits[0][0].yx not in seen:
        fail(f'{tag}: exit not reachable')


def check_teleport(tag, state, shape):
    if not check_common(tag, state, shape):
        return
    check_types(tag, state, [Wall, Floor, Exit, Telepod])
    check_count(tag, state, Exit, 1)
    telepods = check_count(tag, state, Telepod, 2)
    if len({telepod.color for _, telepod in telepods}) != 1:
        fail(f'{tag}: telepod colours differ')
    if state.agent.position != Position(1, 1):
        fail(f'{tag}: agent at {state.agent.position}')
    if state.agent.orientation not in (Orientation.R, Orientation.B):
        fail(f'{tag}: agent orientation {state.agent.orientation}')


def check_exits_beacons(tag, state, colors, num_exits, num_beacons):
    exits = check_count(tag, state, Exit, num_exits)
    beacons = check_count(tag, state, Beacon, num_beacons)
    exit_colors = [obj.color for _, obj in exits]
    if len(set(exit_colors)) != len(exit_colors):
        fail(f'{tag}: exit colours not distinct {exit_colors}')
    if not set(exit_colors) <= set(colors):
        fail(f'{tag}: exit colours {exit_colors} not among {colors}')
    beacon_colors = {obj.color for _, obj in beacons}
    if len(beacon_colors) != 1:
        fail(f'{tag}: beacon colours {beacon_colors}')
    elif exit_colors.count(next(iter(beacon_colors))) != 1:
        fail(f'{tag}: beacons {beacon_colors} match != 1 exit {exit_colors}')


def check_memory(tag, state, shape, colors):
    if not check_common(tag, state, shape):
        return
    check_types(tag, state, [Wall, Floor, Exit, Beacon])
    check_exits_beacons(tag, state, colors, 2, 2)
    if type(state.grid[state.agent.position]) is not Floor:
        fail(f'{tag}: agent on {state.grid[state.agent.position]}')


def check_memory_rooms(
    tag, state, shape, layout, colors, num_beacons, num_exits
):
    if not check_common(tag, state, shape):
        return
    check_types(tag, state, [Wall, Floor, Exit, Beacon])
    check_exits_beacons(tag, state, colors, num_exits, num_beacons)
    if type(state.grid[state.agent.position]) is not Floor:
        fail(f'{tag}: agent on {state.grid[state.agent.position]}')


# ---------------------------------------------------------------------------
# reference implementations (the spelling of the pristine tree)


def ref_draw_room_grid(grid, ys, xs, factory):
    """`design.draw_room_grid` of the pristine tree, helpers inlined"""

    def draw_cartesian_product(ys, xs):
        positions = [Position(y, x) for y in ys for x in xs]
        for position in positions:
            grid[position] = factory()
        return positions

    y_range = range(min(ys), max(ys) + 1)
    x_range = range(min(xs), max(xs) + 1)

    # draw horizontal lines
    positions = draw_cartesian_product(ys, x_range)

    # fill in remaining vertical lines
    ys_remaining = [y for y in y_range if y not in ys]
    positions += draw_cartesian_product(ys_remaining, xs)

    return positions


def ref_room_grid(shape, layout, rng):
    layout_height, layout_width = layout
    y_splits = np.linspace(
        0, shape.height - 1, num=layout_height + 1, dtype=int
    )
    if len(y_splits) != len(set(y_splits)):
        raise ValueError('insufficient height')
    x_splits = np.linspace(0, shape.width - 1, num=layout_width + 1, dtype=int)
    if len(x_splits) != len(set(x_splits)):
        raise ValueError('insufficient width')

    grid = Grid.from_shape((shape.height, shape.width))
    ref_draw_room_grid(grid, y_splits, x_splits, Wall)

    for y in y_splits[1:-1]:
        for x_from, x_to in zip(x_splits, x_splits[1:]):
            x = rng.integers(x_from + 1, x_to)
            grid[y, x] = Floor()

    for y_from, y_to in zip(y_splits, y_splits[1:]):
        for x in x_splits[1:-1]:
            y = rng.integers(y_from + 1, y_to)
            grid[y, x] = Floor()

    return grid


def ref_rooms(shape, layout, *, rng=None):
    rng = get_gv_rng_if_none(rng)
    grid = ref_room_grid(shape, layout, rng)
    positions = [
        position
        for position in grid.area.positions()
        if isinstance(grid[position], Floor)
    ]
    agent_position, exit_position = choices(
        rng, positions, size=2, replace=False
    )
    agent_orientation = choice(rng, list(Orientation))
    grid[exit_position] = Exit()
    return State(grid, Agent(agent_position, agent_orientation))


def ref_memory_rooms(
    shape, layout, colors, num_beacons, num_exits, *, rng=None
):
    if Color.NONE in colors:
        raise ValueError('NONE')
    if len(colors) < 2:
        raise ValueError('colors')
    if num_beacons < 1:
        raise ValueError('num_beacons')
    if num_exits < 2:
        raise ValueError('num_exits')

    rng = get_gv_rng_if_none(rng)
    grid = ref_room_grid(shape, layout, rng)

    positions = [
        position
        for position in grid.area.positions()
        if isinstance(grid[position], Floor)
    ]
    positions = choices(
        rng, positions, size=1 + num_beacons + num_exits, replace=False
    )

    agent_position = positions[0]
    agent_orientation = choice(rng, list(Orientation))
    agent = Agent(agent_position, agent_orientation)

    sorted_colors = sorted(colors, key=lambda color: color.value)
    sample_colors = choices(rng, sorted_colors, size=num_exits, replace=False)

    good_color = sample_colors[0]
    for beacon_position in positions[1 : 1 + num_beacons]:
        grid[beacon_position] = Beacon(good_color)

    for exit_position, exit_color in zip(
        positions[1 + num_beacons :], sample_colors
    ):
        grid[exit_position] = Exit(exit_color)

    return State(grid, agent)


REFERENCES = {
    'rooms': ref_rooms,
    'memory_rooms': ref_memory_rooms,
}


# ---------------------------------------------------------------------------
# design.draw_room_grid against the embedded reference


class CountingFactory:
    """wall factory which counts its calls"""

    def __init__(self):
        self.calls = 0

    def __call__(self):
        self.calls += 1
        return Wall()


def draw_outcome(function, shape, ys, xs):
    grid = Grid.from_shape(shape)
    factory = CountingFactory()
    try:
        positions = function(grid, ys, xs, factory)
    except Exception as error:  # pylint: disable=broad-except
        return type(error).__name__, None

    if not isinstance(positions, list):
        return 'not a list', None

    cells = tuple(
        tuple(type(obj).__name__ for obj in row) for row in grid.objects
    )
    listed = tuple((int(p.y), int(p.x)) for p in positions)
    kinds = tuple((type(p.y).__name__, type(p.x).__name__) for p in positions)
    return 'ok', (cells, listed, kinds, factory.calls)


def check_draw_room_grid():
    cases = [
        # (shape, ys, xs)
        ((3, 5), [0, 2], [0, 2, 4]),
        ((5, 7), [0, 2, 4], [0, 2, 4, 6]),
        ((5, 7), (0, 2, 4), (0, 3, 6)),
        ((7, 5), [0, 3, 6], [0, 4]),
        ((7, 5), [6, 0, 3], [4, 0]),  # unsorted
        ((7, 5), [0, 3, 3, 6, 0], [0, 4, 4]),  # duplicates
        ((7, 9), [1, 4], [2, 5, 7]),  # partial grid of rooms, off the border
        ((7, 9), [3], [4]),  # a single cell
        ((7, 9), [2], [1, 6]),  # a single row
        ((7, 9), [1, 5], [3]),  # a single column
        ((1, 1), [0], [0]),
        ((1, 6), [0], [0, 5]),
        ((6, 1), [0, 5], [0]),
        ((2, 2), [0, 1], [0, 1]),
        ((4, 4), range(0, 4, 3), range(0, 4, 3)),
        ((9, 9), range(0, 9, 2), range(0, 9, 4)),
        ((9, 9), range(0, 9), range(0, 9)),  # everything is a wall
        ((9, 9), {0, 4, 8}, {0, 8}),
        ((9, 9), dict.fromkeys([0, 4, 8]).keys(), dict.fromkeys([8, 0])),
        ((9, 12), np.array([0, 4, 8]), np.array([0, 3, 7, 11])),
        ((9, 12), np.array([8, 0]), [0, 11]),
        ((9, 12), [0, 8], np.array([11, 5, 0])),
        ((9, 12), np.array([0, 4, 8], dtype=np.int32), np.array([0, 11])),
        ((9, 12), np.array([0, 4, 8], dtype=np.uint8), np.array([0, 11])),
        ((5, 5), [True, 4], [0, 4]),  # bools are ints
        # errors
        ((5, 5), [], [0, 4]),
        ((5, 5), [0, 4], []),
        ((5, 5), np.array([], dtype=int), np.array([0, 4])),
        ((5, 5), [0, 5], [0, 4]),  # out of the grid
        ((5, 5), [0, 4], [0, 7]),
        ((5, 5), [0, None], [0, 4]),
        ((5, 5), [0, 4], 3),
    ]
    for shape, ys, xs in cases:
        expected = draw_outcome(ref_draw_room_grid, shape, ys, xs)
        found = draw_outcome(draw_room_grid, shape, ys, xs)
        if expected != found:
            fail(
                f'draw_room_grid({shape}, {ys!r}, {xs!r}): '
                f'{found[0]} differs from reference {expected[0]}'
            )

    # the splits that the reset functions compute, for every shape and layout
    for shape in SHAPES:
        for layout in LAYOUTS + BAD_LAYOUTS:
            try:
                ys = np.linspace(
                    0, shape.height - 1, num=layout[0] + 1, dtype=int
                )
                xs = np.linspace(
                    0, shape.width - 1, num=layout[1] + 1, dtype=int
                )
            except ValueError:
                continue
            expected = draw_outcome(
                ref_draw_room_grid, shape.as_tuple, ys, xs
            )
            found = draw_outcome(draw_room_grid, shape.as_tuple, ys, xs)
            if expected != found:
                fail(f'draw_room_grid for {shape} {layout} differs')
            if (
                found[0] == 'ok'
                and min(layout) > 0
                and len(set(ys)) == len(ys)
                and len(set(xs)) == len(xs)
            ):
                # the boundary and every split are fully drawn
                cells = found[1][0]
                for y in range(shape.height):
                    for x in range(shape.width):
                        wall = y in ys or x in xs
                        if (cells[y][x] == 'Wall') != wall:
                            fail(f'room grid {shape} {layout} at {(y, x)}')

    # the arguments are not modified
    ys, xs = [0, 4, 2], np.array([6, 0, 3])
    draw_room_grid(Grid.from_shape((5, 7)), ys, xs, Wall)
    if ys != [0, 4, 2] or xs.tolist() != [6, 0, 3]:
        fail('draw_room_grid modified its arguments')

    # repeated drawing on the same grid is idempotent w.r.t. cell types
    grid = Grid.from_shape((5, 7))
    first = draw_room_grid(grid, [0, 2, 4], [0, 3, 6], Wall)
    rendered = [[type(obj) for obj in row] for row in grid.objects]
    second = draw_room_grid(grid, [0, 2, 4], [0, 3, 6], Wall)
    if first != second or rendered != [
        [type(obj) for obj in row] for row in grid.objects
    ]:
        fail('draw_room_grid is not repeatable')

# ---------------------------------------------------------------------------
# scenarios

SHAPES = [
    Shape(1, 1),
    Shape(1, 5),
    Shape(2, 2),
    Shape(3, 3),
    Shape(3, 4),
    Shape(3, 5),
    Shape(3, 6),
    Shape(4, 4),
    Shape(4, 5),
    Shape(5, 4),
    Shape(4, 7),
    Shape(5, 5),
    Shape(5, 7),
    Shape(7, 5),
    Shape(6, 6),
    Shape(6, 9),
    Shape(7, 9),
    Shape(9, 7),
    Shape(11, 11),
    Shape(5, 13),
    Shape(9, 12),
    Shape(13, 8),
]
LAYOUTS = [(1, 1), (1, 2), (2, 1), (2, 2), (3, 2), (2, 3), (1, 4), (5, 5)]
BAD_LAYOUTS = [(0, 1), (1, 0), (0, 0), (-1, 1), (1, -2)]
COLOR_SETS = [
    set(),
    {Color.RED},
    {Color.RED, Color.NONE},
    {Color.RED, Color.BLUE},
    {Color.YELLOW, Color.GREEN, Color.BLUE},
    {Color.RED, Color.GREEN, Color.BLUE, Color.YELLOW},
]
SEEDS = list(range(6)) + [2**31 - 1]


def scenarios():
    """yields (name, kwargs, checker or None)"""
    for shape in SHAPES:
        for random_agent, random_exit in itt.product([False, True], repeat=2):
            yield (
                'empty',
                dict(
                    shape=shape,
                    random_agent=random_agent,
                    random_exit=random_exit,
                ),
                check_empty,
            )

        for layout in LAYOUTS:
            yield 'rooms', dict(shape=shape, layout=layout), check_rooms
        for layout in BAD_LAYOUTS:
            # NOTE: degenerate layouts are outside the property; outcomes are
            # only compared with the pinned digests
            yield 'rooms', dict(shape=shape, layout=layout), None

        inside = max(shape.height - 2, 0) * max(shape.width - 2, 0)
        for num_obstacles in sorted(
            {-1, 0, 1, 2, 3, inside - 3, inside - 2, inside - 1, inside}
        ):
            for random_agent in [False, True]:
                yield (
                    'dynamic_obstacles',
                    dict(
                        shape=shape,
                        num_obstacles=num_obstacles,
                        random_agent=random_agent,
                    ),
                    check_dynamic_obstacles,
                )

        yield 'keydoor', dict(shape=shape), check_keydoor

        for num_rivers in [-1, 0, 1, 2, 3, 5, 100]:
            for object_type in [Wall, MovingObstacle]:
                yield (
                    'crossing',
                    dict(
                        shape=shape,
                        num_rivers=num_rivers,
                        object_type=object_type,
                    ),
                    check_crossing,
                )

        yield 'teleport', dict(shape=shape), check_teleport

        for colors in COLOR_SETS:
            yield 'memory', dict(shape=shape, colors=colors), check_memory

        for layout in [(1, 1), (2, 2), (1, 3), (3, 1)]:
            for colors in COLOR_SETS:
                for num_beacons, num_exits in [
                    (0, 2),
                    (1, 1),
                    (1, 2),
                    (3, 2),
                    (2, 3),
                    (1, 4),
                    (1, 5),
                    (30, 2),
                ]:
                    yield (
                        'memory_rooms',
                        dict(
                            shape=shape,
                            layout=layout,
                            colors=colors,
                            num_beacons=num_beacons,
                            num_exits=num_exits,
                        ),
                        check_memory_rooms,
                    )


def describe(kwargs):
    parts = []
    for key, value in kwargs.items():
        if isinstance(value, set):
            value = sorted(color.name for color in value)
        elif isinstance(value, type):
            value = value.__name__
        elif isinstance(value, Shape):
            value = (value.height, value.width)
        parts.append(f'{key}={value}')
    return ' '.join(parts)


def run(function, kwargs, seed):
    """returns (state or None, outcome string)"""
    try:
        state = function(**kwargs, rng=make_rng(seed))
    except ValueError:
        return None, 'ValueError'
    except Exception as error:  # pylint: disable=broad-except
        return None, f'{type(error).__name__}'
    return state, canon_state(state)


EXPECTED_DIGESTS = {
    'empty': (
        '89b16fec1d5687058cdc2742489d4caf2d3d9a1d1452324b7f2ebdc4b32a1512'
    ),
    'rooms': (
        'b3c6c32e0c110c221078f3c034f8fd03f2dc6b986213ccb4f92c9baa12271d8b'
    ),
    'dynamic_obstacles': (
        'da5fe8e334d40bd84e8d8e04f340fe9d21c7b8d352ce76b4fd542c648f2f7b3a'
    ),
    'keydoor': (
        '6a9c7426694f62d326410f1637680171c8ed80e07ecf79a346be87f2a413f202'
    ),
    'crossing': (
        '3d39475221ff1cdb1ad7a2c6ee145419b11468b247de97633d1a5d644187c7d7'
    ),
    'teleport': (
        '94a5f903eb136e05787cf1ad4e288f7b65097f95a59959f09506caa30725ee93'
    ),
    'memory': (
        '5b9a5a2d1f5299e6f9fcb32314965977ab3191095fabc94545c071989d28ba54'
    ),
    'memory_rooms': (
        'cacbcdfc8b5f429c2caa6f667a99b22534bf5528a9da15f05306359cb9ab34b0'
    ),
}
EXPECTED_COUNTS = {
    'empty': (420, 196),
    'rooms': (1071, 931),
    'dynamic_obstacles': (1190, 1232),
    'keydoor': (91, 63),
    'crossing': (490, 1666),
    'teleport': (105, 49),
    'memory': (168, 756),
    'memory_rooms': (3360, 26208),
}


def main():
    if sorted(rf.reset_function_registry.keys()) != sorted(EXPECTED_DIGESTS):
        fail(f'registry names {sorted(rf.reset_function_registry.keys())}')

    digests = {name: hashlib.sha256() for name in EXPECTED_DIGESTS}
    counts = {name: [0, 0] for name in EXPECTED_DIGESTS}

    for name, kwargs, checker in scenarios():
        function = getattr(rf, name)
        if rf.reset_function_registry[name] is not function:
            fail(f'{name}: registry entry is not the module function')

        for seed in SEEDS:
            tag = f'{name}({describe(kwargs)}) seed={seed}'
            state, outcome = run(function, kwargs, seed)
            digests[name].update((tag + '->' + outcome + '\n').encode())

            if state is None:
                counts[name][1] += 1
                if outcome != 'ValueError':
                    fail(f'{tag}: raised {outcome}, want ValueError or state')
            else:
                counts[name][0] += 1
                if checker is not None:
                    checker(tag, state, **kwargs)

            # reference implementation
            reference = REFERENCES.get(name)
            if reference is not None:
                _, outcome_reference = run(reference, kwargs, seed)
                if outcome != outcome_reference:
                    fail(f'{tag}: differs from the reference implementation')

            # repeated call, fresh generator with the same seed
            if seed == SEEDS[1]:
                _, outcome_again = run(function, kwargs, seed)
                if outcome != outcome_again:
                    fail(f'{tag}: not reproducible')

    for name in EXPECTED_DIGESTS:
        digest = digests[name].hexdigest()
        print(f'{name:18s} states={counts[name][0]:5d} '
              f'errors={counts[name][1]:5d} digest={digest}')
        if EXPECTED_DIGESTS[name] != digest:
            fail(f'{name}: digest {digest} != pinned {EXPECTED_DIGESTS[name]}')
        if EXPECTED_COUNTS[name] != tuple(counts[name]):
            fail(f'{name}: counts {counts[name]} != {EXPECTED_COUNTS[name]}')

    check_draw_room_grid()
    check_rng_plumbing()
    check_through_factory()

    if FAILURES:
        print(f'{len(FAILURES)} FAILURES')
        return 1

    print('OK')
    return 0


def check_rng_plumbing():
    """library-level generator, re-seeding, shared generators, several calls"""
    calls = [
        ('empty', dict(shape=Shape(6, 7), random_agent=True, random_exit=True)),
        ('rooms', dict(shape=Shape(9, 10), layout=(2, 3))),
        (
            'dynamic_obstacles',
            dict(shape=Shape(6, 5), num_obstacles=4, random_agent=True),
        ),
        ('keydoor', dict(shape=Shape(5, 8))),
        ('crossing', dict(shape=Shape(7, 9), num_rivers=3, object_type=Wall)),
        ('teleport', dict(shape=Shape(5, 6))),
        ('memory', dict(shape=Shape(6, 7), colors={Color.RED, Color.GREEN})),
        (
            'memory_rooms',
            dict(
                shape=Shape(9, 9),
                layout=(2, 2),
                colors={Color.RED, Color.GREEN, Color.BLUE},
                num_beacons=2,
                num_exits=3,
            ),
        ),
    ]

    def sequence_with(rng):
        outcomes = []
        for _ in range(3):
            for name, kwargs in calls:
                state = getattr(rf, name)(**kwargs, rng=rng)
                outcomes.append(canon_state(state))
        return outcomes

    # one generator shared by a stream of resets
    explicit = sequence_with(make_rng(1234))

    # library generator, seeded equally, produces the same stream
    reset_gv_rng(1234)
    implicit = sequence_with(None)
    if explicit != implicit:
        fail('library-level generator stream differs from explicit generator')

    # re-seeding restarts the stream
    reset_gv_rng(1234)
    if sequence_with(None) != implicit:
        fail('re-seeding the library-level generator does not reproduce')

    # a generator is advanced identically by the implementation and reference
    rng_a, rng_b = make_rng(99), make_rng(99)
    for _ in range(5):
        for name, kwargs in calls:
            reference = REFERENCES.get(name)
            if reference is None:
                continue
            state_a = getattr(rf, name)(**kwargs, rng=rng_a)
            state_b = reference(**kwargs, rng=rng_b)
            if canon_state(state_a) != canon_state(state_b):
                fail(f'{name}: stream diverges from the reference')
            if state_a != state_b or hash(state_a) != hash(state_b):
                fail(f'{name}: State.__eq__/__hash__ differ from reference')
    if rng_a.integers(1 << 30) != rng_b.integers(1 << 30):
        fail('generators consumed differently from the reference')


def check_through_factory():
    """`factory` binds parameters and leaves `rng` to the caller"""
    function = rf.factory(
        'dynamic_obstacles', shape=Shape(7, 6), num_obstacles=5, random_agent=True
    )
    for seed in SEEDS:
        a = function(rng=make_rng(seed))
        b = rf.dynamic_obstacles(Shape(7, 6), 5, True, rng=make_rng(seed))
        if canon_state(a) != canon_state(b):
            fail('factory(dynamic_obstacles) differs from direct call')
        check_dynamic_obstacles(f'factory seed={seed}', a, Shape(7, 6), 5, True)

    function = rf.factory('teleport', shape=Shape(4, 6))
    for seed in SEEDS:
        a = function(rng=make_rng(seed))
        check_teleport(f'factory teleport seed={seed}', a, Shape(4, 6))


if __name__ == '__main__':
    sys.exit(main())
