"""Demo for C06 (hidden cells carry no information; occlusion is monotone).

Runs unchanged on the pristine tree and with the change applied.  Everything
the library computes is compared against reference implementations embedded
here (copies of the pristine algorithms, written independently of the library
helpers), and the property itself is checked directly:

* visibility masks of `partially_occluded`, `raytracing` equal the references
  (exhaustively over all opacity patterns of small views, every agent cell);
* rays of `compute_rays_fancy` equal the reference rays (order, multiplicity);
* agent cell visible; 8-connected chain of transparent visible cells;
  monotone under making a visible opaque cell transparent; changing the
  opacity of a non-visible cell never changes the mask;
* observation level: random non-square worlds, agents on borders/corners, four
  headings, asymmetric areas: observation equals a reference observation, and
  replacing any hidden / out-of-view world cell leaves it unchanged;
* stochastic variant bounded by the deterministic ray counts, reproducible
  under re-seeding.
"""
import itertools as itt
import math
import os
import sys
import warnings

import numpy as np

warnings.filterwarnings('ignore')
sys.path.insert(0, os.getcwd())  # run from the worktree root

from gym_gridverse.agent import Agent  # noqa: E402
from gym_gridverse.envs import observation_functions as ofs  # noqa: E402
from gym_gridverse.envs import visibility_functions as vfs  # noqa: E402
from gym_gridverse.geometry import Area, Orientation, Position  # noqa: E402
from gym_gridverse.grid import Grid  # noqa: E402
from gym_gridverse.grid_object import (  # noqa: E402
    Color,
    Door,
    Floor,
    Hidden,
    Key,
    Wall,
)
from gym_gridverse.state import State  # noqa: E402
from gym_gridverse.utils.raytracing import (  # noqa: E402
    cached_compute_rays_fancy,
    compute_rays_fancy,
)

CHECKS = 0


def check(condition, *info):
    global CHECKS
    CHECKS += 1
    if not condition:
        print('FAILED', *info)
        sys.exit(1)


# --------------------------------------------------------------------------
# reference implementations (plain tuples, no library helpers)
# --------------------------------------------------------------------------


def ref_ray(py, px, h, w, radians, step_size=0.01):
    """pristine compute_ray on area (0..h-1, 0..w-1), unique=True"""
    y0, x0 = float(py), float(px)
    dy = step_size * math.sin(radians)
    dx = step_size * math.cos(radians)
    ray, seen = [], set()
    for i in itt.count():
        cell = (round(y0 + i * dy), round(x0 + i * dx))
        if not (0 <= cell[0] < h and 0 <= cell[1] < w):
            break
        if cell not in seen:
            seen.add(cell)
            ray.append(cell)
    return ray


_REF_RAYS = {}


def ref_rays_fancy(py, px, h, w):
    key = (py, px, h, w)
    if key not in _REF_RAYS:
        ys = np.linspace(0, h, num=h + 1) - 0.5 - py
        xs = np.linspace(0, w, num=w + 1) - 0.5 - px
        yys, xxs = np.meshgrid(ys, xs)
        radians = np.sort(np.arctan2(yys, xxs), axis=None)
        _REF_RAYS[key] = [ref_ray(py, px, h, w, rad) for rad in radians]
    return _REF_RAYS[key]


def ref_ray_counts(opaque, py, px):
    h, w = opaque.shape
    num = np.zeros((h, w), dtype=int)
    den = np.zeros((h, w), dtype=int)
    for ray in ref_rays_fancy(py, px, h, w):
        light = True
        for y, x in ray:
            num[y, x] += int(light)
            den[y, x] += 1
            light = light and not opaque[y, x]
    return num, den


def ref_raytracing(opaque, py, px):
    num, _ = ref_ray_counts(opaque, py, px)
    return num >= 1


def ref_partially_occluded(opaque, py, px):
    """pristine recursive flood, one visited mask per side"""
    h, w = opaque.shape

    def sweep(side):
        vis = np.zeros((h, w), dtype=bool)

        def visit(y, x):
            if 0 <= y < h and 0 <= x < w and not vis[y, x]:
                vis[y, x] = True
                if not opaque[y, x]:
                    visit(y - 1, x)
                    visit(y, x + side)
                    visit(y - 1, x + side)

        visit(py, px)
        return vis

    return sweep(-1) | sweep(+1)


REFS = {
    'partially_occluded': ref_partially_occluded,
    'raytracing': ref_raytracing,
}

# --------------------------------------------------------------------------
# helpers
# --------------------------------------------------------------------------


def grid_from_opacity(opaque):
    return Grid(
        [[Wall() if cell else Floor() for cell in row] for row in opaque]
    )


def lib_visibility(name, opaque, py, px):
    function = vfs.visibility_function_registry[name]
    grid = grid_from_opacity(opaque)
    before = [[type(o) for o in row] for row in grid.objects]
    visibility = function(grid, Position(py, px))
    check(
        before == [[type(o) for o in row] for row in grid.objects],
        'visibility function mutated grid',
    )
    check(visibility.dtype == bool and visibility.shape == opaque.shape)
    return visibility


def chain_ok(visibility, opaque, py, px):
    """every visible cell is linked to the agent by 8-adjacent transparent
    visible cells (the cell itself may be opaque)"""
    h, w = opaque.shape
    reached = np.zeros((h, w), dtype=bool)
    reached[py, px] = True
    stack = [(py, px)]
    while stack:
        y, x = stack.pop()
        if opaque[y, x] or not visibility[y, x]:
            continue  # does not propagate
        for dy in (-1, 0, 1):
            for dx in (-1, 0, 1):
                ny, nx = y + dy, x + dx
                if 0 <= ny < h and 0 <= nx < w and not reached[ny, nx]:
                    reached[ny, nx] = True
                    stack.append((ny, nx))
    return not (visibility & ~reached).any()


def agent_cells(name, h, w):
    if name == 'partially_occluded':
        return [(h - 1, x) for x in range(w)]
    return [(y, x) for y in range(h) for x in range(w)]


def check_pattern(name, opaque, py, px, deep):
    visibility = lib_visibility(name, opaque, py, px)
    expected = REFS[name](opaque, py, px)
    check(
        (visibility == expected).all(),
        name, opaque.tolist(), (py, px), visibility.tolist(), expected.tolist(),
    )
    check(visibility[py, px], 'agent cell hidden', name, opaque.tolist())
    check(chain_ok(visibility, opaque, py, px), 'chain', name, opaque.tolist())
    # repeated call gives the same answer
    check((lib_visibility(name, opaque, py, px) == visibility).all())

    if not deep:
        return

    h, w = opaque.shape
    for y in range(h):
        for x in range(w):
            flipped = opaque.copy()
            flipped[y, x] = not flipped[y, x]
            if not visibility[y, x]:
                # hidden cell: content is irrelevant
                other = lib_visibility(name, flipped, py, px)
                check(
                    (other == visibility).all(),
                    'hidden cell interferes', name, opaque.tolist(), (y, x),
                )
            elif opaque[y, x]:
                # visible opaque cell becomes transparent: monotone
                other = lib_visibility(name, flipped, py, px)
                check(
                    not (visibility & ~other).any(),
                    'not monotone', name, opaque.tolist(), (y, x),
                )


# --------------------------------------------------------------------------
# 1. rays
# --------------------------------------------------------------------------

RAY_SHAPES = [(1, 1), (1, 4), (4, 1), (2, 3), (3, 2), (3, 3), (2, 4), (3, 5)]

for h, w in RAY_SHAPES:
    area = Area((0, h - 1), (0, w - 1))
    for py in range(h):
        for px in range(w):
            expected = ref_rays_fancy(py, px, h, w)
            for function in (compute_rays_fancy, cached_compute_rays_fancy):
                rays = function(Position(py, px), area)
                got = [[p.yx for p in ray] for ray in rays]
                check(got == expected, 'rays differ', (h, w), (py, px))
                check(all(isinstance(ray, list) for ray in rays))
                check(all(ray[0] == Position(py, px) for ray in rays))
                # rays are independent lists
                check(len({id(ray) for ray in rays}) == len(rays))
            check(len(expected) == (h + 1) * (w + 1))

# a larger, non-square area with the agent in corners and on the border
for (h, w), cells in {
    (5, 7): [(4, 0), (4, 6), (4, 3), (0, 0), (2, 6)],
    (7, 4): [(6, 1), (0, 3), (3, 0)],
}.items():
    area = Area((0, h - 1), (0, w - 1))
    for py, px in cells:
        rays = cached_compute_rays_fancy(Position(py, px), area)
        got = [[p.yx for p in ray] for ray in rays]
        check(got == ref_rays_fancy(py, px, h, w), 'rays differ', (h, w))

# areas that do not start at the origin
for area, position in [
    (Area((-2, 1), (-1, 2)), Position(0, 0)),
    (Area((3, 5), (2, 3)), Position(5, 2)),
]:
    rays = compute_rays_fancy(position, area)
    h, w = area.height, area.width
    expected = ref_rays_fancy(
        position.y - area.ymin, position.x - area.xmin, h, w
    )
    got = [
        [(p.y - area.ymin, p.x - area.xmin) for p in ray] for ray in rays
    ]
    check(got == expected, 'shifted rays differ', area)

try:
    compute_rays_fancy(Position(5, 5), Area((0, 2), (0, 2)))
except ValueError:
    check(True)
else:
    check(False, 'position outside area accepted')

# --------------------------------------------------------------------------
# 2. exhaustive opacity patterns of small views
# --------------------------------------------------------------------------

EXHAUSTIVE = [(1, 1), (1, 3), (3, 1), (2, 2), (2, 3), (3, 2), (3, 3), (2, 4)]

for h, w in EXHAUSTIVE:
    deep = h * w <= 6 or (h, w) == (3, 3)
    for bits in itt.product([False, True], repeat=h * w):
        opaque = np.array(bits, dtype=bool).reshape(h, w)
        for name in REFS:
            for py, px in agent_cells(name, h, w):
                if (h, w) == (3, 3) and name == 'raytracing':
                    # keep the deep check affordable: corners, edge, centre
                    deep_here = (py, px) in [(2, 1), (2, 0), (0, 2), (1, 1)]
                else:
                    deep_here = deep
                check_pattern(name, opaque, py, px, deep_here)

# --------------------------------------------------------------------------
# 3. random larger views (non-square, agent in corners / on borders)
# --------------------------------------------------------------------------

rng = np.random.default_rng(20240613)
for (h, w), cells in {
    (5, 7): [(4, 0), (4, 6), (4, 3), (0, 0), (2, 6)],
    (7, 4): [(6, 1), (0, 3), (3, 0)],
    (3, 5): [(2, 0), (2, 2), (2, 4), (1, 1)],
}.items():
    for density in (0.0, 0.2, 0.5, 0.8, 1.0):
        for _ in range(6):
            opaque = rng.random((h, w)) < density
            for name in REFS:
                for py, px in cells:
                    if name == 'partially_occluded' and py != h - 1:
                        continue
                    check_pattern(name, opaque, py, px, deep=False)

# partially occluded is only defined for an agent on the bottom row
for py in range(2):
    try:
        vfs.partially_occluded(Grid.from_shape((3, 3)), Position(py, 1))
    except NotImplementedError:
        check(True)
    else:
        check(False, 'expected NotImplementedError')

# a long corridor: the flood must cope with long chains
for length in (50, 400):
    opaque = np.zeros((1, length), dtype=bool)
    opaque[0, length - 2] = True
    visibility = lib_visibility('partially_occluded', opaque, 0, 0)
    check(visibility.tolist() == [[True] * (length - 1) + [False]])
    opaque = np.zeros((length, 2), dtype=bool)
    visibility = lib_visibility('partially_occluded', opaque, length - 1, 1)
    check(visibility.all())

# --------------------------------------------------------------------------
# 4. observation level: non-interference of hidden / out-of-view cells
# --------------------------------------------------------------------------

OBJECTS = [
    lambda: Floor(),
    lambda: Wall(),
    lambda: Door(Door.Status.CLOSED, Color.RED),
    lambda: Door(Door.Status.OPEN, Color.NONE),
    lambda: Key(Color.NONE),
    lambda: Key(Color.BLUE),
]


def random_world(h, w, density):
    objects = []
    for _ in range(h):
        row = []
        for _ in range(w):
            if rng.random() < density:
                row.append(OBJECTS[rng.integers(1, 3)]())
            else:
                row.append(OBJECTS[rng.choice([0, 0, 0, 3, 4, 5])]())
        objects.append(row)
    return Grid(objects)


def ref_observation(state, area, name):
    """(objects or None for hidden, world cell of every view cell)"""
    h, w = area.height, area.width
    transform = state.agent.transform
    cells = [[None] * w for _ in range(h)]
    world = {}
    for vy in range(h):
        for vx in range(w):
            p = transform * Position(vy + area.ymin, vx + area.xmin)
            if state.grid.area.contains(p):
                cells[vy][vx] = state.grid[p]
                world[p.yx] = (vy, vx)
            else:
                cells[vy][vx] = Hidden()
    opaque = np.array([[o.blocks_vision for o in row] for row in cells])
    visibility = REFS[name](opaque, -area.ymin, -area.xmin)
    for vy in range(h):
        for vx in range(w):
            if not visibility[vy][vx]:
                cells[vy][vx] = Hidden()
    return cells, world, visibility


AREAS = [
    Area((-2, 0), (-1, 1)),
    Area((-3, 0), (-1, 3)),  # asymmetric
    Area((-1, 0), (-3, 0)),  # agent in the view corner
    Area((0, 0), (0, 0)),  # the agent cell only
    Area((-4, 0), (0, 0)),  # a column
    Area((0, 0), (-2, 2)),  # a row
]
RAY_ONLY_AREAS = [Area((-2, 1), (-1, 2)), Area((0, 2), (-1, 0))]

REPLACEMENTS = [
    lambda: Wall(),
    lambda: Floor(),
    lambda: Door(Door.Status.OPEN, Color.GREEN),
    lambda: Key(Color.NONE),
]


def observe(name, state, area):
    return ofs.observation_function_registry[name](state, area=area)


for (h, w) in [(3, 6), (5, 4), (1, 5), (4, 1)]:
    corners_and_borders = {
        (0, 0), (0, w - 1), (h - 1, 0), (h - 1, w - 1),
        (h // 2, 0), (0, w // 2), (h // 2, w // 2),
    }
    for density in (0.15, 0.5):
        world_grid = random_world(h, w, density)
        for (ay, ax) in sorted(corners_and_borders):
            for orientation in Orientation:
                for name in REFS:
                    areas = AREAS + (
                        RAY_ONLY_AREAS if name == 'raytracing' else []
                    )
                    for area in areas:
                        agent = Agent(
                            Position(ay, ax), orientation, Key(Color.NONE)
                        )
                        state = State(world_grid, agent)
                        snapshot = [list(row) for row in world_grid.objects]
                        observation = observe(name, state, area)
                        check(
                            all(
                                a is b
                                for ra, rb in zip(
                                    snapshot, world_grid.objects
                                )
                                for a, b in zip(ra, rb)
                            ),
                            'state mutated',
                        )
                        cells, world, visibility = ref_observation(
                            state, area, name
                        )
                        check(
                            observation.grid == Grid(cells),
                            'observation differs', name, area, agent,
                        )
                        check(
                            observation.agent
                            == Agent(
                                Position(-area.ymin, -area.xmin),
                                Orientation.F,
                                Key(Color.NONE),
                            )
                        )
                        check(
                            not isinstance(
                                observation.grid[observation.agent.position],
                                Hidden,
                            ),
                            'agent cell hidden',
                        )
                        # replace every hidden / out-of-view world cell
                        for wy in range(h):
                            for wx in range(w):
                                view = world.get((wy, wx))
                                if view is not None and visibility[view]:
                                    continue
                                original = world_grid[wy, wx]
                                for make in REPLACEMENTS:
                                    world_grid[wy, wx] = make()
                                    other = observe(name, state, area)
                                    check(
                                        other == observation,
                                        'hidden cell leaks', name, area,
                                        agent, (wy, wx),
                                    )
                                world_grid[wy, wx] = original

# partially occluded observation with the agent not on the bottom view row
try:
    observe(
        'partially_occluded',
        State(Grid.from_shape((3, 3)), Agent(Position(1, 1), Orientation.F)),
        Area((-1, 1), (-1, 1)),
    )
except NotImplementedError:
    check(True)
else:
    check(False, 'expected NotImplementedError')

# --------------------------------------------------------------------------
# 5. stochastic variant: bounds, re-seeding
# --------------------------------------------------------------------------

for (h, w), (py, px) in [((3, 5), (2, 2)), ((5, 4), (4, 0)), ((2, 3), (0, 1))]:
    for density in (0.0, 0.3, 0.7):
        opaque = rng.random((h, w)) < density
        num, den = ref_ray_counts(opaque, py, px)
        grid = grid_from_opacity(opaque)
        # ray multiplicities matter for the non-default thresholds
        for threshold in (1, 2, 3, 5):
            visibility = vfs.raytracing(
                grid, Position(py, px), threshold=threshold
            )
            check((visibility == (num >= threshold)).all(), 'threshold')
        for threshold in (0.25, 0.5, 1.0):
            visibility = vfs.raytracing(
                grid,
                Position(py, px),
                absolute_counts=False,
                threshold=threshold,
            )
            with np.errstate(all='ignore'):
                check(
                    (visibility == ((num / den) >= threshold)).all(),
                    'relative threshold',
                )
        for seed in range(25):
            visibility = vfs.stochastic_raytracing(
                grid, Position(py, px), rng=np.random.default_rng(seed)
            )
            again = vfs.stochastic_raytracing(
                grid, Position(py, px), rng=np.random.default_rng(seed)
            )
            check((visibility == again).all(), 're-seeding')
            check(not (visibility & ~(num >= 1)).any(), 'upper bound')
            check(visibility[(den > 0) & (num == den)].all(), 'lower bound')
            check(visibility[py, px], 'agent cell')

print(f'OK ({CHECKS} checks)')
