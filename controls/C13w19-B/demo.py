"""Demo for change B (design.draw_room_grid_passages, shared by the room resets).

Runs on the pristine tree and on the patched tree alike; exits 0 when

* every built-in reset function yields a well-formed state (property C13) or
  raises ValueError, over a broad sweep of shapes / parameters / seeds;
* `rooms` and `memory_rooms` return exactly the states (and leave the generator
  in exactly the state, and fail with exactly the exception types) of the
  reference implementations embedded below, which carve the passages inline;
* `design.draw_room_grid` agrees with the embedded reference on lists, tuples,
  arrays, sets, unsorted and repeated coordinates;
* if `design` offers `draw_room_grid_passages`, it opens exactly one passage
  per shared wall segment, never on a crossing or on the boundary, and draws
  from the generator exactly like the inline loops.
"""
import itertools as itt
import os
import sys

sys.path.insert(0, os.getcwd())

import numpy as np  # noqa: E402

from gym_gridverse import design  # noqa: E402
from gym_gridverse.agent import Agent  # noqa: E402
from gym_gridverse.envs import reset_functions as rf  # noqa: E402
from gym_gridverse.geometry import Orientation, Position, Shape  # noqa: E402
from gym_gridverse.grid import Grid  # noqa: E402
from gym_gridverse.grid_object import (  # noqa: E402
    Beacon,
    Color,
    Door,
    Exit,
    Floor,
    Key,
    MovingObstacle,
    NoneGridObject,
    Telepod,
    Wall,
)
from gym_gridverse.rng import (  # noqa: E402
    choice,
    choices,
    get_gv_rng_if_none,
    make_rng,
    reset_gv_rng,
)
from gym_gridverse.state import State  # noqa: E402

CHECKS = 0


def check(condition, *what):
    global CHECKS
    CHECKS += 1
    if not condition:
        print('FAILED:', *what)
        sys.exit(1)


# ---------------------------------------------------------------------------
# the property
# ---------------------------------------------------------------------------


def objects(state, object_type):
    return [
        (position, state.grid[position])
        for position in state.grid.area.positions()
        if isinstance(state.grid[position], object_type)
    ]


def check_common(state, shape, *what):
    grid, agent = state.grid, state.agent
    check(isinstance(state, State), 'type', *what)
    check(grid.shape == shape, 'shape', grid.shape, *what)
    check(len(grid.objects) == shape.height, 'rows', *what)
    check(all(len(row) == shape.width for row in grid.objects), 'cols', *what)
    for position in grid.area.positions('border'):
        check(isinstance(grid[position], Wall), 'boundary', position, *what)
    check(grid.area.contains(agent.position), 'agent inside', *what)
    check(isinstance(agent.orientation, Orientation), 'orientation', *what)
    check(isinstance(agent.grid_object, NoneGridObject), 'empty hands', *what)
    cell = grid[agent.position]
    check(not cell.blocks_movement, 'agent cell blocks', cell, *what)
    check(
        not isinstance(cell, (Exit, MovingObstacle, Telepod)),
        'agent cell',
        cell,
        *what,
    )


def check_counts(state, counts, *what):
    for object_type in (Exit, MovingObstacle, Door, Key, Telepod, Beacon):
        check(
            len(objects(state, object_type)) == counts.get(object_type, 0),
            'count',
            object_type.__name__,
            len(objects(state, object_type)),
            *what,
        )


def check_keydoor(state, shape, *what):
    check_common(state, shape, *what)
    check_counts(state, {Exit: 1, Door: 1, Key: 1}, *what)
    ((door_position, door),) = objects(state, Door)
    ((key_position, key),) = objects(state, Key)
    check(door.is_locked, 'door locked', *what)
    check(door.color == key.color, 'colours', *what)
    check(1 <= door_position.y <= shape.height - 2, 'door y', *what)
    check(2 <= door_position.x <= shape.width - 3, 'door x', *what)
    for y in range(shape.height):
        if y != door_position.y:
            check(
                isinstance(state.grid[y, door_position.x], Wall),
                'dividing wall',
                y,
                *what,
            )
    check(key_position.x < door_position.x, 'key side', *what)
    check(state.agent.position.x < door_position.x, 'agent side', *what)


def check_memory(state, shape, num_exits, num_beacons, colors, *what):
    check_common(state, shape, *what)
    check_counts(state, {Exit: num_exits, Beacon: num_beacons}, *what)
    exit_colors = [obj.color for _, obj in objects(state, Exit)]
    check(len(set(exit_colors)) == len(exit_colors), 'exit colours', *what)
    check(set(exit_colors) <= set(colors), 'colour set', *what)
    beacon_colors = {obj.color for _, obj in objects(state, Beacon)}
    check(len(beacon_colors) == 1, 'beacon colours', *what)
    (beacon_color,) = beacon_colors
    check(exit_colors.count(beacon_color) == 1, 'beacon match', *what)


def check_connected(state, layout, *what):
    """every non-wall cell is reachable from the agent (passages do their job)

    NOTE: only promised when every room has an interior (rooms squeezed to zero
    width or height consist of passages only, which need not touch)
    """
    grid = state.grid
    for size, num in zip(grid.shape.as_tuple, layout):
        splits = np.linspace(0, size - 1, num=num + 1, dtype=int)
        if min(np.diff(splits)) < 2:
            return
    open_cells = {
        position
        for position in grid.area.positions()
        if not isinstance(grid[position], Wall)
    }
    seen, stack = {state.agent.position}, [state.agent.position]
    while stack:
        position = stack.pop()
        for dy, dx in [(-1, 0), (1, 0), (0, -1), (0, 1)]:
            neighbour = Position(position.y + dy, position.x + dx)
            if neighbour in open_cells and neighbour not in seen:
                seen.add(neighbour)
                stack.append(neighbour)
    check(seen == open_cells, 'connected', *what)


# ---------------------------------------------------------------------------
# reference implementations (passages carved inline)
# ---------------------------------------------------------------------------


def pairwise(values):
    a, b = itt.tee(values)
    next(b, None)
    return zip(a, b)


def ref_draw_cartesian_product(grid, ys, xs, factory):
    positions = [Position(y, x) for y in ys for x in xs]
    for position in positions:
        grid[position] = factory()
    return positions


def ref_draw_room_grid(grid, ys, xs, factory):
    y_range = range(min(ys), max(ys) + 1)
    x_range = range(min(xs), max(xs) + 1)
    positions = ref_draw_cartesian_product(grid, ys, x_range, factory)
    ys_remaining = [y for y in y_range if y not in ys]
    positions += ref_draw_cartesian_product(grid, ys_remaining, xs, factory)
    return positions


def ref_room_grid(shape, layout, rng, height_name, width_name):
    layout_height, layout_width = layout
    y_splits = np.linspace(0, shape.height - 1, num=layout_height + 1, dtype=int)
    if len(y_splits) != len(set(y_splits)):
        raise ValueError(height_name)
    x_splits = np.linspace(0, shape.width - 1, num=layout_width + 1, dtype=int)
    if len(x_splits) != len(set(x_splits)):
        raise ValueError(width_name)

    grid = Grid.from_shape((shape.height, shape.width))
    ref_draw_room_grid(grid, y_splits, x_splits, Wall)

    passages = []
    for y in y_splits[1:-1]:
        for x_from, x_to in pairwise(x_splits):
            x = rng.integers(x_from + 1, x_to)
            grid[y, x] = Floor()
            passages.append(Position(y, x))
    for y_from, y_to in pairwise(y_splits):
        for x in x_splits[1:-1]:
            y = rng.integers(y_from + 1, y_to)
            grid[y, x] = Floor()
            passages.append(Position(y, x))

    return grid, y_splits, x_splits, passages


def floor_positions(grid):
    return [
        position
        for position in grid.area.positions()
        if isinstance(grid[position], Floor)
    ]


def ref_rooms(shape, layout, *, rng=None):
    rng = get_gv_rng_if_none(rng)
    grid, _, _, _ = ref_room_grid(shape, layout, rng, 'height', 'width')
    agent_position, exit_position = choices(
        rng, floor_positions(grid), size=2, replace=False
    )
    agent_orientation = choice(rng, list(Orientation))
    grid[exit_position] = Exit()
    return State(grid, Agent(agent_position, agent_orientation))


def ref_memory_rooms(shape, layout, colors, num_beacons, num_exits, *, rng=None):
    if Color.NONE in colors:
        raise ValueError('NONE')
    if len(colors) < 2:
        raise ValueError('colors')
    if num_beacons < 1:
        raise ValueError('num_beacons')
    if num_exits < 2:
        raise ValueError('num_exits')
    rng = get_gv_rng_if_none(rng)
    grid, _, _, _ = ref_room_grid(shape, layout, rng, 'height', 'width')
    positions = choices(
        rng,
        floor_positions(grid),
        size=1 + num_beacons + num_exits,
        replace=False,
    )
    agent = Agent(positions[0], choice(rng, list(Orientation)))
    sorted_colors = sorted(colors, key=lambda color: color.value)
    sample_colors = choices(rng, sorted_colors, size=num_exits, replace=False)
    for beacon_position in positions[1 : 1 + num_beacons]:
        grid[beacon_position] = Beacon(sample_colors[0])
    for exit_position, exit_color in zip(
        positions[1 + num_beacons :], sample_colors
    ):
        grid[exit_position] = Exit(exit_color)
    return State(grid, agent)


def outcome(function, *args, seed, **kwargs):
    """(state or exception type name, generator state afterwards)"""
    rng = make_rng(seed)
    try:
        result = function(*args, rng=rng, **kwargs)
    except Exception as error:  # the type is part of the outcome
        result = type(error).__name__
    return result, rng.bit_generator.state


def same(a, b):
    (state_a, rng_a), (state_b, rng_b) = a, b
    if isinstance(state_a, str) or isinstance(state_b, str):
        return state_a == state_b and rng_a == rng_b
    return (
        state_a == state_b
        and state_a.grid.shape == state_b.grid.shape
        and all(
            type(state_a.grid[p]) is type(state_b.grid[p])
            for p in state_a.grid.area.positions()
        )
        and rng_a == rng_b
    )


# ---------------------------------------------------------------------------
# sweeps
# ---------------------------------------------------------------------------

SEEDS = range(8)
SHAPES = [Shape(h, w) for h in range(1, 9) for w in range(1, 9)] + [
    Shape(4, 13),
    Shape(13, 4),
    Shape(9, 11),
    Shape(11, 5),
    Shape(3, 12),
    Shape(15, 15),
]
LAYOUTS = [(1, 1), (1, 2), (2, 1), (2, 2), (3, 2), (2, 3), (1, 4), (4, 4), (7, 1)]
ODD_LAYOUTS = [(0, 1), (1, 0), (0, 0), (-1, 2), (2, -1)]
COLOUR_SETS = [
    {Color.RED, Color.GREEN},
    {Color.BLUE, Color.YELLOW, Color.RED},
    set(Color) - {Color.NONE},
    {Color.RED},
    set(),
    {Color.RED, Color.NONE},
    {Color.RED, Color.GREEN, Color.NONE},
]


def sweep_rooms():
    for shape, layout, seed in itt.product(SHAPES, LAYOUTS + ODD_LAYOUTS, SEEDS):
        what = ('rooms', shape, layout, seed)
        got = outcome(rf.rooms, shape, layout, seed=seed)
        ref = outcome(ref_rooms, shape, layout, seed=seed)
        check(same(got, ref), 'differs from reference', got[0], ref[0], *what)
        state, _ = got
        if layout in ODD_LAYOUTS:
            continue
        if isinstance(state, str):
            check(state == 'ValueError', 'expected ValueError', state, *what)
            continue
        check_common(state, shape, *what)
        check_counts(state, {Exit: 1}, *what)
        check_connected(state, layout, *what)
        # rooms of the advertised layout: walls exactly on the split lines
        # (minus one passage per shared segment)
        layout_height, layout_width = layout
        num_walls = len(objects(state, Wall))
        y_splits = set(np.linspace(0, shape.height - 1, layout_height + 1, dtype=int))
        x_splits = set(np.linspace(0, shape.width - 1, layout_width + 1, dtype=int))
        on_lines = sum(
            1
            for p in state.grid.area.positions()
            if p.y in y_splits or p.x in x_splits
        )
        num_passages = (layout_height - 1) * layout_width + layout_height * (
            layout_width - 1
        )
        check(num_walls == on_lines - num_passages, 'wall count', *what)


def sweep_memory_rooms():
    shapes = [
        Shape(5, 5),
        Shape(7, 9),
        Shape(9, 7),
        Shape(6, 11),
        Shape(3, 3),
        Shape(4, 3),
        Shape(1, 1),
        Shape(2, 7),
    ]
    for shape, layout, colors, num_beacons, num_exits, seed in itt.product(
        shapes,
        [(1, 1), (2, 2), (1, 3), (3, 1), (0, 1), (2, -1)],
        COLOUR_SETS,
        [0, 1, 3],
        [1, 2, 3],
        range(3),
    ):
        what = ('memory_rooms', shape, layout, num_beacons, num_exits, seed)
        got = outcome(
            rf.memory_rooms, shape, layout, colors, num_beacons, num_exits, seed=seed
        )
        ref = outcome(
            ref_memory_rooms, shape, layout, colors, num_beacons, num_exits, seed=seed
        )
        check(same(got, ref), 'differs from reference', got[0], ref[0], *what)
        state, _ = got
        if min(layout) < 1:
            continue
        legal = (
            Color.NONE not in colors
            and len(colors) >= 2
            and num_beacons >= 1
            and num_exits >= 2
        )
        if not legal or num_exits > len(colors):
            check(state == 'ValueError', 'expected ValueError', state, *what)
            continue
        if isinstance(state, str):
            check(state == 'ValueError', 'expected ValueError', state, *what)
            continue
        check_memory(state, shape, num_exits, num_beacons, colors, *what)
        check_connected(state, layout, *what)


def sweep_others():
    for shape, seed in itt.product(SHAPES, range(4)):
        small = shape.height < 4 or shape.width < 4

        for random_agent, random_exit in itt.product([False, True], repeat=2):
            what = ('empty', shape, random_agent, random_exit, seed)
            state, _ = outcome(rf.empty, shape, random_agent, random_exit, seed=seed)
            if small:
                check(state == 'ValueError', 'expected ValueError', *what)
            else:
                check_common(state, shape, *what)
                check_counts(state, {Exit: 1}, *what)

        capacity = -1 if small else (shape.height - 2) * (shape.width - 2) - 2
        for num_obstacles, random_agent in itt.product(
            sorted({0, 1, max(capacity, 0), capacity + 1}), [False, True]
        ):
            what = ('dynamic_obstacles', shape, num_obstacles, random_agent, seed)
            state, _ = outcome(
                rf.dynamic_obstacles, shape, num_obstacles, random_agent, seed=seed
            )
            if small or num_obstacles > capacity:
                check(state == 'ValueError', 'expected ValueError', *what)
            else:
                check_common(state, shape, *what)
                check_counts(
                    state, {Exit: 1, MovingObstacle: num_obstacles}, *what
                )

        what = ('teleport', shape, seed)
        state, _ = outcome(rf.teleport, shape, seed=seed)
        if small:
            check(state == 'ValueError', 'expected ValueError', *what)
        else:
            check_common(state, shape, *what)
            check_counts(state, {Exit: 1, Telepod: 2}, *what)
            (_, a), (_, b) = objects(state, Telepod)
            check(a.color == b.color, 'telepod colours', *what)

        what = ('keydoor', shape, seed)
        state, _ = outcome(rf.keydoor, shape, seed=seed)
        if shape.height < 4 or shape.width < 5:
            check(state == 'ValueError', 'expected ValueError', *what)
        else:
            check_keydoor(state, shape, *what)

        for num_rivers, object_type in itt.product([0, 1, 3], [Wall, MovingObstacle]):
            what = ('crossing', shape, num_rivers, object_type.__name__, seed)
            state, _ = outcome(rf.crossing, shape, num_rivers, object_type, seed=seed)
            legal = (
                min(shape.height, shape.width) >= 5
                and shape.height % 2 == 1
                and shape.width % 2 == 1
                and num_rivers > 0
            )
            if not legal:
                check(state == 'ValueError', 'expected ValueError', *what)
            else:
                check_common(state, shape, *what)
                check(len(objects(state, Exit)) == 1, 'one exit', *what)

        for colors in COLOUR_SETS:
            what = ('memory', shape, sorted(c.name for c in colors), seed)
            state, _ = outcome(rf.memory, shape, colors, seed=seed)
            legal = (
                shape.height >= 5
                and shape.width >= 5
                and shape.width % 2 == 1
                and Color.NONE not in colors
                and len(colors) >= 2
            )
            if not legal:
                check(state == 'ValueError', 'expected ValueError', *what)
            else:
                check_memory(state, shape, 2, 2, colors, *what)


def sweep_global_rng():
    """rng=None falls back on the library generator; re-seeding replays"""
    colors = {Color.RED, Color.GREEN, Color.BLUE}
    for seed in range(10):
        shape = Shape(7 + seed % 3, 7 + seed % 4)

        def run(rooms, memory_rooms, **kwargs):
            return [
                rooms(shape, (2, 2), **kwargs),
                memory_rooms(shape, (2, 3), colors, 2, 3, **kwargs),
                rooms(shape, (1, 3), **kwargs),
            ]

        reset_gv_rng(seed)
        first = run(rf.rooms, rf.memory_rooms)
        reset_gv_rng(seed)
        again = run(rf.rooms, rf.memory_rooms)
        ref = run(ref_rooms, ref_memory_rooms, rng=make_rng(seed))
        check(first == again, 're-seeding replays', seed)
        check(first == ref, 'global generator vs reference', seed)
        check(len({id(s.grid) for s in first}) == 3, 'fresh grids', seed)

    function = rf.factory('rooms', shape=Shape(9, 12), layout=(2, 3))
    check(
        function(rng=make_rng(5)) == ref_rooms(Shape(9, 12), (2, 3), rng=make_rng(5)),
        'factory rooms',
    )
    function = rf.factory(
        'memory_rooms',
        shape=Shape(9, 12),
        layout=(2, 3),
        colors=colors,
        num_beacons=2,
        num_exits=2,
    )
    check(
        function(rng=make_rng(5))
        == ref_memory_rooms(Shape(9, 12), (2, 3), colors, 2, 2, rng=make_rng(5)),
        'factory memory_rooms',
    )


def sweep_draw_room_grid():
    cases = [
        ([0, 3, 6], [0, 4, 8]),
        ([0, 6], [0, 8]),
        ([6, 0, 3], [8, 0]),  # unsorted
        ([0, 0, 6], [0, 8, 8]),  # repeated
        ([2, 4], [1, 5, 7]),  # not touching the border
        ([3], [4]),  # degenerate: a single point
        ([0, 1, 2], [0, 1, 2]),  # no room interiors
    ]
    containers = [list, tuple, np.array, lambda v: np.array(v, dtype=np.int32)]
    for (ys, xs), make in itt.product(cases, containers):
        grid_a = Grid.from_shape((7, 9))
        grid_b = Grid.from_shape((7, 9))
        got = design.draw_room_grid(grid_a, make(ys), make(xs), Wall)
        ref = ref_draw_room_grid(grid_b, make(ys), make(xs), Wall)
        what = ('draw_room_grid', ys, xs)
        check(type(got) is list and got == ref, 'positions', *what)
        check(grid_a == grid_b, 'grid', *what)
        walls = [p for p in grid_a.area.positions() if isinstance(grid_a[p], Wall)]
        check(set(walls) == set(ref), 'walls', *what)
        check(
            len({id(grid_a[p]) for p in walls}) == len(walls), 'fresh objects', *what
        )
    # sets iterate the same way twice
    ys, xs = {0, 3, 6}, {0, 4, 8}
    grid_a, grid_b = Grid.from_shape((7, 9)), Grid.from_shape((7, 9))
    check(
        design.draw_room_grid(grid_a, ys, xs, Wall)
        == ref_draw_room_grid(grid_b, ys, xs, Wall)
        and grid_a == grid_b,
        'draw_room_grid with sets',
    )
    check(ys == {0, 3, 6} and xs == {0, 4, 8}, 'arguments not mutated')


def sweep_passages():
    """design.draw_room_grid_passages, when the tree has it"""
    draw_room_grid_passages = getattr(design, 'draw_room_grid_passages', None)
    if draw_room_grid_passages is None:
        return

    for shape, layout, seed in itt.product(SHAPES, LAYOUTS + ODD_LAYOUTS, SEEDS):
        what = ('passages', shape, layout, seed)
        rng_ref = make_rng(seed)
        try:
            grid_ref, y_splits, x_splits, passages = ref_room_grid(
                shape, layout, rng_ref, 'height', 'width'
            )
            expected = 'ok'
        except Exception as error:
            expected = type(error).__name__

        # recompute the splits for the helper (they do not use the generator)
        try:
            layout_height, layout_width = layout
            ys = np.linspace(0, shape.height - 1, num=layout_height + 1, dtype=int)
            xs = np.linspace(0, shape.width - 1, num=layout_width + 1, dtype=int)
        except ValueError:
            continue
        if len(ys) != len(set(ys)) or len(xs) != len(set(xs)):
            continue
        if len(ys) == 0 or len(xs) == 0:
            # nothing to draw on: draw_room_grid itself raises ValueError
            check(expected == 'ValueError', 'empty splits', expected, *what)
            continue

        for make in (lambda v: v, list, tuple, lambda v: [int(i) for i in v]):
            rng = make_rng(seed)
            grid = Grid.from_shape((shape.height, shape.width))
            design.draw_room_grid(grid, make(ys), make(xs), Wall)
            ys_arg, xs_arg = make(ys), make(xs)
            try:
                got = draw_room_grid_passages(grid, ys_arg, xs_arg, Floor, rng=rng)
                result = 'ok'
            except Exception as error:
                result = type(error).__name__
            check(result == expected, 'outcome', result, expected, *what)
            check(
                rng.bit_generator.state == rng_ref.bit_generator.state,
                'generator',
                *what,
            )
            check(list(ys_arg) == list(ys), 'arguments not mutated', *what)
            if result != 'ok':
                continue
            check(type(got) is list and got == passages, 'positions', *what)
            check(grid == grid_ref, 'grid', *what)
            num_passages = (len(ys) - 2) * (len(xs) - 1) + (len(ys) - 1) * (
                len(xs) - 2
            )
            if min(layout) < 1:
                # degenerate layouts: only equality with the reference matters
                continue
            check(len(got) == num_passages, 'count', *what)
            for p in got:
                check(isinstance(grid[p], Floor), 'passage is floor', p, *what)
                check(
                    (p.y in set(ys)) != (p.x in set(xs)),
                    'never a crossing',
                    p,
                    *what,
                )
                check(
                    0 < p.y < shape.height - 1 and 0 < p.x < shape.width - 1,
                    'never the boundary',
                    p,
                    *what,
                )
            for p in grid.area.positions('border'):
                check(isinstance(grid[p], Wall), 'boundary', p, *what)

    # another factory, and objects are created one per passage
    grid = Grid.from_shape((9, 9))
    design.draw_room_grid(grid, [0, 4, 8], [0, 4, 8], Wall)
    got = draw_room_grid_passages(
        grid, [0, 4, 8], [0, 4, 8], lambda: Door(Door.Status.CLOSED, Color.BLUE),
        rng=make_rng(0),
    )
    check(len(got) == 4, 'doors')
    check(len({id(grid[p]) for p in got}) == 4, 'fresh doors')
    check(all(isinstance(grid[p], Door) for p in got), 'door type')


def main():
    sweep_rooms()
    sweep_memory_rooms()
    sweep_others()
    sweep_global_rng()
    sweep_draw_room_grid()
    sweep_passages()
    print(f'OK ({CHECKS} checks)')


if __name__ == '__main__':
    main()
