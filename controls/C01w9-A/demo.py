"""Demo for change A (shared `_front_cell` helper in transition_functions).

Runs on the pristine tree and on the patched tree alike: it embeds reference
implementations (the pristine spelling) of the three transition functions that
look at the cell in front of the agent -- `pickndrop`, `actuate_door`,
`actuate_box` -- and compares the library functions against them, object by
object (including object identity, via tags), on an exhaustive family of small
states.  Then it checks the C01 property itself (closure + totality of
`GridWorld.functional_step`, observation membership, rejection of actions
outside the action space) on hand-made awkward states and on random walks
from the shipped reset functions.

Run from the worktree root:  /venv/bin/python _seed/A/demo.py
"""
import math
import os
import sys
from functools import partial

# run as `python _seed/A/demo.py` from the worktree root: import that tree
sys.path.insert(0, os.getcwd())

import numpy as np

from gym_gridverse.action import Action
from gym_gridverse.agent import Agent
from gym_gridverse.envs import observation_functions as obs_fs
from gym_gridverse.envs import reset_functions as reset_fs
from gym_gridverse.envs import reward_functions as reward_fs
from gym_gridverse.envs import terminating_functions as term_fs
from gym_gridverse.envs import transition_functions as trans_fs
from gym_gridverse.envs.gridworld import GridWorld
from gym_gridverse.geometry import Area, Orientation, Position, Shape
from gym_gridverse.grid import Grid
from gym_gridverse.grid_object import (
    Beacon,
    Box,
    Color,
    Door,
    Exit,
    Floor,
    Key,
    MovingObstacle,
    NoneGridObject,
    Telepod,
    Wall,
)
from gym_gridverse.rng import make_rng
from gym_gridverse.spaces import ActionSpace, ObservationSpace, StateSpace
from gym_gridverse.state import State
from gym_gridverse.utils.fast_copy import fast_copy

ALL_ACTIONS = list(Action)
ALL_ORIENTATIONS = [
    Orientation.FORWARD,
    Orientation.BACKWARD,
    Orientation.LEFT,
    Orientation.RIGHT,
]
ALL_TYPES = [
    Floor,
    Wall,
    Exit,
    Door,
    Key,
    MovingObstacle,
    Box,
    Telepod,
    Beacon,
]
ALL_COLORS = list(Color)

n_checks = 0


def check(condition, *info):
    global n_checks
    n_checks += 1
    if not condition:
        print('FAILED:', *info)
        sys.exit(1)


# --------------------------------------------------------------------------
# reference implementations: the pristine spelling, verbatim
# --------------------------------------------------------------------------


def ref_pickndrop(state, action, *, rng=None):
    if action is not Action.PICK_N_DROP:
        return

    position_front = state.agent.front()

    if not state.grid.area.contains(position_front):
        return

    obj_front = state.grid[position_front]
    can_be_dropped = isinstance(obj_front, Floor) or obj_front.holdable

    if not can_be_dropped:
        return

    state.grid[position_front] = (
        state.agent.grid_object
        if not isinstance(state.agent.grid_object, NoneGridObject)
        and can_be_dropped
        else Floor()
    )

    state.agent.grid_object = (
        obj_front if obj_front.holdable else NoneGridObject()
    )


def ref_actuate_door(state, action, *, rng=None):
    if action is not Action.ACTUATE:
        return

    position = state.agent.front()

    if not state.grid.area.contains(position):
        return

    door = state.grid[position]

    if not isinstance(door, Door):
        return

    if door.is_open:
        pass

    elif not door.is_locked:
        door.state = Door.Status.OPEN

    else:
        if (
            isinstance(state.agent.grid_object, Key)
            and state.agent.grid_object.color == door.color
        ):
            door.state = Door.Status.OPEN


def ref_actuate_box(state, action, *, rng=None):
    if action is not Action.ACTUATE:
        return

    position = state.agent.front()

    if not state.grid.area.contains(position):
        return

    box = state.grid[position]

    if isinstance(box, Box):
        state.grid[position] = box.content


PAIRS = [
    ('pickndrop', trans_fs.pickndrop, ref_pickndrop),
    ('actuate_door', trans_fs.actuate_door, ref_actuate_door),
    ('actuate_box', trans_fs.actuate_box, ref_actuate_box),
]

# --------------------------------------------------------------------------
# part 1: exhaustive comparison on small states, with identity tags
# --------------------------------------------------------------------------

FRONT_MAKERS = [
    lambda: Floor(),
    lambda: Wall(),
    lambda: Exit(),
    lambda: Exit(Color.GREEN),
    lambda: Key(Color.RED),
    lambda: Key(Color.NONE),
    lambda: Door(Door.Status.OPEN, Color.RED),
    lambda: Door(Door.Status.CLOSED, Color.NONE),
    lambda: Door(Door.Status.LOCKED, Color.RED),
    lambda: Door(Door.Status.LOCKED, Color.NONE),
    lambda: Door(Door.Status.LOCKED, Color.BLUE),
    lambda: MovingObstacle(),
    lambda: Box(Floor()),
    lambda: Box(Key(Color.YELLOW)),
    lambda: Box(Box(Door(Door.Status.LOCKED, Color.RED))),
    lambda: Telepod(Color.BLUE),
    lambda: Beacon(Color.YELLOW),
]

HELD_MAKERS = [
    lambda: None,  # Agent default -> NoneGridObject
    lambda: NoneGridObject(),
    lambda: Key(Color.RED),
    lambda: Key(Color.NONE),
    lambda: Key(Color.BLUE),
    lambda: Wall(),  # a declared type, not holdable, still a legal held item
    lambda: Telepod(Color.GREEN),
]

# background objects: whatever the functions would hit if they indexed the
# grid with an out-of-grid position (python wrap-around) must be something
# every one of the three functions reacts to
BACKGROUND_MAKERS = [
    lambda: Key(Color.GREEN),
    lambda: Door(Door.Status.CLOSED, Color.GREEN),
    lambda: Box(Key(Color.GREEN)),
    lambda: Floor(),
]


def tag_all(state):
    """gives every object of the state a unique tag (survives moves)"""
    for y, row in enumerate(state.grid.objects):
        for x, obj in enumerate(row):
            obj._tag = ('cell', y, x)
            inner = obj
            depth = 0
            while isinstance(inner, Box):
                inner = inner.content
                depth += 1
                inner._tag = ('content', y, x, depth)
    state.agent.grid_object._tag = ('held',)


def signature(state):
    """full description of a state, including which object sits where"""

    def one(obj):
        out = [
            type(obj).__name__,
            obj.state_index,
            obj.color,
            getattr(obj, '_tag', None),
        ]
        if isinstance(obj, Box):
            out.append(one(obj.content))
        return tuple(out)

    return (
        state.grid.shape,
        tuple(tuple(one(obj) for obj in row) for row in state.grid.objects),
        state.agent.position,
        state.agent.orientation,
        one(state.agent.grid_object),
    )


def build_state(shape, position, orientation, front_maker, held_maker, bg):
    height, width = shape
    objects = [
        [
            BACKGROUND_MAKERS[(y * width + x + bg) % len(BACKGROUND_MAKERS)]()
            for x in range(width)
        ]
        for y in range(height)
    ]
    grid = Grid(objects)
    agent = Agent(position, orientation, held_maker())
    # the agent stands on a floor
    grid[position] = Floor()
    front = agent.front()
    if grid.area.contains(front):
        grid[front] = front_maker()
    state = State(grid, agent)
    tag_all(state)
    return state


def compare_case(args, action, faces_outside):
    for name, lib_f, ref_f in PAIRS:
        s_lib = build_state(*args)
        s_ref = build_state(*args)
        before = signature(s_lib)
        check(before == signature(s_ref))
        r_lib = lib_f(s_lib, action)
        r_ref = ref_f(s_ref, action)
        check(r_lib is None and r_ref is None)
        check(
            signature(s_lib) == signature(s_ref),
            'differs from reference',
            name,
            args[:3],
            action,
            s_lib,
            s_ref,
        )
        check(s_lib == s_ref)
        check(s_lib.grid == s_ref.grid and s_lib.agent == s_ref.agent)
        if faces_outside:
            # nothing in front: nothing happens
            check(
                signature(s_lib) == before,
                'outward-facing agent changed the state',
                name,
                args[:3],
                action,
            )
        # repeated call: still equal to the reference
        lib_f(s_lib, action)
        ref_f(s_ref, action)
        check(signature(s_lib) == signature(s_ref), 'second call', name)


def part1():
    shapes = [(1, 1), (1, 4), (4, 1), (2, 3), (3, 4)]
    relevant_actions = [Action.ACTUATE, Action.PICK_N_DROP]
    for shape in shapes:
        area = Grid.from_shape(shape).area
        for position in area.positions():
            for orientation in ALL_ORIENTATIONS:
                front = Agent(position, orientation).front()
                faces_outside = not area.contains(front)
                if faces_outside:
                    # whatever the background, whatever is held
                    cases = [
                        (0, hi, bg)
                        for hi in range(len(HELD_MAKERS))
                        for bg in range(len(BACKGROUND_MAKERS))
                    ]
                else:
                    cases = [
                        (fi, hi, fi % len(BACKGROUND_MAKERS))
                        for fi in range(len(FRONT_MAKERS))
                        for hi in range(len(HELD_MAKERS))
                    ]
                for ci, (fi, hi, bg) in enumerate(cases):
                    args = (
                        shape,
                        position,
                        orientation,
                        FRONT_MAKERS[fi],
                        HELD_MAKERS[hi],
                        bg,
                    )
                    # the two actions that matter always, the others in turn
                    actions = relevant_actions + [
                        ALL_ACTIONS[ci % len(ALL_ACTIONS)]
                    ]
                    for action in actions:
                        compare_case(args, action, faces_outside)


# hard-coded expectations for pickndrop (documented scenarios)
def part1_expectations():
    def mk(front, held):
        grid = Grid.from_shape((2, 3))
        agent = Agent(Position(1, 1), Orientation.FORWARD, held)
        grid[Position(0, 1)] = front
        return State(grid, agent)

    # nothing to pick, nothing held -> no effect
    s = mk(Floor(), None)
    trans_fs.pickndrop(s, Action.PICK_N_DROP)
    check(isinstance(s.grid[0, 1], Floor))
    check(isinstance(s.agent.grid_object, NoneGridObject))

    # drop on floor
    key = Key(Color.RED)
    s = mk(Floor(), key)
    trans_fs.pickndrop(s, Action.PICK_N_DROP)
    check(s.grid[0, 1] is key)
    check(isinstance(s.agent.grid_object, NoneGridObject))

    # not a floor -> no effect
    wall = Wall()
    s = mk(wall, key)
    trans_fs.pickndrop(s, Action.PICK_N_DROP)
    check(s.grid[0, 1] is wall)
    check(s.agent.grid_object is key)

    # pick up, floor instead
    s = mk(key, None)
    trans_fs.pickndrop(s, Action.PICK_N_DROP)
    check(isinstance(s.grid[0, 1], Floor))
    check(s.agent.grid_object is key)

    # swap
    key2 = Key(Color.BLUE)
    s = mk(key, key2)
    trans_fs.pickndrop(s, Action.PICK_N_DROP)
    check(s.grid[0, 1] is key2)
    check(s.agent.grid_object is key)

    # box: content replaces the box (same object)
    content = Key(Color.GREEN)
    s = mk(Box(content), None)
    trans_fs.actuate_box(s, Action.ACTUATE)
    check(s.grid[0, 1] is content)

    # door: locked + right key -> open; wrong key -> locked
    s = mk(Door(Door.Status.LOCKED, Color.RED), Key(Color.RED))
    trans_fs.actuate_door(s, Action.ACTUATE)
    check(s.grid[0, 1].state is Door.Status.OPEN)
    s = mk(Door(Door.Status.LOCKED, Color.RED), Key(Color.BLUE))
    trans_fs.actuate_door(s, Action.ACTUATE)
    check(s.grid[0, 1].state is Door.Status.LOCKED)
    s = mk(Door(Door.Status.CLOSED, Color.RED), None)
    trans_fs.actuate_door(s, Action.ACTUATE)
    check(s.grid[0, 1].state is Door.Status.OPEN)


# --------------------------------------------------------------------------
# part 2: the property on assembled environments
# --------------------------------------------------------------------------


def lib_chain():
    return partial(
        trans_fs.chain,
        transition_functions=[
            trans_fs.move_obstacles,
            trans_fs.move_agent,
            trans_fs.turn_agent,
            trans_fs.actuate_door,
            trans_fs.actuate_box,
            trans_fs.pickndrop,
            trans_fs.teleport,
        ],
    )


def ref_chain():
    return partial(
        trans_fs.chain,
        transition_functions=[
            trans_fs.move_obstacles,
            trans_fs.move_agent,
            trans_fs.turn_agent,
            ref_actuate_door,
            ref_actuate_box,
            ref_pickndrop,
            trans_fs.teleport,
        ],
    )


def make_env(shape, reset_function, view_area, observation_name, actions):
    object_types = ALL_TYPES
    state_space = StateSpace(shape, object_types, ALL_COLORS)
    action_space = ActionSpace(actions)
    observation_space = ObservationSpace(
        Shape(view_area.height, view_area.width), object_types, ALL_COLORS
    )
    observation_function = partial(
        getattr(obs_fs, observation_name), area=view_area
    )
    reward_function = partial(
        reward_fs.reduce_sum,
        reward_functions=[
            partial(reward_fs.living_reward, reward=-0.25),
            partial(reward_fs.reach_exit, reward_on=5.0),
            partial(reward_fs.bump_moving_obstacle, reward=-3.0),
            partial(reward_fs.bump_into_wall, reward=-2.0),
            partial(reward_fs.actuate_door, reward_open=1.5),
            partial(reward_fs.pickndrop, object_type=Key),
        ],
    )
    termination_function = partial(
        term_fs.reduce_any,
        terminating_functions=[
            term_fs.reach_exit,
            term_fs.bump_moving_obstacle,
            term_fs.bump_into_wall,
        ],
    )
    return GridWorld(
        state_space,
        action_space,
        observation_space,
        reset_function,
        lib_chain(),
        observation_function,
        reward_function,
        termination_function,
    )


def check_step(env, state, seed):
    """the C01 property for one state, all actions"""
    check(env.state_space.contains(state), 'test state not in state space')
    before = signature(state)
    for action in ALL_ACTIONS:
        if not env.action_space.contains(action):
            try:
                env.functional_step(state, action)
            except ValueError:
                check(signature(state) == before)
            else:
                check(False, 'action outside the space accepted', action)
            continue

        env.set_seed(seed)
        next_state, reward, terminal = env.functional_step(state, action)
        # the input state is untouched
        check(signature(state) == before, 'input state modified', action)
        # closure
        check(env.state_space.contains(next_state), 'not closed', action)
        check(next_state.grid.shape == state.grid.shape)
        check(next_state.grid.area.contains(next_state.agent.position))
        check(
            type(next_state.agent.grid_object)
            in set(ALL_TYPES) | {NoneGridObject}
        )
        check(isinstance(reward, float) and math.isfinite(reward), reward)
        check(isinstance(terminal, bool), terminal)
        # same result as with the reference spelling, same rng stream
        expected = trans_fs.transition_with_copy(
            ref_chain(), state, action, rng=make_rng(seed)
        )
        check(
            signature(next_state) == signature(expected),
            'differs from reference',
            action,
        )
        check(next_state == expected)
        # observation of the next state is in the observation space
        observation = env.functional_observation(next_state)
        check(
            env.observation_space.contains(observation),
            'observation not in space',
        )

    # things that are not actions of the space at all
    for bogus in (None, 7, 'PICK_N_DROP', Orientation.FORWARD):
        try:
            env.functional_step(state, bogus)
        except ValueError:
            check(signature(state) == before)
        else:
            check(False, 'bogus action accepted', bogus)


def random_state(shape, rng):
    height, width = shape.height, shape.width

    def random_color():
        return ALL_COLORS[rng.integers(len(ALL_COLORS))]

    def random_object(depth=0):
        k = rng.integers(12)
        if k < 3:
            return Floor()
        if k == 3:
            return Wall()
        if k == 4:
            return Exit(random_color())
        if k == 5:
            status = list(Door.Status)[rng.integers(3)]
            return Door(status, random_color())
        if k == 6:
            return Key(random_color())
        if k == 7:
            return MovingObstacle()
        if k == 8:
            return Box(random_object(depth + 1) if depth < 2 else Floor())
        if k == 9:
            return Telepod(random_color())
        if k == 10:
            return Beacon(random_color())
        return Floor()

    grid = Grid(
        [[random_object() for _ in range(width)] for _ in range(height)]
    )
    position = Position(int(rng.integers(height)), int(rng.integers(width)))
    orientation = ALL_ORIENTATIONS[rng.integers(4)]
    held = [None, Key(random_color()), random_object(2)][rng.integers(3)]
    return State(grid, Agent(position, orientation, held))


def part2_random_states():
    rng = np.random.default_rng(20240926)
    configs = [
        (Shape(1, 1), Area((-2, 0), (-1, 1)), 'fully_transparent'),
        (Shape(1, 5), Area((-3, 0), (-1, 3)), 'partially_occluded'),
        (Shape(4, 1), Area((-6, 0), (-3, 3)), 'raytracing'),
        (Shape(3, 6), Area((-1, 1), (-2, 2)), 'stochastic_raytracing'),
        (Shape(5, 4), Area((0, 0), (0, 0)), 'fully_transparent'),
    ]
    action_sets = [
        ALL_ACTIONS,
        [Action.PICK_N_DROP, Action.ACTUATE, Action.TURN_LEFT],
        list(reversed(ALL_ACTIONS)),
    ]
    for ci, (shape, view_area, observation_name) in enumerate(configs):
        for ai, actions in enumerate(action_sets):
            env = make_env(
                shape,
                partial(reset_fs.empty, shape=Shape(4, 4)),  # unused here
                view_area,
                observation_name,
                actions,
            )
            for k in range(25):
                state = random_state(shape, rng)
                check_step(env, state, seed=1000 * ci + 10 * ai + k)


def part2_border_states():
    """agent in every border cell of a non-square grid, facing outward, with
    objects on the opposite border that a wrapped-around index would hit"""
    shape = Shape(3, 4)
    env = make_env(
        shape,
        partial(reset_fs.empty, shape=Shape(4, 4)),
        Area((-2, 0), (0, 2)),
        'partially_occluded',
        ALL_ACTIONS,
    )
    border_makers = [
        lambda: Key(Color.RED),
        lambda: Door(Door.Status.LOCKED, Color.RED),
        lambda: Box(Key(Color.BLUE)),
        lambda: Telepod(Color.RED),
    ]
    seed = 0
    for position in Grid.from_shape(shape).area.positions('border'):
        for orientation in ALL_ORIENTATIONS:
            for held in (None, Key(Color.RED), Key(Color.NONE)):
                for bi, maker in enumerate(border_makers):
                    grid = Grid.from_shape(shape)
                    for p in grid.area.positions('border'):
                        if p != position:
                            grid[p] = maker()
                    state = State(grid, Agent(position, orientation, held))
                    seed += 1
                    check_step(env, state, seed)


def part2_reachable_states():
    """random walks from the shipped reset functions"""
    resets = [
        (Shape(4, 7), partial(reset_fs.empty, shape=Shape(4, 7))),
        (
            Shape(5, 5),
            partial(
                reset_fs.empty,
                shape=Shape(5, 5),
                random_agent=True,
                random_exit=True,
            ),
        ),
        (Shape(7, 9), partial(reset_fs.keydoor, shape=Shape(7, 9))),
        (Shape(7, 9), partial(reset_fs.teleport, shape=Shape(7, 9))),
        (
            Shape(6, 8),
            partial(
                reset_fs.dynamic_obstacles,
                shape=Shape(6, 8),
                num_obstacles=3,
                random_agent=True,
            ),
        ),
        (
            Shape(7, 9),
            partial(
                reset_fs.crossing,
                shape=Shape(7, 9),
                num_rivers=2,
                object_type=Wall,
            ),
        ),
        (
            Shape(5, 9),
            partial(
                reset_fs.memory,
                shape=Shape(5, 9),
                colors={Color.RED, Color.GREEN},
            ),
        ),
    ]
    view_areas = [Area((-6, 0), (-3, 3)), Area((-2, 1), (-1, 3))]
    walk_rng = np.random.default_rng(7)
    for ri, (shape, reset_function) in enumerate(resets):
        for vi, view_area in enumerate(view_areas):
            env = make_env(
                shape, reset_function, view_area, 'raytracing', ALL_ACTIONS
            )
            # two environments in one process, re-seeding
            other = make_env(
                shape, reset_function, view_area, 'raytracing', ALL_ACTIONS
            )
            for seed in (0, 1, 1):
                env.set_seed(seed)
                other.set_seed(seed)
                env.reset()
                other.reset()
                check(env.state == other.state)
                check(env.state_space.contains(env.state))
                check(env.observation_space.contains(env.observation))
                for t in range(40):
                    check_step(env, env.state, seed=100 * ri + t)
                    action = ALL_ACTIONS[walk_rng.integers(len(ALL_ACTIONS))]
                    env.set_seed(t)
                    other.set_seed(t)
                    reward, terminal = env.step(action)
                    reward_o, terminal_o = other.step(action)
                    check(env.state == other.state)
                    check(reward == reward_o and terminal == terminal_o)
                    check(env.state_space.contains(env.state))
                    check(env.observation_space.contains(env.observation))


def main():
    part1_expectations()
    part1()
    part2_border_states()
    part2_random_states()
    part2_reachable_states()
    print(f'OK ({n_checks} checks)')


if __name__ == '__main__':
    main()
