#!/usr/bin/env python
"""Demo for change B (GridWorld wiring: private helpers for the debug checks
and for the checked transition).

Runs from the worktree root: `/venv/bin/python _seed/B/demo.py`.  Exits 0 both
on the pristine tree and with the patch applied.  The wiring is observed from
the outside, with recording components and recording spaces, and compared with
the call sequences spelled out below;  the kinematics of the resulting
environments are compared with a reference model embedded in this file.
"""
import itertools as itt
import os
import pickle
import sys
import warnings

warnings.filterwarnings('ignore')
sys.path.insert(0, os.getcwd())  # the worktree root, not the script directory

import numpy.random as rnd  # noqa: E402

from gym_gridverse.action import Action  # noqa: E402
from gym_gridverse.agent import Agent  # noqa: E402
from gym_gridverse.debugging import gv_debug, reset_gv_debug  # noqa: E402
from gym_gridverse.envs import observation_functions as obs_fs  # noqa: E402
from gym_gridverse.envs import reset_functions as reset_fs  # noqa: E402
from gym_gridverse.envs import reward_functions as reward_fs  # noqa: E402
from gym_gridverse.envs import terminating_functions as term_fs  # noqa: E402
from gym_gridverse.envs import transition_functions as trans_fs  # noqa: E402
from gym_gridverse.envs.gridworld import GridWorld  # noqa: E402
from gym_gridverse.geometry import (  # noqa: E402
    Area,
    Orientation,
    Position,
    Shape,
)
from gym_gridverse.grid import Grid  # noqa: E402
from gym_gridverse.grid_object import (  # noqa: E402
    Beacon,
    Box,
    Color,
    Door,
    Exit,
    Floor,
    Hidden,
    Key,
    MovingObstacle,
    NoneGridObject,
    Telepod,
    Wall,
)
from gym_gridverse.observation import Observation  # noqa: E402
from gym_gridverse.spaces import (  # noqa: E402
    ActionSpace,
    ObservationSpace,
    StateSpace,
)
from gym_gridverse.state import State  # noqa: E402

CHECKS = 0


def check(condition, *info):
    global CHECKS
    CHECKS += 1
    if not condition:
        print('FAILED:', *info)
        sys.exit(1)


F, R, B, L = Orientation.F, Orientation.R, Orientation.B, Orientation.L
ORIENTATIONS = [F, R, B, L]  # clockwise, starting north

# ---------------------------------------------------------------------------
# reference kinematics (spelled out independently of the library)
# ---------------------------------------------------------------------------

HEADING_DELTA = {F: (-1, 0), R: (0, 1), B: (1, 0), L: (0, -1)}
MOVE_QUARTERS = {
    Action.MOVE_FORWARD: 0,
    Action.MOVE_RIGHT: 1,
    Action.MOVE_BACKWARD: 2,
    Action.MOVE_LEFT: 3,
}
TURN_QUARTERS = {Action.TURN_RIGHT: 1, Action.TURN_LEFT: 3}


def ref_blocks(obj):
    """hard-coded table of what blocks movement"""
    if isinstance(obj, (Wall, Box)):
        return True
    if isinstance(obj, Door):
        return obj.state is not Door.Status.OPEN
    check(
        isinstance(
            obj,
            (
                Floor,
                Exit,
                Key,
                MovingObstacle,
                Telepod,
                Beacon,
                Hidden,
                NoneGridObject,
            ),
        ),
        'unknown object',
        obj,
    )
    return False


def ref_kinematics(grid, y, x, heading, action):
    """expected pose after move_agent + turn_agent"""
    height, width = grid.shape.height, grid.shape.width
    if action in MOVE_QUARTERS:
        direction = ORIENTATIONS[
            (ORIENTATIONS.index(heading) + MOVE_QUARTERS[action]) % 4
        ]
        dy, dx = HEADING_DELTA[direction]
        ny, nx = y + dy, x + dx
        if 0 <= ny < height and 0 <= nx < width:
            if not ref_blocks(grid.objects[ny][nx]):
                return ny, nx, heading
        return y, x, heading
    if action in TURN_QUARTERS:
        heading = ORIENTATIONS[
            (ORIENTATIONS.index(heading) + TURN_QUARTERS[action]) % 4
        ]
        return y, x, heading
    return y, x, heading


def snapshot(state):
    """a value that identifies the state, for comparing histories"""
    return pickle.dumps(
        (
            [[repr(obj) for obj in row] for row in state.grid.objects],
            state.agent.position.yx,
            state.agent.orientation.name,
            repr(state.agent.grid_object),
        )
    )


# ---------------------------------------------------------------------------
# 1. the wiring, seen from the outside
# ---------------------------------------------------------------------------

ALL_OBJECTS = [
    Floor,
    Wall,
    Exit,
    Door,
    Key,
    MovingObstacle,
    Box,
    Telepod,
    Beacon,
]


class Recorder:
    """recording components and spaces around the real ones

    The signatures are as strict as the protocols allow (positional-only
    states and actions, keyword-only rng), so that any other way of calling
    the components is an error.
    """

    def __init__(self, shape, view):
        self.log = []
        self.view = view
        self.state_space = StateSpace(shape, ALL_OBJECTS, list(Color))
        self.action_space = ActionSpace(
            [action for action in Action if action is not Action.ACTUATE]
        )
        self.observation_space = ObservationSpace(
            Shape(view.height, view.width), ALL_OBJECTS, list(Color)
        )
        for name in ('state_space', 'action_space', 'observation_space'):
            self._record_contains(name)

        self._reset = reset_fs.factory(
            'empty', shape=shape, random_agent=True, random_exit=True
        )
        self._transition = trans_fs.factory(
            'chain',
            transition_functions=[
                trans_fs.move_agent,
                trans_fs.turn_agent,
                self._draw,
            ],
        )
        self._observation = obs_fs.factory('partially_occluded', area=view)
        # what the next call should return instead of the real thing
        self.override = {}

    def _record_contains(self, name):
        space = getattr(self, name)
        contains = space.contains

        def recording_contains(item, /):
            result = contains(item)
            self.log.append((f'{name}.contains', item, result))
            return result

        space.contains = recording_contains

    def _draw(self, state, action, /, *, rng=None):
        # consumes randomness, to see which generator is handed over
        self.log.append(('draw', None if rng is None else rng.integers(1000)))

    def reset_function(self, *, rng=None):
        state = self.override.pop('reset', None) or self._reset(rng=rng)
        self.log.append(('reset', rng, state))
        return state

    def transition_function(self, state, action, /, *, rng=None):
        before = snapshot(state)
        self._transition(state, action, rng=rng)
        if 'transition' in self.override:
            self.override.pop('transition')(state)
        self.log.append(('transition', state, before, action, rng))

    def observation_function(self, state, /, *, rng=None):
        observation = self.override.pop(
            'observation', None
        ) or self._observation(state, rng=rng)
        self.log.append(('observation', state, rng, observation))
        return observation

    def reward_function(self, state, action, next_state, /):
        reward = -1.0 - 0.125 * len(self.log)
        self.log.append(('reward', state, action, next_state, reward))
        return reward

    def termination_function(self, state, action, next_state, /):
        terminal = len(self.log) % 3 == 0
        self.log.append(('termination', state, action, next_state, terminal))
        return terminal

    def make_env(self):
        return GridWorld(
            self.state_space,
            self.action_space,
            self.observation_space,
            self.reset_function,
            self.transition_function,
            self.observation_function,
            self.reward_function,
            self.termination_function,
        )

    def take_log(self):
        log, self.log = self.log, []
        return log


def names(log):
    return [entry[0] for entry in log]


def expect_value_error(function, message, *info):
    try:
        function()
    except ValueError as error:
        check(error.args == (message,), 'error message', error.args, *info)
    else:
        check(False, 'no ValueError', message, *info)


def check_wiring(debug, shape, view):
    reset_gv_debug(debug)
    check(gv_debug() is debug, 'debug flag')
    recorder = Recorder(shape, view)
    env = recorder.make_env()
    check(env.state_space is recorder.state_space, 'state space')
    check(env.action_space is recorder.action_space, 'action space')
    check(env.observation_space is recorder.observation_space, 'obs space')
    check(recorder.take_log() == [], 'nothing runs at construction')

    for seeding in ('unseeded', 'seeded', 'reseeded', 'seed none'):
        if seeding == 'unseeded':
            check(env._rng is None, 'no generator before set_seed')
        elif seeding == 'seed none':
            previous = env._rng
            check(env.set_seed() is None, 'set_seed returns nothing')
            check(env._rng is not previous, 'a new generator')
        else:
            previous = env._rng
            check(env.set_seed(11) is None, 'set_seed returns nothing')
            check(env._rng is not previous, 'a new generator')
            check(
                env._rng.bit_generator.state
                == rnd.default_rng(11).bit_generator.state,
                'seeded like default_rng',
            )
        check(recorder.take_log() == [], 'seeding calls no component')
        rng = env._rng

        # --- functional_reset
        current = env._state
        state = env.functional_reset()
        log = recorder.take_log()
        expected = ['reset'] + (['state_space.contains'] if debug else [])
        check(names(log) == expected, 'reset wiring', names(log))
        check(log[0][1] is rng and log[0][2] is state, 'reset arguments')
        if debug:
            check(log[1][1] is state and log[1][2] is True, 'reset check')
        check(env._rng is rng, 'generator kept')
        check(env._state is current, 'functional_reset keeps no state')

        # --- functional_observation
        observation = env.functional_observation(state)
        log = recorder.take_log()
        expected = ['observation'] + (
            ['observation_space.contains'] if debug else []
        )
        check(names(log) == expected, 'observation wiring', names(log))
        check(
            log[0][1] is state and log[0][2] is rng
            and log[0][3] is observation,
            'observation arguments',
        )
        if debug:
            check(log[1][1] is observation and log[1][2] is True, 'obs check')
        check(isinstance(observation, Observation), 'observation type')

        # --- functional_step, every action of the space, repeatedly
        for action in list(recorder.action_space.actions) * 3:
            before = snapshot(state)
            y, x = state.agent.position.yx
            heading = state.agent.orientation
            result = env.functional_step(state, action)
            log = recorder.take_log()
            expected = (
                (['state_space.contains'] if debug else [])
                + ['action_space.contains', 'draw', 'transition']
                + (['state_space.contains'] if debug else [])
                + ['reward', 'termination']
            )
            check(names(log) == expected, 'step wiring', names(log))
            check(type(result) is tuple and len(result) == 3, 'step result')
            next_state, reward, terminal = result
            entries = {name: entry for entry in log for name in [entry[0]]}
            if debug:
                check(log[0][1] is state and log[0][2] is True, 'pre check')
                check(
                    log[-3][1] is next_state and log[-3][2] is True,
                    'post check',
                )
            check(
                entries['action_space.contains'][1] is action,
                'action checked',
            )
            _, moved, moved_before, moved_action, moved_rng = entries[
                'transition'
            ]
            check(moved is next_state, 'the transitioned copy is returned')
            check(moved is not state, 'the transition works on a copy')
            check(moved_before == before, 'the copy starts equal to the state')
            check(moved_action is action and moved_rng is rng, 'transition args')
            check(snapshot(state) == before, 'the state is left alone')
            check(
                next_state.grid is not state.grid
                and next_state.agent is not state.agent,
                'deep copy',
            )
            check(
                entries['reward'][1:4] == (state, action, next_state)
                and entries['reward'][1] is state
                and entries['reward'][3] is next_state,
                'reward arguments',
            )
            check(
                entries['termination'][1] is state
                and entries['termination'][2] is action
                and entries['termination'][3] is next_state,
                'termination arguments',
            )
            check(reward == entries['reward'][4], 'reward returned as is')
            check(type(reward) is float, 'reward type')
            check(terminal is entries['termination'][4], 'terminal as is')
            # one draw per step, from the environment's generator (or from
            # nowhere if the environment was never seeded)
            check(
                (entries['draw'][1] is None) == (rng is None),
                'rng forwarded to the chained parts',
            )

            # and the kinematics
            ey, ex, eheading = ref_kinematics(state.grid, y, x, heading, action)
            check(
                next_state.agent.position == Position(ey, ex)
                and next_state.agent.orientation is eheading,
                'kinematics',
                action,
            )
            check(next_state.grid == state.grid, 'grid unchanged')
            state = next_state

        # --- reset / step / observation (the stateful interface)
        env.reset()
        log = recorder.take_log()
        check(names(log)[0] == 'reset' and log[0][2] is env.state, 'reset')
        first = env.observation
        check(env.observation is first, 'observation memoized')
        check(
            names(recorder.take_log()).count('observation') == 1,
            'one observation per state',
        )
        held = env.state
        reward, terminal = env.step(Action.TURN_LEFT)
        log = recorder.take_log()
        check(names(log).count('transition') == 1, 'one transition per step')
        check(env.state is not held, 'state replaced')
        check(env.observation is not first, 'observation refreshed')
        recorder.take_log()

    # --- illegal inputs
    state = env.functional_reset()
    recorder.take_log()

    # an action outside the action space: always refused, nothing else runs
    for action in (Action.ACTUATE, None, 0, 'MOVE_FORWARD'):
        expect_value_error(
            lambda: env.functional_step(state, action),
            'action {action} does not satisfy action-space',
            action,
        )
        log = recorder.take_log()
        expected = (['state_space.contains'] if debug else []) + [
            'action_space.contains'
        ]
        check(names(log) == expected, 'refused action wiring', names(log))

    # a state outside the state space (wrong shape; agent outside the grid)
    outside = [
        State(Grid.from_shape((shape.height + 1, shape.width)),
              Agent(Position(1, 1), F)),
        State(Grid.from_shape((shape.height, shape.width)),
              Agent(Position(shape.height, 0), F)),
        State(Grid.from_shape((shape.height, shape.width)),
              Agent(Position(0, -1), R)),
    ]
    for bad in outside:
        if debug:
            expect_value_error(
                lambda: env.functional_step(bad, Action.TURN_LEFT),
                'state does not satisfy state_space',
            )
            check(
                names(recorder.take_log()) == ['state_space.contains'],
                'refused state wiring',
            )
            # ... checked before the action is
            expect_value_error(
                lambda: env.functional_step(bad, Action.ACTUATE),
                'state does not satisfy state_space',
            )
            recorder.take_log()

            recorder.override['reset'] = bad
            expect_value_error(
                env.functional_reset, 'state does not satisfy state_space'
            )
            check(
                names(recorder.take_log())
                == ['reset', 'state_space.contains'],
                'refused reset wiring',
            )
        else:
            recorder.override['reset'] = bad
            check(env.functional_reset() is bad, 'no check without debugging')
            check(names(recorder.take_log()) == ['reset'], 'no check')

    # a transition function which throws the agent out of the grid
    def throw_out(next_state):
        next_state.agent.position = Position(-1, 0)

    recorder.override['transition'] = throw_out
    if debug:
        expect_value_error(
            lambda: env.functional_step(state, Action.MOVE_FORWARD),
            'next_state does not satisfy state_space',
        )
        check(
            names(recorder.take_log())
            == [
                'state_space.contains',
                'action_space.contains',
                'draw',
                'transition',
                'state_space.contains',
            ],
            'refused next state wiring',
        )
    else:
        next_state, _, _ = env.functional_step(state, Action.MOVE_FORWARD)
        check(next_state.agent.position == Position(-1, 0), 'unchecked')
        check(
            names(recorder.take_log())
            == ['action_space.contains', 'draw', 'transition', 'reward',
                'termination'],
            'unchecked wiring',
        )
    check(state.agent.position != Position(-1, 0), 'the state is left alone')

    # an observation of the wrong shape
    wrong = Observation(
        Grid.from_shape((view.height + 1, view.width)),
        Agent(Position(0, 0), F),
    )
    recorder.override['observation'] = wrong
    if debug:
        expect_value_error(
            lambda: env.functional_observation(state),
            'observation does not satisfy observation_space',
        )
        check(
            names(recorder.take_log())
            == ['observation', 'observation_space.contains'],
            'refused observation wiring',
        )
    else:
        check(env.functional_observation(state) is wrong, 'unchecked')
        check(names(recorder.take_log()) == ['observation'], 'unchecked')

    # toggling the flag takes effect at once, on the same environment
    reset_gv_debug(not debug)
    env.functional_step(state, Action.TURN_RIGHT)
    count = names(recorder.take_log()).count('state_space.contains')
    check(count == (0 if debug else 2), 'debug flag read at every call')
    reset_gv_debug(debug)


for debug, (shape, view) in itt.product(
    (True, False),
    [
        (Shape(4, 4), Area((-2, 0), (-1, 1))),
        (Shape(4, 7), Area((-6, 0), (-3, 3))),
        (Shape(6, 5), Area((-3, 0), (-1, 3))),
    ],
):
    check_wiring(debug, shape, view)
reset_gv_debug(True)

# ---------------------------------------------------------------------------
# 2. histories from reset, python-built counterparts of the shipped configs
# ---------------------------------------------------------------------------

MOVE_TURN = ['move_agent', 'turn_agent']
CONFIGS = [
    ('empty', dict(shape=Shape(4, 4)), MOVE_TURN),
    ('empty', dict(shape=Shape(8, 8), random_agent=True), MOVE_TURN),
    ('empty', dict(shape=Shape(4, 9), random_agent=True, random_exit=True),
     MOVE_TURN),
    ('rooms', dict(shape=Shape(7, 7), layout=(2, 2)), MOVE_TURN),
    ('rooms', dict(shape=Shape(10, 10), layout=(3, 3)), MOVE_TURN),
    ('rooms', dict(shape=Shape(9, 13), layout=(2, 3)), MOVE_TURN),
    ('dynamic_obstacles', dict(shape=Shape(5, 5), num_obstacles=1),
     MOVE_TURN + ['move_obstacles']),
    ('dynamic_obstacles',
     dict(shape=Shape(7, 6), num_obstacles=3, random_agent=True),
     MOVE_TURN + ['move_obstacles']),
    ('keydoor', dict(shape=Shape(5, 5)),
     MOVE_TURN + ['actuate_door', 'pickndrop']),
    ('keydoor', dict(shape=Shape(9, 7)),
     MOVE_TURN + ['actuate_door', 'pickndrop']),
    ('crossing', dict(shape=Shape(7, 7), num_rivers=2, object_type=Wall),
     MOVE_TURN),
    ('crossing', dict(shape=Shape(5, 9), num_rivers=1, object_type=Wall),
     MOVE_TURN),
    ('teleport', dict(shape=Shape(5, 5)), MOVE_TURN + ['teleport']),
    ('teleport', dict(shape=Shape(7, 5)), MOVE_TURN + ['teleport']),
    ('memory', dict(shape=Shape(5, 5), colors={Color.RED, Color.GREEN}),
     MOVE_TURN),
    ('memory',
     dict(shape=Shape(9, 7),
          colors={Color.RED, Color.GREEN, Color.BLUE, Color.YELLOW}),
     MOVE_TURN),
    ('memory_rooms',
     dict(shape=Shape(9, 9), layout=(2, 2),
          colors={Color.RED, Color.GREEN, Color.BLUE}, num_beacons=1,
          num_exits=2),
     MOVE_TURN),
    ('memory_rooms',
     dict(shape=Shape(13, 13), layout=(3, 3),
          colors={Color.RED, Color.GREEN, Color.BLUE, Color.YELLOW},
          num_beacons=1, num_exits=2),
     MOVE_TURN),
]
VIEWS = [
    (Area((-6, 0), (-3, 3)), 'partially_occluded'),
    (Area((-2, 0), (-1, 1)), 'partially_occluded'),
    (Area((-3, 1), (-2, 2)), 'fully_transparent'),  # agent not on the edge
    (Area((-3, 0), (-1, 3)), 'stochastic_raytracing'),  # asymmetric, random
]


def make_env(reset_name, reset_kwargs, transition_names, view, view_name):
    shape = reset_kwargs['shape']
    view_shape = Shape(view.height, view.width)
    return GridWorld(
        StateSpace(shape, ALL_OBJECTS, list(Color)),
        ActionSpace(list(Action)),
        ObservationSpace(view_shape, ALL_OBJECTS, list(Color)),
        reset_fs.factory(reset_name, **reset_kwargs),
        trans_fs.factory(
            'chain',
            transition_functions=[
                trans_fs.factory(name) for name in transition_names
            ],
        ),
        obs_fs.factory(view_name, area=view),
        reward_fs.factory(
            'reduce_sum',
            reward_functions=[
                reward_fs.factory('living_reward', reward=-1.0),
                reward_fs.factory('reach_exit', reward_on=5.0, reward_off=0.0),
            ],
        ),
        term_fs.factory('reach_exit'),
    )


def run_history(env, seed, num_steps, checked, transition_names=()):
    """a history from reset;  returns what identifies it"""
    env.set_seed(seed)
    action_rng = rnd.default_rng(1000 + seed)
    env.reset()
    history = [snapshot(env.state)]
    for _ in range(num_steps):
        state = env.state
        height, width = state.grid.shape.height, state.grid.shape.width
        y, x = state.agent.position.yx
        heading = state.agent.orientation
        held = state.agent.grid_object
        action = list(Action)[action_rng.integers(len(Action))]
        reward, terminal = env.step(action)
        after = env.state
        observation = env.observation
        history.append(
            (
                snapshot(after),
                reward,
                terminal,
                [[repr(o) for o in row] for row in observation.grid.objects],
                repr(observation.agent),
            )
        )
        if not checked:
            continue

        check(0 <= y < height and 0 <= x < width, 'inside')
        check(not ref_blocks(state.grid.objects[y][x]), 'free cell')
        ey, ex, eheading = ref_kinematics(state.grid, y, x, heading, action)
        check(after is not state, 'a new state object')
        check(
            state.agent.position == Position(y, x)
            and state.agent.orientation is heading,
            'the previous state is left alone',
        )
        check(after.agent.orientation is eheading, 'heading')
        if after.agent.position != Position(ey, ex):
            # only teleportation may do that
            check('teleport' in transition_names, 'jump')
            source = state.grid.objects[ey][ex]
            destination = after.grid[after.agent.position]
            check(
                isinstance(source, Telepod)
                and isinstance(destination, Telepod)
                and source.color == destination.color,
                'teleportation between telepods',
            )
        if action is not Action.PICK_N_DROP:
            check(after.agent.grid_object == held, 'held object')
        ay, ax = after.agent.position.yx
        check(0 <= ay < height and 0 <= ax < width, 'inside afterwards')
        check(not ref_blocks(after.grid.objects[ay][ax]), 'free afterwards')
        check(type(reward) is float and type(terminal) is bool, 'types')
        check(
            terminal is isinstance(after.grid.objects[ay][ax], Exit),
            'terminal on the exit',
        )
        check(reward == (4.0 if terminal else -1.0), 'reward', reward)
    return history


total_steps = 0
for index, (reset_name, reset_kwargs, transition_names) in enumerate(CONFIGS):
    view, view_name = VIEWS[index % len(VIEWS)]
    args = (reset_name, reset_kwargs, transition_names, view, view_name)
    env = make_env(*args)
    histories = {}
    for seed in (0, 1, 2):
        histories[seed] = run_history(env, seed, 80, True, transition_names)
        total_steps += 80

    # re-seeding the same environment replays the same history
    check(run_history(env, 1, 80, False) == histories[1], 'replay', reset_name)

    # a second environment in the same process, run in lock-step with the
    # first one (different seeds), does not disturb it
    other = make_env(*args)
    env.set_seed(2)
    other.set_seed(0)
    rngs = {id(env): rnd.default_rng(1002), id(other): rnd.default_rng(1000)}
    env.reset()
    other.reset()
    interleaved = {id(env): [snapshot(env.state)],
                   id(other): [snapshot(other.state)]}
    for _ in range(80):
        for e in (env, other):
            action = list(Action)[rngs[id(e)].integers(len(Action))]
            reward, terminal = e.step(action)
            observation = e.observation
            interleaved[id(e)].append(
                (
                    snapshot(e.state),
                    reward,
                    terminal,
                    [[repr(o) for o in row]
                     for row in observation.grid.objects],
                    repr(observation.agent),
                )
            )
    check(interleaved[id(env)] == histories[2], 'lock-step, first', reset_name)
    check(interleaved[id(other)] == histories[0], 'lock-step, second')

    # histories are the same with the debug checks switched off
    reset_gv_debug(False)
    check(run_history(env, 0, 80, False) == histories[0], 'without debugging')
    reset_gv_debug(True)

print(f'OK: {CHECKS} checks, {total_steps} checked environment steps')
