#!/usr/bin/env python
"""Demo for change B (`move_obstacles` / `teleport` transitions sample through
the `choice` helper behind an explicit emptiness test instead of try/except).

Run from the worktree root:  /venv/bin/python _seed/B/demo.py

Exits 0 on the pristine tree and with the patch applied.  Checks

1. `move_obstacles` / `teleport` against reference implementations embedded
   below (verbatim pre-change logic) on hand-made grids (no wall border,
   obstacles in corners, stuck obstacles, single row / column / cell, lone
   telepods, colour NONE, all four headings, repeated calls): identical
   states AND identical generator state afterwards (i.e. the stream is
   consumed identically, in particular not at all when there is no choice);
2. property C02 on a set of environments built through the python API:
   same seed => same trace, re-seeding, debug flag on/off, interleaving of
   several live environments, no use / perturbation of global generators;
3. the same traces in fresh interpreters under several PYTHONHASHSEED values.
"""
import hashlib
import os
import random
import subprocess
import sys
import warnings

sys.path.insert(0, os.getcwd())
warnings.filterwarnings('ignore')

import numpy as np  # noqa: E402

import gym_gridverse.rng as gv_rng  # noqa: E402
from gym_gridverse.action import Action  # noqa: E402
from gym_gridverse.agent import Agent  # noqa: E402
from gym_gridverse.debugging import reset_gv_debug  # noqa: E402
from gym_gridverse.envs import observation_functions as observation_fs
from gym_gridverse.envs import reset_functions as reset_fs
from gym_gridverse.envs import reward_functions as reward_fs
from gym_gridverse.envs import terminating_functions as terminating_fs
from gym_gridverse.envs import transition_functions as transition_fs
from gym_gridverse.envs.gridworld import GridWorld  # noqa: E402
from gym_gridverse.geometry import (  # noqa: E402
    Area,
    Orientation,
    Position,
    Shape,
    get_manhattan_boundary,
    distance_function_factory,
)
from gym_gridverse.grid import Grid  # noqa: E402
from gym_gridverse.grid_object import (  # noqa: E402
    Beacon,
    Box,
    Color,
    Door,
    Exit,
    Floor,
    Key,
    MovingObstacle,
    Telepod,
    Wall,
)
from gym_gridverse.spaces import (  # noqa: E402
    ActionSpace,
    ObservationSpace,
    StateSpace,
)
from gym_gridverse.state import State  # noqa: E402

ALL_OBJECTS = [Wall, Floor, Exit, Door, Key, MovingObstacle, Box, Telepod, Beacon]
ALL_COLORS = list(Color)
RGBY = {Color.RED, Color.GREEN, Color.BLUE, Color.YELLOW}


def check(condition, message):
    if not condition:
        print('FAIL:', message)
        sys.exit(1)


# --------------------------------------------------------------------------
# reference implementations (pre-change logic, self-contained)
# --------------------------------------------------------------------------


def ref_move_obstacles(state, action, *, rng):
    positions = [
        position
        for position in state.grid.area.positions()
        if isinstance(state.grid[position], MovingObstacle)
    ]

    for position in positions:
        next_positions = [
            next_position
            for next_position in get_manhattan_boundary(position, distance=1)
            if state.grid.area.contains(next_position)
            and isinstance(state.grid[next_position], Floor)
        ]

        try:
            i = rng.choice(len(next_positions))
        except ValueError:
            pass
        else:
            next_position = next_positions[i]
            state.grid.swap(position, next_position)


def ref_teleport(state, action, *, rng):
    telepod = state.grid[state.agent.position]

    if isinstance(telepod, Telepod):
        positions = [
            position
            for position in state.grid.area.positions()
            if position != state.agent.position
            and isinstance(state.grid[position], Telepod)
            and state.grid[position].color == telepod.color
        ]
        try:
            i = rng.choice(len(positions))
        except ValueError:
            pass
        else:
            state.agent.position = positions[i]


def grid_from_text(rows, legend):
    return Grid([[legend[c]() for c in row] for row in rows])


OBSTACLE_GRIDS = [
    # no border of walls: obstacles in corners and on edges, non-square
    ['O..O', '....', 'O..O'],
    ['O.O.O.O'],  # a single row
    ['O', '.', 'O', '.', '.'],  # a single column
    ['O'],  # a single cell: stuck
    ['OO', 'OO'],  # everything stuck
    ['OOO', 'O.O', 'OOO'],  # one free cell fought over
    ['#####', '#O.O#', '#.#.#', '#O.O#', '#####'],
    ['#######', '#O#...#', '###.O.#', '#..O..#', '#######'],  # one walled in
    ['....', '....'],  # no obstacles at all
    ['#E#', 'O.O', '#O#'],
    ['O.........O', '.....O.....', 'O.........O'],
]

OBSTACLE_LEGEND = {
    'O': MovingObstacle,
    '.': Floor,
    '#': Wall,
    'E': Exit,
}


def check_move_obstacles():
    count = 0
    for rows in OBSTACLE_GRIDS:
        for orientation in Orientation:
            for seed in range(10):
                states = [
                    State(
                        grid_from_text(rows, OBSTACLE_LEGEND),
                        Agent(Position(0, 0), orientation),
                    )
                    for _ in range(2)
                ]
                rngs = [np.random.default_rng(seed) for _ in range(2)]
                # repeated calls on the same state and generator
                for step in range(6):
                    action = list(Action)[(seed + step) % len(Action)]
                    transition_fs.move_obstacles(states[0], action, rng=rngs[0])
                    ref_move_obstacles(states[1], action, rng=rngs[1])
                    check(
                        states[0] == states[1],
                        f'move_obstacles {rows} seed {seed} step {step}',
                    )
                    check(
                        rngs[0].bit_generator.state
                        == rngs[1].bit_generator.state,
                        f'move_obstacles stream {rows} seed {seed} step {step}',
                    )
                    count += 1
    return count


def telepods_state(rows, agent_position, orientation):
    legend = {
        '.': Floor,
        '#': Wall,
        'r': lambda: Telepod(Color.RED),
        'g': lambda: Telepod(Color.GREEN),
        'n': lambda: Telepod(Color.NONE),
    }
    return State(
        grid_from_text(rows, legend), Agent(Position(*agent_position), orientation)
    )


TELEPOD_CASES = [
    # (rows, agent position)
    (['r..', '...', '..r'], (0, 0)),  # pair, agent on a corner pod
    (['r..', '...', '..r'], (2, 2)),
    (['r..', '...', '..r'], (1, 1)),  # agent not on a pod
    (['r..', '...', '...'], (0, 0)),  # lone pod: nothing happens
    (['r.g', '...', 'g.n'], (0, 0)),  # lone red among other colours
    (['r.g', '...', 'g.n'], (0, 2)),
    (['r.g', '...', 'g.n'], (2, 2)),  # lone colourless pod
    (['n.n', '.n.', 'n.n'], (1, 1)),  # colour NONE, four destinations
    (['rrrr'], (0, 3)),  # single row, agent on the border
    (['r', 'r', 'g', 'r', 'r'], (4, 0)),  # single column
    (['r'], (0, 0)),  # single cell
    (['#r#', 'r.r', '#r#'], (0, 1)),
    (['rrr', 'rrr'], (1, 1)),  # pods everywhere
]


def check_teleport():
    count = 0
    for rows, agent_position in TELEPOD_CASES:
        for orientation in Orientation:
            for seed in range(10):
                states = [
                    telepods_state(rows, agent_position, orientation)
                    for _ in range(2)
                ]
                rngs = [np.random.default_rng(seed) for _ in range(2)]
                for step in range(6):
                    action = list(Action)[(seed + step) % len(Action)]
                    transition_fs.teleport(states[0], action, rng=rngs[0])
                    ref_teleport(states[1], action, rng=rngs[1])
                    check(
                        states[0] == states[1],
                        f'teleport {rows} {agent_position} seed {seed}',
                    )
                    check(
                        rngs[0].bit_generator.state
                        == rngs[1].bit_generator.state,
                        f'teleport stream {rows} {agent_position} seed {seed}',
                    )
                    count += 1
    return count


def check_against_reference():
    return check_move_obstacles() + check_teleport()


# custom reset functions for the awkward environments below


def reset_crowded(*, rng=None):
    """7x5 room almost full of obstacles: most of them are stuck"""
    rng = gv_rng.get_gv_rng_if_none(rng)
    grid = Grid.from_shape((7, 5))
    for position in grid.area.positions('border'):
        grid[position] = Wall()
    inside = list(grid.area.positions('inside'))
    order = rng.permutation(len(inside))
    agent_position, exit_position, free_position = (
        inside[i] for i in order[:3]
    )
    for i in order[3:]:
        grid[inside[i]] = MovingObstacle()
    grid[exit_position] = Exit()
    del free_position  # stays Floor
    orientation = list(Orientation)[rng.integers(len(Orientation))]
    return State(grid, Agent(agent_position, orientation))


def reset_telepods(*, rng=None):
    """4x7 grid without walls: a lone pod, a pair, a triple"""
    rng = gv_rng.get_gv_rng_if_none(rng)
    grid = Grid.from_shape((4, 7))
    cells = list(grid.area.positions())
    order = rng.permutation(len(cells))
    colors = [Color.NONE] + [Color.RED] * 2 + [Color.BLUE] * 3
    for i, color in zip(order, colors):
        grid[cells[i]] = Telepod(color)
    grid[cells[order[6]]] = Exit()
    orientation = list(Orientation)[rng.integers(len(Orientation))]
    # the agent starts on one of the pods
    return State(grid, Agent(cells[order[rng.integers(6)]], orientation))


# --------------------------------------------------------------------------
# environments (python API only;  mirrors the shipped configurations)
# --------------------------------------------------------------------------

MOVES = [
    Action.MOVE_FORWARD,
    Action.MOVE_BACKWARD,
    Action.MOVE_LEFT,
    Action.MOVE_RIGHT,
    Action.TURN_LEFT,
    Action.TURN_RIGHT,
]


def make_env(
    shape,
    reset,
    transitions,
    rewards,
    terminatings,
    *,
    observation='partially_occluded',
    area=Area((-6, 0), (-3, 3)),
    actions=None,
):
    if callable(reset):
        reset_function = reset
    else:
        reset_name, reset_kwargs = reset
        reset_function = reset_fs.factory(
            reset_name, shape=shape, **reset_kwargs
        )
    transition_function = transition_fs.factory(
        'chain',
        transition_functions=[transition_fs.factory(n) for n in transitions],
    )
    reward_function = reward_fs.factory(
        'reduce_sum',
        reward_functions=[reward_fs.factory(n, **kw) for n, kw in rewards],
    )
    terminating_function = terminating_fs.factory(
        'reduce_any',
        terminating_functions=[terminating_fs.factory(n) for n in terminatings],
    )
    observation_function = observation_fs.factory(observation, area=area)
    return GridWorld(
        StateSpace(shape, ALL_OBJECTS, ALL_COLORS),
        ActionSpace(list(Action) if actions is None else actions),
        ObservationSpace(Shape(area.height, area.width), ALL_OBJECTS, ALL_COLORS),
        reset_function,
        transition_function,
        observation_function,
        reward_function,
        terminating_function,
    )


def closer():
    return (
        'getting_closer',
        dict(
            distance_function=distance_function_factory('manhattan'),
            object_type=Exit,
            reward_closer=0.2,
            reward_further=-0.2,
        ),
    )


REACH = ('reach_exit', dict(reward_on=5.0, reward_off=0.0))
LIVING = ('living_reward', dict(reward=-0.05))
MEMORY = ('reach_exit_memory', dict(reward_good=5.0, reward_bad=-5.0))


def obstacles_env(shape, num_obstacles, random_agent, **kwargs):
    return make_env(
        shape,
        (
            'dynamic_obstacles',
            dict(num_obstacles=num_obstacles, random_agent=random_agent),
        ),
        ['move_agent', 'turn_agent', 'move_obstacles'],
        [
            REACH,
            ('bump_moving_obstacle', dict(reward=-1.0)),
            ('bump_into_wall', dict(reward=-1.0)),
            closer(),
            LIVING,
        ],
        ['reach_exit', 'bump_moving_obstacle', 'bump_into_wall'],
        **kwargs,
    )


def teleport_env(shape, **kwargs):
    return make_env(
        shape,
        ('teleport', dict()),
        ['move_agent', 'turn_agent', 'teleport'],
        [REACH, closer(), LIVING],
        ['reach_exit'],
        **kwargs,
    )


ENVS = {
    'dynamic_obstacles.5x5': lambda: obstacles_env(
        Shape(5, 5), 1, False, actions=MOVES
    ),
    'dynamic_obstacles.7x7': lambda: obstacles_env(
        Shape(7, 7), 2, False, actions=MOVES
    ),
    # inside is 2x2: agent cell, exit, two obstacles
    'dynamic_obstacles.4x4.full': lambda: obstacles_env(Shape(4, 4), 2, False),
    'dynamic_obstacles.6x9.random': lambda: obstacles_env(
        Shape(6, 9),
        12,
        True,
        observation='raytracing',
        area=Area((-4, 1), (-2, 2)),
    ),
    'dynamic_obstacles.8x5.stochastic': lambda: obstacles_env(
        Shape(8, 5),
        5,
        True,
        observation='stochastic_raytracing',
        area=Area((-2, 2), (-1, 1)),
    ),
    'crowded.7x5': lambda: make_env(
        Shape(7, 5),
        reset_crowded,
        ['move_obstacles', 'move_agent', 'turn_agent', 'move_obstacles'],
        [REACH, ('bump_moving_obstacle', dict(reward=-1.0)), LIVING],
        ['reach_exit'],
        observation='raytracing',
    ),
    'teleport.5x5': lambda: teleport_env(Shape(5, 5), actions=MOVES),
    'teleport.7x7': lambda: teleport_env(Shape(7, 7), actions=MOVES),
    # inside is 2x2: agent cell, exit, two telepods
    'teleport.4x4.full': lambda: teleport_env(Shape(4, 4)),
    'teleport.5x8.stochastic': lambda: teleport_env(
        Shape(5, 8),
        observation='stochastic_raytracing',
        area=Area((-3, 0), (-3, 3)),
    ),
    'telepods.4x7': lambda: make_env(
        Shape(4, 7),
        reset_telepods,
        ['move_agent', 'turn_agent', 'teleport'],
        [REACH, LIVING],
        ['reach_exit'],
        actions=MOVES,
    ),
    'telepods.4x7.obstacles': lambda: make_env(
        Shape(4, 7),
        reset_telepods,
        ['teleport', 'move_agent', 'teleport', 'turn_agent'],
        [REACH, LIVING],
        ['reach_exit'],
        observation='fully_transparent',
        area=Area((-1, 1), (-2, 2)),
    ),
    'four_rooms.7x7': lambda: make_env(
        Shape(7, 7),
        ('rooms', dict(layout=(2, 2))),
        ['move_agent', 'turn_agent'],
        [REACH, closer(), LIVING],
        ['reach_exit'],
        actions=MOVES,
    ),
    'keydoor.7x7': lambda: make_env(
        Shape(7, 7),
        ('keydoor', dict()),
        ['move_agent', 'turn_agent', 'actuate_door', 'pickndrop'],
        [REACH, closer(), LIVING],
        ['reach_exit'],
    ),
}


def canon_object(obj):
    return (type(obj).__name__, int(obj.state_index), obj.color.name)


def canon(thing):
    """hash-independent description of a state or observation"""
    grid = tuple(
        tuple(canon_object(thing.grid[y, x]) for x in range(thing.grid.shape.width))
        for y in range(thing.grid.shape.height)
    )
    agent = (
        thing.agent.position.yx,
        thing.agent.orientation.name,
        canon_object(thing.agent.grid_object),
    )
    return grid, agent


def action_sequence(env, key, length):
    actions = list(env.action_space.actions)
    source = random.Random(key)  # private to the demo
    return [actions[source.randrange(len(actions))] for _ in range(length)]


def trace_steps(env, seed, actions, *, reseed=True):
    """generator: yields one trace item per environment operation"""
    for _ in range(2 if reseed else 1):
        env.set_seed(seed)
        for _ in range(2):
            env.reset()
            yield ('reset', canon(env.state), canon(env.observation))
            for action in actions:
                state_before = canon(env.state)
                reward, done = env.step(action)
                # the functional interface must not have touched its input
                yield (
                    action.name,
                    state_before,
                    canon(env.state),
                    canon(env.observation),
                    canon(env.observation),  # memoised
                    repr(float(reward)),
                    bool(done),
                )
                if done:
                    env.reset()
                    yield ('reset', canon(env.state), canon(env.observation))


def trace(env, seed, actions):
    return list(trace_steps(env, seed, actions))


def all_traces(seeds, length):
    out = {}
    for name in sorted(ENVS):
        for seed in seeds:
            env = ENVS[name]()
            out[name, seed] = trace(env, seed, action_sequence(env, f'{name}/{seed}', length))
    return out


def digest(traces):
    return hashlib.sha256(repr(sorted(traces.items())).encode()).hexdigest()


class Poison:
    """stands in for the library-level generator: any use is an error"""

    def __getattr__(self, name):
        raise AssertionError(f'library-level generator used ({name})')


def global_snapshot():
    state = np.random.get_state()
    return (
        state[0],
        state[1].tobytes(),
        state[2:],
        random.getstate(),
    )


def check_property():
    seeds = [0, 1, 7, 2**32 + 5]
    length = 25

    # any draw from the library-level generator raises
    poison = Poison()
    gv_rng._gv_rng = poison
    np.random.seed(1234)
    random.seed(1234)
    before = global_snapshot()

    reset_gv_debug(True)
    traces = all_traces(seeds, length)

    # 1. same configuration, same seed, fresh environment => same trace;
    #    a re-seeded environment restarts the same trace
    for (name, seed), expected in traces.items():
        env = ENVS[name]()
        actions = action_sequence(env, f'{name}/{seed}', length)
        check(trace(env, seed, actions) == expected, f'repeat {name} {seed}')
        half = len(expected) // 2
        check(expected[:half] == expected[half:], f're-seeding {name} {seed}')
        # a used environment, seeded again, also restarts
        check(trace(env, seed, actions) == expected, f'reuse {name} {seed}')

    # different seeds do differ (the traces are not trivially constant)
    for name in ENVS:
        check(
            len({repr(traces[name, seed]) for seed in seeds}) > 1,
            f'seed has no effect on {name}',
        )

    # 2. debug flag off: same traces
    reset_gv_debug(False)
    check(all_traces(seeds, length) == traces, 'debug flag changes traces')
    reset_gv_debug(True)

    # 3. interleaving: several live environments advanced in arbitrary order
    for round_ in range(6):
        scheduler = random.Random(f'schedule-{round_}')
        runners = {}
        for index, name in enumerate(sorted(ENVS)):
            seed = seeds[(index + round_) % len(seeds)]
            env = ENVS[name]()
            actions = action_sequence(env, f'{name}/{seed}', length)
            runners[name, seed, 'a'] = (trace_steps(env, seed, actions), [])
            # a twin with the same seed alive at the same time
            twin = ENVS[name]()
            runners[name, seed, 'b'] = (trace_steps(twin, seed, actions), [])
        live = sorted(runners)
        while live:
            key = live[scheduler.randrange(len(live))]
            steps, collected = runners[key]
            try:
                collected.append(next(steps))
            except StopIteration:
                live.remove(key)
        for (name, seed, _), (_, collected) in runners.items():
            check(collected == traces[name, seed], f'interleaving {name} {seed}')

    # 4. no global generator was used or perturbed
    check(gv_rng._gv_rng is poison, 'library-level generator replaced')
    check(global_snapshot() == before, 'global generators perturbed')
    gv_rng._gv_rng = None

    return traces


def main():
    if sys.argv[1:] == ['--digest']:
        print(digest(all_traces([0, 3], 15)))
        return

    count = check_against_reference()
    print(f'reference: {count} transition calls identical (state + stream)')

    traces = check_property()
    print(f'property: {len(traces)} (environment, seed) traces reproducible')

    # 5. other interpreter processes, whatever the hash randomisation
    expected = digest(all_traces([0, 3], 15))
    for hashseed in ['0', '1', '4242', 'random']:
        result = subprocess.run(
            [sys.executable, os.path.abspath(__file__), '--digest'],
            env={**os.environ, 'PYTHONHASHSEED': hashseed},
            cwd=os.getcwd(),
            capture_output=True,
            text=True,
            check=False,
        )
        check(result.returncode == 0, f'subprocess failed: {result.stderr[-500:]}')
        got = result.stdout.strip().splitlines()[-1]
        check(got == expected, f'PYTHONHASHSEED={hashseed}: digest differs')
    print('processes: digests identical under 4 PYTHONHASHSEED values')
    print('OK')


if __name__ == '__main__':
    main()
