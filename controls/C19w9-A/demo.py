"""Demo for change A (compute_ray as one explicit loop).

Run from the worktree root:  /venv/bin/python _seed/A/demo.py

Exits 0 on the pristine tree and with the patch applied.  Checks

* equality of `compute_ray` / `compute_rays` / `compute_rays_fancy` with a
  reference implementation embedded below (a verbatim copy of the pristine
  generator pipeline), for unique=True and unique=False, many directions and
  step sizes, many areas and every origin;
* the C19 property itself on every ray of every fan (origin first, inside the
  area, no repeats, 8-connected steps, ends on the border, fan covers the area);
* determinism and independence from the caches and from the order of queries;
* the ray-traced visibility / observation of unobstructed grids.
"""
import itertools as itt
import math
import os
import random
import sys
import types

# run from the worktree root:  `import gym_gridverse` must pick up that tree
sys.path.insert(0, os.getcwd())

# --------------------------------------------------------------------------
# `more_itertools` may be missing from the environment;  the pristine module
# imports it.  Provide a faithful stand-in for the functions that are used.
# --------------------------------------------------------------------------


def _unique_everseen(iterable, key=None):
    seenset = set()
    seenset_add = seenset.add
    seenlist = []
    seenlist_add = seenlist.append
    use_key = key is not None

    for element in iterable:
        k = key(element) if use_key else element
        try:
            if k not in seenset:
                seenset_add(k)
                yield element
        except TypeError:
            if k not in seenlist:
                seenlist_add(k)
                yield element


try:
    import more_itertools as _mitt  # noqa: F401
except ImportError:
    _stub = types.ModuleType('more_itertools')
    _stub.unique_everseen = _unique_everseen  # type: ignore[attr-defined]
    sys.modules['more_itertools'] = _stub

import warnings  # noqa: E402

warnings.simplefilter('ignore')

import numpy as np  # noqa: E402

from gym_gridverse.geometry import Area, Orientation, Position  # noqa: E402
from gym_gridverse.utils import raytracing as rt  # noqa: E402

# --------------------------------------------------------------------------
# reference implementation:  verbatim copy of the pristine code
# --------------------------------------------------------------------------


def ref_compute_ray(position, area, *, radians, step_size, unique=True):
    if not area.contains(position):
        raise ValueError(f'Position {position} is not inside area {area}')

    y0, x0 = float(position.y), float(position.x)
    dy = step_size * math.sin(radians)
    dx = step_size * math.cos(radians)

    ys = (y0 + i * dy for i in itt.count())
    xs = (x0 + i * dx for i in itt.count())
    positions = (Position(round(y), round(x)) for y, x in zip(ys, xs))
    positions = itt.takewhile(area.contains, positions)
    positions = _unique_everseen(positions) if unique else positions

    return list(positions)


def ref_compute_rays(position, area):
    radians_over_degrees = math.pi / 180.0
    degrees = range(360)
    radians = (deg * radians_over_degrees for deg in degrees)
    return [
        ref_compute_ray(position, area, radians=rad, step_size=0.01)
        for rad in radians
    ]


_ref_fans = {}


def ref_compute_rays_fancy(position, area):
    # the reference is pure:  memoised only to keep the demo fast
    try:
        return _ref_fans[position, area]
    except KeyError:
        pass
    _ref_fans[position, area] = rays = _ref_compute_rays_fancy(position, area)
    return rays


def _ref_compute_rays_fancy(position, area):
    ys = np.linspace(area.ymin, area.ymax + 1, num=area.height + 1) - 0.5
    xs = np.linspace(area.xmin, area.xmax + 1, num=area.width + 1) - 0.5
    ys = ys - position.y
    xs = xs - position.x
    yys, xxs = np.meshgrid(ys, xs)
    radians = np.arctan2(yys, xxs)
    radians = np.sort(radians, axis=None)
    return [
        ref_compute_ray(position, area, radians=rad, step_size=0.01)
        for rad in radians
    ]


# --------------------------------------------------------------------------
# the property
# --------------------------------------------------------------------------

n_checks = 0


def check(condition, *info):
    global n_checks
    n_checks += 1
    if not condition:
        print('FAILED', *info)
        sys.exit(1)


def on_border(position, area):
    return (
        position.y in (area.ymin, area.ymax)
        or position.x in (area.xmin, area.xmax)
    )


def check_ray_property(ray, position, area, info):
    check(type(ray) is list, 'ray is a list', info)
    check(len(ray) >= 1, 'ray not empty', info)
    check(ray[0] == position, 'ray starts at the origin', info)
    check(all(type(p) is Position for p in ray), 'ray of Positions', info)
    check(
        all(type(p.y) is int and type(p.x) is int for p in ray),
        'int coordinates',
        info,
    )
    check(all(area.contains(p) for p in ray), 'ray inside the area', info)
    check(len(set(ray)) == len(ray), 'each cell at most once', info)
    check(
        all(
            max(abs(p.y - q.y), abs(p.x - q.x)) == 1
            for p, q in zip(ray, ray[1:])
        ),
        'adjacent steps',
        info,
    )
    check(on_border(ray[-1], area), 'ray ends on the border', info)


def check_fan_property(rays, position, area, info, *, covers=True):
    for k, ray in enumerate(rays):
        check_ray_property(ray, position, area, (info, k))
    if covers:
        reached = set(itt.chain.from_iterable(rays))
        check(
            reached == set(area.positions()),
            'fan reaches every cell',
            info,
        )


# --------------------------------------------------------------------------
# scenarios
# --------------------------------------------------------------------------

SMALL_AREAS = [
    Area((0, 0), (0, 0)),  # single cell
    Area((0, 0), (0, 4)),  # single row
    Area((-3, 1), (2, 2)),  # single column, off origin
    Area((0, 1), (0, 1)),
    Area((-1, 1), (-2, 2)),  # the one of the unit tests
    Area((0, 2), (0, 4)),
    Area((5, 8), (-7, -5)),  # far from (0, 0)
    Area((0, 6), (0, 6)),  # same, as the observation grid sees it
    Area((-4, 1), (-2, 3)),  # asymmetric view
    Area((0, 3), (0, 8)),  # non-square, wide
]

LARGE_AREAS = [
    Area((-6, 0), (-3, 3)),  # default egocentric view 7x7
    Area((0, 8), (0, 10)),  # beyond the view sizes in use
    Area((-2, 12), (-20, -11)),
    Area((0, 11), (0, 11)),
]


def selected_origins(area, rng):
    ymid = (area.ymin + area.ymax) // 2
    xmid = (area.xmin + area.xmax) // 2
    origins = {
        Position(area.ymin, area.xmin),
        Position(area.ymin, area.xmax),
        Position(area.ymax, area.xmin),
        Position(area.ymax, area.xmax),
        Position(area.ymin, xmid),
        Position(area.ymax, xmid),
        Position(ymid, area.xmin),
        Position(ymid, area.xmax),
        Position(ymid, xmid),
    }
    every = list(area.positions())
    origins.update(rng.sample(every, min(2, len(every))))
    return sorted(origins, key=lambda p: p.yx)


def main():
    rng = random.Random(19)

    # -- 1. single rays:  equality with the reference, unique or not ---------
    directions = [k * math.pi / 180 for k in range(0, 360, 45)]
    directions += [-math.pi, -math.pi / 2, 2 * math.pi, 7.5, -11.25, 1e-9]
    directions += [math.atan2(dy, dx) for dy in (-2.5, -0.5, 1.5) for dx in (-1.5, 0.5, 3.5)]
    directions += [rng.uniform(-10, 10) for _ in range(8)]
    step_sizes = [0.01, 0.1, 0.3, 1.0, 1.5, 2.75]

    for area in SMALL_AREAS:
        origins = selected_origins(area, rng)
        if len(origins) > 4:
            origins = origins[:1] + rng.sample(origins[1:], 3)
        for position in origins:
            for radians in directions:
                for step_size in step_sizes:
                    for unique in (True, False):
                        got = rt.compute_ray(
                            position,
                            area,
                            radians=radians,
                            step_size=step_size,
                            unique=unique,
                        )
                        want = ref_compute_ray(
                            position,
                            area,
                            radians=radians,
                            step_size=step_size,
                            unique=unique,
                        )
                        info = (position, area, radians, step_size, unique)
                        check(got == want, 'compute_ray equals reference', info)
                        check(type(got) is list, 'list', info)
                        check(
                            all(type(p) is Position for p in got),
                            'Positions',
                            info,
                        )
                    if step_size == 0.01:
                        ray = rt.compute_ray(position, area, radians=radians, step_size=step_size)
                        check_ray_property(ray, position, area, info)
                if position != origins[0]:
                    continue
                # default of `unique` is True
                check(
                    rt.compute_ray(position, area, radians=radians, step_size=0.1)
                    == ref_compute_ray(position, area, radians=radians, step_size=0.1, unique=True),
                    'default unique',
                    (position, area, radians),
                )
                # numpy scalars as direction (what compute_rays_fancy passes)
                check(
                    rt.compute_ray(position, area, radians=np.float64(radians), step_size=0.01)
                    == ref_compute_ray(position, area, radians=radians, step_size=0.01),
                    'numpy direction',
                    (position, area, radians),
                )

    # negative step walks the other way;  still the same as the reference
    area = Area((-1, 1), (-2, 2))
    for radians in directions:
        check(
            rt.compute_ray(Position(0, 1), area, radians=radians, step_size=-0.05, unique=False)
            == ref_compute_ray(Position(0, 1), area, radians=radians, step_size=-0.05, unique=False),
            'negative step',
            radians,
        )

    # -- 2. documented exception for origins outside the area ---------------
    for area in SMALL_AREAS:
        outside = [
            Position(area.ymin - 1, area.xmin),
            Position(area.ymax + 1, area.xmax),
            Position(area.ymin, area.xmin - 1),
            Position(area.ymax, area.xmax + 1),
            Position(area.ymax + 3, area.xmax + 3),
        ]
        for position in outside:
            for function in (
                lambda: rt.compute_ray(position, area, radians=0.3, step_size=0.01),
                lambda: rt.compute_ray(position, area, radians=0.3, step_size=0.01, unique=False),
                lambda: rt.compute_rays(position, area),
                lambda: rt.compute_rays_fancy(position, area),
                lambda: rt.cached_compute_rays_fancy(position, area),
            ):
                try:
                    function()
                except ValueError as error:
                    check(
                        str(error) == f'Position {position} is not inside area {area}',
                        'error message',
                        str(error),
                    )
                else:
                    check(False, 'ValueError expected', position, area)

    # non-finite directions fail in the same way
    for radians in (math.nan, math.inf, -math.inf):
        outcomes = []
        for function in (rt.compute_ray, ref_compute_ray):
            try:
                function(Position(0, 0), Area((-1, 1), (-1, 1)), radians=radians, step_size=0.01)
            except Exception as error:  # pylint: disable=broad-except
                outcomes.append((type(error), str(error)))
            else:
                outcomes.append(None)
        check(outcomes[0] == outcomes[1] and outcomes[0] is not None, 'non-finite', radians, outcomes)

    # -- 3. fans:  property, equality, every origin --------------------------
    fans = {}
    for area in SMALL_AREAS:
        for position in area.positions():
            rays = rt.compute_rays_fancy(position, area)
            info = ('fancy', position, area)
            check(len(rays) == (area.height + 1) * (area.width + 1), 'number of rays', info)
            check(rays == ref_compute_rays_fancy(position, area), 'fancy equals reference', info)
            check_fan_property(rays, position, area, info)
            fans[position, area] = rays

    for area in LARGE_AREAS:
        for position in selected_origins(area, rng):
            rays = rt.compute_rays_fancy(position, area)
            info = ('fancy', position, area)
            check(rays == ref_compute_rays_fancy(position, area), 'fancy equals reference', info)
            check_fan_property(rays, position, area, info)
            fans[position, area] = rays

    for area in [Area((-1, 1), (-2, 2)), Area((0, 0), (0, 0)), Area((-6, 0), (-3, 3)), Area((0, 3), (0, 8))]:
        for position in selected_origins(area, rng)[::2]:
            rays = rt.compute_rays(position, area)
            info = ('degrees', position, area)
            check(len(rays) == 360, 'number of rays', info)
            check(rays == ref_compute_rays(position, area), 'degrees equals reference', info)
            check_fan_property(rays, position, area, info)

    # -- 4. determinism, caches, order of queries ----------------------------
    # more distinct queries than the caches hold (128):  evictions happen too
    queries = [
        (position, area)
        for position, area in fans
        if area.height * area.width < 49 or area == LARGE_AREAS[0]
    ]
    check(len(queries) > 128, 'enough queries to overflow the caches', len(queries))
    for round_ in range(3):
        rng.shuffle(queries)
        if round_ == 1:
            rt.cached_compute_rays_fancy.cache_clear()
            rt.cached_compute_rays.cache_clear()
        for position, area in queries:
            cached = rt.cached_compute_rays_fancy(position, area)
            check(cached == fans[position, area], 'cached equals uncached', position, area, round_)
            # equal key objects, not the same objects
            again = rt.cached_compute_rays_fancy(Position(position.y, position.x), Area(area.ys, area.xs))
            check(again == fans[position, area], 'cached, equal key', position, area, round_)
    for position, area in queries[:25]:
        check(rt.compute_rays_fancy(position, area) == fans[position, area], 'repeated call', position, area)
    area = Area((-1, 1), (-2, 2))
    check(
        rt.cached_compute_rays(Position(1, -2), area) == ref_compute_rays(Position(1, -2), area),
        'cached degrees',
    )
    check(
        rt.cached_compute_rays(Position(1, -2), area) == rt.compute_rays(Position(1, -2), area),
        'cached degrees again',
    )

    # -- 5. unobstructed ray-traced views show everything --------------------
    from gym_gridverse.agent import Agent
    from gym_gridverse.envs import observation_functions as obs_fs
    from gym_gridverse.envs import visibility_functions as vis_fs
    from gym_gridverse.grid import Grid
    from gym_gridverse.grid_object import Floor, Wall
    from gym_gridverse.state import State

    def ref_visibility(grid, position):
        rays = ref_compute_rays_fancy(position, grid.area)
        counts = np.zeros((grid.shape.height, grid.shape.width), dtype=int)
        for ray in rays:
            light = True
            for pos in ray:
                counts[pos.y, pos.x] += int(light)
                light = light and not grid[pos].blocks_vision
        return counts >= 1

    for height, width in [(1, 1), (1, 5), (5, 1), (2, 2), (7, 7), (4, 9), (3, 5)]:
        grid = Grid.from_shape((height, width))
        walled = Grid.from_shape((height, width))
        for pos in walled.area.positions():
            if rng.random() < 0.25:
                walled[pos] = Wall()
        for position in grid.area.positions():
            visibility = vis_fs.raytracing(grid, position)
            check(visibility.shape == (height, width), 'visibility shape')
            check(bool(visibility.all()), 'open grid fully visible', height, width, position)
            check(
                np.array_equal(vis_fs.raytracing(walled, position), ref_visibility(walled, position)),
                'walled visibility equals reference',
                height,
                width,
                position,
            )
            check(bool(vis_fs.raytracing(walled, position)[position.y, position.x]), 'own cell visible')

    # two "environments" with different shapes and view areas in one process
    view_areas = [Area((-6, 0), (-3, 3)), Area((-4, 1), (-2, 3)), Area((-2, 2), (-2, 2))]
    for height, width in [(9, 6), (5, 11)]:
        grid = Grid.from_shape((height, width))
        agent_positions = selected_origins(grid.area, rng)
        for position in agent_positions:
            for orientation in Orientation:
                state = State(grid, Agent(position, orientation))
                for view_area in view_areas:
                    traced = obs_fs.raytracing(state, area=view_area)
                    transparent = obs_fs.fully_transparent(state, area=view_area)
                    check(
                        traced.grid == transparent.grid and traced.agent.position == transparent.agent.position,
                        'unobstructed ray-traced view shows everything',
                        (height, width, position, orientation, view_area),
                    )

    print(f'OK ({n_checks} checks)')


if __name__ == '__main__':
    main()
