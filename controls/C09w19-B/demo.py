#!/usr/bin/env python3
"""C09 demo (change B: Agent.is_holding / Agent.holds / Agent.exchange).

Checks, on the pristine tree and with the patch alike, that objects are
conserved by every built-in transition function and by their compositions:

* exhaustive small-grid sweep (non-square grids down to 1x1, the agent on every
  cell incl. borders and corners, all four headings, every kind of object in
  front, every kind of held item incl. colour NONE, all 8 actions);
* each step is compared with a reference implementation embedded below (a
  transcription of the pristine semantics that spells the hand-over between
  the agent's hand and the cell in front out case by case) -- deep comparison incl. Box contents and Door status --
  and, independently, the census-by-identity of non-floor objects plus the held
  item is compared before/after;
* repeated pick / drop / swap sequences tracked by object identity, with
  hard-coded `repr` of the agent after every step;
* histories of the shipped key-door and dynamic-obstacle environments built
  through the Python API, with re-seeding and two environments interleaved in
  one process.

Run from the worktree root:  /venv/bin/python _seed/B/demo.py
"""
import itertools as itt
import os
import sys
import warnings
from functools import partial

sys.path.insert(0, os.getcwd())
warnings.filterwarnings('ignore')

from gym_gridverse.action import Action  # noqa: E402
from gym_gridverse.agent import Agent  # noqa: E402
from gym_gridverse.envs import (  # noqa: E402
    observation_functions,
    reset_functions,
    reward_functions,
    terminating_functions,
)
from gym_gridverse.envs import transition_functions as tf  # noqa: E402
from gym_gridverse.envs.gridworld import GridWorld  # noqa: E402
from gym_gridverse.geometry import (  # noqa: E402
    Area,
    Orientation,
    Position,
    Shape,
)
from gym_gridverse.grid import Grid  # noqa: E402
from gym_gridverse.grid_object import (  # noqa: E402
    Beacon,
    Box,
    Color,
    Door,
    Exit,
    Floor,
    Key,
    MovingObstacle,
    NoneGridObject,
    Telepod,
    Wall,
)
from gym_gridverse.rng import make_rng  # noqa: E402
from gym_gridverse.spaces import (  # noqa: E402
    ActionSpace,
    ObservationSpace,
    StateSpace,
)
from gym_gridverse.state import State  # noqa: E402
from gym_gridverse.utils.fast_copy import fast_copy  # noqa: E402

CHECKS = 0


def check(condition, *context):
    global CHECKS
    CHECKS += 1
    if not condition:
        print('FAILED:', *context)
        sys.exit(1)


# --------------------------------------------------------------------------
# deep descriptions of objects / states (GridObject.__eq__ ignores Box content)


def describe(obj):
    if isinstance(obj, Box):
        return ('Box', describe(obj.content))
    if isinstance(obj, Door):
        return ('Door', obj.state.name, obj.color.name)
    return (type(obj).__name__, obj.state_index, obj.color.name)


def describe_state(state):
    return (
        tuple(tuple(map(describe, row)) for row in state.grid.objects),
        state.agent.position.yx,
        state.agent.orientation.name,
        describe(state.agent.grid_object),
    )


def census_ids(state):
    """identity census: every non-floor object on the grid + the held item"""
    ids = []
    for position in state.grid.area.positions():
        obj = state.grid[position]
        if not isinstance(obj, Floor):
            ids.append(id(obj))
    if not isinstance(state.agent.grid_object, NoneGridObject):
        ids.append(id(state.agent.grid_object))
    return sorted(ids)


def census_kinds(state):
    """value census: (type, colour), Box contents included, Door status not"""

    def kind(obj):
        if isinstance(obj, Box):
            return ('Box', kind(obj.content))
        return (type(obj).__name__, obj.color.name)

    kinds = [
        kind(state.grid[position])
        for position in state.grid.area.positions()
        if not isinstance(state.grid[position], Floor)
    ]
    if not isinstance(state.agent.grid_object, NoneGridObject):
        kinds.append(kind(state.agent.grid_object))
    return sorted(map(repr, kinds))


# --------------------------------------------------------------------------
# reference implementation (pristine semantics, everything spelled out by hand)

DELTA = {
    Orientation.F: (-1, 0),
    Orientation.B: (1, 0),
    Orientation.L: (0, -1),
    Orientation.R: (0, 1),
}
TURN_LEFT = {
    Orientation.F: Orientation.L,
    Orientation.L: Orientation.B,
    Orientation.B: Orientation.R,
    Orientation.R: Orientation.F,
}
TURN_RIGHT = {v: k for k, v in TURN_LEFT.items()}
TURN_BACK = {k: TURN_LEFT[TURN_LEFT[k]] for k in TURN_LEFT}


def ref_inside(state, y, x):
    return 0 <= y < state.grid.shape.height and 0 <= x < state.grid.shape.width


def ref_front(state):
    """(y, x) in front of the agent or None if beyond the grid"""
    dy, dx = DELTA[state.agent.orientation]
    y, x = state.agent.position.y + dy, state.agent.position.x + dx
    return (y, x) if ref_inside(state, y, x) else None


def ref_move_agent(state, action, *, rng=None):
    heading = {
        Action.MOVE_FORWARD: lambda o: o,
        Action.MOVE_LEFT: TURN_LEFT.get,
        Action.MOVE_RIGHT: TURN_RIGHT.get,
        Action.MOVE_BACKWARD: TURN_BACK.get,
    }.get(action)
    if heading is None:
        return
    dy, dx = DELTA[heading(state.agent.orientation)]
    y, x = state.agent.position.y + dy, state.agent.position.x + dx
    if ref_inside(state, y, x) and not state.grid[y, x].blocks_movement:
        state.agent.position = Position(y, x)


def ref_turn_agent(state, action, *, rng=None):
    if action is Action.TURN_LEFT:
        state.agent.orientation = TURN_LEFT[state.agent.orientation]
    if action is Action.TURN_RIGHT:
        state.agent.orientation = TURN_RIGHT[state.agent.orientation]


def ref_pickndrop(state, action, *, rng=None):
    if action is not Action.PICK_N_DROP:
        return
    front = ref_front(state)
    if front is None:
        return
    obj = state.grid[front]
    held = state.agent.grid_object
    empty_handed = isinstance(held, NoneGridObject)
    if obj.holdable:
        state.grid[front] = Floor() if empty_handed else held
        state.agent.grid_object = obj
    elif isinstance(obj, Floor):
        state.grid[front] = Floor() if empty_handed else held
        state.agent.grid_object = NoneGridObject()


def ref_actuate_door(state, action, *, rng=None):
    if action is not Action.ACTUATE:
        return
    front = ref_front(state)
    if front is None:
        return
    door = state.grid[front]
    if not isinstance(door, Door):
        return
    held = state.agent.grid_object
    if door.state is Door.Status.CLOSED:
        door.state = Door.Status.OPEN
    elif door.state is Door.Status.LOCKED:
        if isinstance(held, Key) and held.color == door.color:
            door.state = Door.Status.OPEN


def ref_actuate_box(state, action, *, rng=None):
    if action is not Action.ACTUATE:
        return
    front = ref_front(state)
    if front is None:
        return
    box = state.grid[front]
    if isinstance(box, Box):
        state.grid[front] = box.content


def ref_move_obstacles(state, action, *, rng=None):
    # same draws as the library: one rng.choice(n) per obstacle with n > 0
    height, width = state.grid.shape.height, state.grid.shape.width
    cells = [
        (y, x)
        for y in range(height)
        for x in range(width)
        if isinstance(state.grid[y, x], MovingObstacle)
    ]
    for y, x in cells:
        # order of geometry.get_manhattan_boundary(distance=1):
        # up, right, down, left
        around = [(y - 1, x), (y, x + 1), (y + 1, x), (y, x - 1)]
        free = [
            (yy, xx)
            for yy, xx in around
            if ref_inside(state, yy, xx)
            and isinstance(state.grid[yy, xx], Floor)
        ]
        if free:
            yy, xx = free[rng.choice(len(free))]
            a, b = state.grid[y, x], state.grid[yy, xx]
            state.grid[y, x], state.grid[yy, xx] = b, a


def ref_teleport(state, action, *, rng=None):
    telepod = state.grid[state.agent.position]
    if isinstance(telepod, Telepod):
        others = [
            position
            for position in state.grid.area.positions()
            if position != state.agent.position
            and isinstance(state.grid[position], Telepod)
            and state.grid[position].color == telepod.color
        ]
        if others:
            state.agent.position = others[rng.choice(len(others))]


def ref_chain(functions):
    def function(state, action, *, rng=None):
        for f in functions:
            f(state, action, rng=rng)

    return function


PAIRS = {
    'move_agent': (tf.move_agent, ref_move_agent),
    'turn_agent': (tf.turn_agent, ref_turn_agent),
    'pickndrop': (tf.pickndrop, ref_pickndrop),
    'actuate_door': (tf.actuate_door, ref_actuate_door),
    'actuate_box': (tf.actuate_box, ref_actuate_box),
    'move_obstacles': (tf.move_obstacles, ref_move_obstacles),
    'teleport': (tf.teleport, ref_teleport),
}


def make_pair(names):
    if len(names) == 1:
        return PAIRS[names[0]]
    return (
        partial(tf.chain, transition_functions=[PAIRS[n][0] for n in names]),
        ref_chain([PAIRS[n][1] for n in names]),
    )


COMPOSITIONS = [(name,) for name in PAIRS] + [
    ('move_agent', 'turn_agent', 'actuate_door', 'pickndrop'),  # key-door
    ('move_agent', 'turn_agent', 'move_obstacles'),  # dynamic obstacles
    ('pickndrop', 'actuate_box', 'actuate_door', 'pickndrop'),
    (
        'move_agent',
        'turn_agent',
        'pickndrop',
        'move_obstacles',
        'actuate_door',
        'actuate_box',
        'teleport',
    ),
    ('teleport', 'actuate_box', 'pickndrop', 'move_agent', 'move_obstacles'),
]

# factory-built functions must behave like the registered ones
FACTORY_NAMES = [
    'move_agent',
    'turn_agent',
    'pickndrop',
    'actuate_door',
    'actuate_box',
]


# --------------------------------------------------------------------------
# the one-step check


def deep_objects(state):
    """every non-floor object on the grid, Box contents included, + held"""
    objects = []

    def visit(obj):
        if isinstance(obj, (Floor, NoneGridObject)):
            return
        objects.append(obj)
        if isinstance(obj, Box):
            visit(obj.content)

    for position in state.grid.area.positions():
        visit(state.grid[position])
    visit(state.agent.grid_object)
    return objects


def step_and_check(state, action, function, reference, seed, context):
    """runs `function` in place on a copy of `state`, checks C09 and the
    agreement with `reference`;  returns the next state"""

    random = 'move_obstacles' in context[0] or 'teleport' in context[0]
    expected = fast_copy(state)
    reference(expected, action, rng=make_rng(seed) if random else None)

    actual = fast_copy(state)
    before_ids = census_ids(actual)
    before_kinds = census_kinds(actual)
    before_deep = deep_objects(actual)  # also keeps the objects alive
    before_colors = [obj.color for obj in before_deep]
    scenery = {
        position: actual.grid[position]
        for position in actual.grid.area.positions()
        if not actual.grid[position].holdable
        and not isinstance(actual.grid[position], (Floor, MovingObstacle))
    }
    n_openings = (
        context[0].count('actuate_box') if action is Action.ACTUATE else 0
    )

    result = function(actual, action, rng=make_rng(seed) if random else None)
    check(result is None, 'transition functions return None', context)

    # 1. agreement with the reference, deeply
    got, want = describe_state(actual), describe_state(expected)
    check(got == want, 'differs from reference', context, got, want)

    # 2. conservation, independently of the reference: nothing appears, and
    # only opened boxes disappear (one per actuate_box at most)
    after_deep = deep_objects(actual)
    before_set = {id(obj) for obj in before_deep}
    after_set = {id(obj) for obj in after_deep}
    check(after_set <= before_set, 'object created', context)
    check(len(after_set) == len(after_deep), 'object duplicated', context)
    removed = [obj for obj in before_deep if id(obj) not in after_set]
    check(len(removed) <= n_openings, 'object destroyed', context, removed)
    check(all(isinstance(obj, Box) for obj in removed), 'destroyed', context)
    if not removed:
        check(census_ids(actual) == before_ids, 'identity census', context)
        check(census_kinds(actual) == before_kinds, 'kind census', context)
    for obj, color in zip(before_deep, before_colors):
        check(obj.color is color, 'recoloured', context)

    # 3. scenery never moves (an opened box is replaced where it stood)
    for position, obj in scenery.items():
        if not any(obj is box for box in removed):
            check(actual.grid[position] is obj, 'scenery moved', context)
        else:
            check(actual.grid[position] is not obj, 'box not opened', context)

    # 4. the top-level census never contains duplicates
    ids = census_ids(actual)
    check(len(ids) == len(set(ids)), 'duplicated object', context)
    return actual


# --------------------------------------------------------------------------
# part 1: exhaustive sweep over what can be in front / in the hand


def front_objects():
    return [
        Floor,
        Wall,
        Exit,
        lambda: Exit(Color.GREEN),
        lambda: Door(Door.Status.OPEN, Color.RED),
        lambda: Door(Door.Status.CLOSED, Color.NONE),
        lambda: Door(Door.Status.LOCKED, Color.RED),
        lambda: Door(Door.Status.LOCKED, Color.NONE),
        lambda: Door(Door.Status.LOCKED, Color.YELLOW),
        lambda: Key(Color.RED),
        lambda: Key(Color.NONE),
        lambda: Key(Color.YELLOW),
        MovingObstacle,
        lambda: Box(Key(Color.RED)),
        lambda: Box(Floor()),
        lambda: Box(Box(Key(Color.NONE))),
        lambda: Box(Wall()),
        lambda: Telepod(Color.BLUE),
        lambda: Beacon(Color.GREEN),
    ]


def held_objects():
    return [
        lambda: None,
        lambda: Key(Color.RED),
        lambda: Key(Color.NONE),
    ]


def sweep_front_and_hand():
    """agent in every cell of small non-square grids, every heading, all
    objects in the (possibly non-existent) cell in front, all held items"""
    n = 0
    for height, width in [(1, 1), (1, 2), (2, 1), (2, 3)]:
        for y, x in itt.product(range(height), range(width)):
            for orientation in Orientation:
                for make_front, make_held in itt.product(
                    front_objects(), held_objects()
                ):
                    grid = Grid.from_shape((height, width), factory=Floor)
                    # something holdable and something solid elsewhere, so that
                    # wrap-around indexing (grid[-1]) would be noticed
                    grid[height - 1, width - 1] = Key(Color.BLUE)
                    grid[0, width - 1] = Key(Color.GREEN)
                    grid[height - 1, 0] = Wall()
                    grid[0, 0] = Telepod(Color.BLUE)
                    agent = Agent(Position(y, x), orientation, make_held())
                    state = State(grid, agent)
                    front = ref_front(state)
                    if front is not None:
                        grid[front] = make_front()
                    elif make_front is not Floor:
                        continue  # nothing to vary in front: do it once
                    for names in COMPOSITIONS:
                        function, reference = make_pair(names)
                        for action in Action:
                            step_and_check(
                                state,
                                action,
                                function,
                                reference,
                                seed=n % 5,
                                context=(names, action, (height, width)),
                            )
                            n += 1
    return n


def sweep_factory():
    """functions obtained from the factory behave like the reference too"""
    n = 0
    for name in FACTORY_NAMES:
        function = tf.factory(name)
        reference = PAIRS[name][1]
        for orientation in [Orientation.F, Orientation.R]:
            for make_front, make_held in itt.product(
                front_objects(), held_objects()[:2]
            ):
                for y, x in [(0, 0), (1, 1), (0, 2)]:
                    grid = Grid.from_shape((3, 3), factory=Floor)
                    grid[1, 0] = Key(Color.GREEN)
                    grid[1, 2] = Wall()
                    state = State(
                        grid, Agent(Position(y, x), orientation, make_held())
                    )
                    front = ref_front(state)
                    if front is not None:
                        grid[front] = make_front()
                    for action in Action:
                        step_and_check(
                            state,
                            action,
                            function,
                            reference,
                            seed=0,
                            context=((name,), action, 'factory'),
                        )
                        n += 1
    return n


# --------------------------------------------------------------------------
# part 2: hard-coded expectations for pick-and-drop and the actuators


def hard_coded():
    def world(orientation, held, front):
        # 2 x 3 grid, agent in the middle of the top row
        grid = Grid.from_shape((2, 3), factory=Floor)
        grid[1, 0] = Wall()
        state = State(grid, Agent(Position(0, 1), orientation, held))
        cell = ref_front(state)
        if cell is not None and front is not None:
            grid[cell] = front
        return state, cell

    # pick into an empty hand leaves floor
    key = Key(Color.RED)
    state, cell = world(Orientation.R, None, key)
    tf.pickndrop(state, Action.PICK_N_DROP)
    check(state.agent.grid_object is key, 'pick')
    check(type(state.grid[cell]) is Floor, 'pick leaves floor')

    # drop on floor
    state, cell = world(Orientation.L, key, None)
    tf.pickndrop(state, Action.PICK_N_DROP)
    check(state.grid[cell] is key, 'drop')
    check(type(state.agent.grid_object) is NoneGridObject, 'drop empties hand')

    # swap
    other = Key(Color.NONE)
    state, cell = world(Orientation.B, key, other)
    tf.pickndrop(state, Action.PICK_N_DROP)
    check(state.grid[cell] is key and state.agent.grid_object is other, 'swap')

    # nothing else can be picked, overwritten or reached
    for front in [
        Wall(),
        Exit(),
        Door(Door.Status.OPEN, Color.RED),
        Door(Door.Status.LOCKED, Color.RED),
        Box(Key(Color.RED)),
        MovingObstacle(),
        Telepod(Color.RED),
        Beacon(Color.RED),
    ]:
        for held in [None, key]:
            state, cell = world(Orientation.R, held, front)
            tf.pickndrop(state, Action.PICK_N_DROP)
            check(state.grid[cell] is front, 'overwritten', front)
            check(
                state.agent.grid_object is held
                if held is not None
                else type(state.agent.grid_object) is NoneGridObject,
                'picked',
                front,
            )

    # facing beyond the grid (top border): nothing happens, no wrap-around to
    # the bottom row (which holds a key at [1, 1])
    for action, function in [
        (Action.PICK_N_DROP, tf.pickndrop),
        (Action.ACTUATE, tf.actuate_door),
        (Action.ACTUATE, tf.actuate_box),
    ]:
        for held in [None, key]:
            state, cell = world(Orientation.F, held, None)
            check(cell is None, 'beyond the grid')
            bottom = [Key(Color.BLUE), Door(Door.Status.CLOSED, Color.RED), None]
            bottom[2] = Box(Key(Color.GREEN))
            for below in bottom:
                state.grid[1, 1] = below
                before = describe_state(state)
                function(state, action)
                check(describe_state(state) == before, 'wrap-around', action)
                check(state.grid[1, 1] is below, 'wrap-around', action)

    # doors: (status, door colour, held) -> status afterwards
    S = Door.Status
    table = [
        (S.OPEN, Color.RED, None, S.OPEN),
        (S.CLOSED, Color.RED, None, S.OPEN),
        (S.LOCKED, Color.RED, None, S.LOCKED),
        (S.LOCKED, Color.RED, Key(Color.RED), S.OPEN),
        (S.LOCKED, Color.RED, Key(Color.NONE), S.LOCKED),
        (S.LOCKED, Color.NONE, Key(Color.NONE), S.OPEN),
        (S.LOCKED, Color.NONE, Key(Color.RED), S.LOCKED),
        (S.CLOSED, Color.NONE, Key(Color.RED), S.OPEN),
        (S.OPEN, Color.NONE, Key(Color.NONE), S.OPEN),
    ]
    for status, color, held, status_after in table:
        for orientation in [Orientation.L, Orientation.R, Orientation.B]:
            door = Door(status, color)
            state, cell = world(orientation, held, door)
            tf.actuate_door(state, Action.ACTUATE)
            check(state.grid[cell] is door, 'door replaced')
            check(door.state is status_after, 'door status', status, color, held)
            check(door.color is color, 'door recoloured')
            check(
                state.agent.grid_object is held
                if held is not None
                else type(state.agent.grid_object) is NoneGridObject,
                'key consumed',
            )
            # other actions never touch the door
            door = Door(status, color)
            state, cell = world(orientation, held, door)
            for action in Action:
                if action is not Action.ACTUATE:
                    tf.actuate_door(state, action)
                    check(door.state is status, 'door touched by', action)

    # boxes: replaced by the very object they contain
    for content in [Key(Color.RED), Floor(), Wall(), Box(Key(Color.NONE))]:
        state, cell = world(Orientation.R, None, Box(content))
        tf.actuate_box(state, Action.ACTUATE)
        check(state.grid[cell] is content, 'box content', content)


# --------------------------------------------------------------------------
# part 3: histories of the shipped key-door and dynamic-obstacles environments


def make_keydoor(shape):
    object_types = [Wall, Floor, Exit, Door, Key]
    colors = [Color.NONE, Color.YELLOW]
    area = Area((-6, 0), (-3, 3))
    names = ('move_agent', 'turn_agent', 'actuate_door', 'pickndrop')
    function, reference = make_pair(names)
    env = GridWorld(
        StateSpace(shape, object_types, colors),
        ActionSpace(list(Action)),
        ObservationSpace(Shape(area.height, area.width), object_types, colors),
        reset_functions.factory('keydoor', shape=shape),
        partial(
            tf.chain,
            transition_functions=[tf.factory(name) for name in names],
        ),
        observation_functions.factory('partially_occluded', area=area),
        reward_functions.factory('living_reward', reward=-0.05),
        terminating_functions.factory('reach_exit'),
    )
    return env, names, reference


def make_obstacles(shape, num_obstacles, random_agent):
    object_types = [Wall, Floor, Exit, MovingObstacle]
    colors = [Color.NONE]
    area = Area((-6, 0), (-3, 3))
    names = ('move_agent', 'turn_agent', 'move_obstacles')
    function, reference = make_pair(names)
    actions = [a for a in Action if a.is_move() or a.is_turn()]
    env = GridWorld(
        StateSpace(shape, object_types, colors),
        ActionSpace(actions),
        ObservationSpace(Shape(area.height, area.width), object_types, colors),
        reset_functions.factory(
            'dynamic_obstacles',
            shape=shape,
            num_obstacles=num_obstacles,
            random_agent=random_agent,
        ),
        partial(
            tf.chain,
            transition_functions=[tf.factory(name) for name in names],
        ),
        observation_functions.factory('partially_occluded', area=area),
        reward_functions.factory('living_reward', reward=-0.05),
        terminating_functions.factory(
            'reduce_any',
            terminating_functions=[
                terminating_functions.factory('reach_exit'),
                terminating_functions.factory('bump_moving_obstacle'),
                terminating_functions.factory('bump_into_wall'),
            ],
        ),
    )
    return env, names, reference


def keydoor_policy(rng, actions, t):
    # biased towards interaction so that keys get picked and doors opened
    if t % 3 == 0:
        return Action.PICK_N_DROP if rng.random() < 0.5 else Action.ACTUATE
    return actions[rng.integers(len(actions))]


def run_history(env, seed, length, policy_seed):
    """returns the list of deep state descriptions of one history and checks
    the census at every step"""
    env.set_seed(seed)
    env.reset()
    policy_rng = make_rng(policy_seed)
    actions = env.action_space.actions
    history = [describe_state(env.state)]
    kinds = census_kinds(env.state)
    n_objects = len(census_ids(env.state))
    scenery = {
        position.yx: describe(env.state.grid[position])[0]
        for position in env.state.grid.area.positions()
        if isinstance(env.state.grid[position], (Wall, Exit, Door))
    }
    for t in range(length):
        if Action.PICK_N_DROP in actions:
            action = keydoor_policy(policy_rng, actions, t)
        else:
            action = actions[policy_rng.integers(len(actions))]
        state = env.state
        before = describe_state(state)
        env.step(action)
        check(describe_state(state) == before, 'step mutated its input')
        check(census_kinds(env.state) == kinds, 'history census', seed, t)
        ids = census_ids(env.state)
        check(len(ids) == n_objects == len(set(ids)), 'history count', seed, t)
        for yx, name in scenery.items():
            check(
                describe(env.state.grid[yx])[0] == name,
                'history scenery',
                seed,
                t,
            )
        check(env.state_space.contains(env.state), 'state space', seed, t)
        history.append(describe_state(env.state))
    return history


def replay_with_reference(env, reference, seed, length, policy_seed):
    """replays the same history through the embedded reference dynamics"""
    reset_rng = make_rng(seed)
    # GridWorld uses one generator for reset, transitions and observations;
    # no observation is requested in run_history, so the stream is
    # reset + transitions only
    state = env._reset_function(rng=reset_rng)
    policy_rng = make_rng(policy_seed)
    actions = env.action_space.actions
    history = [describe_state(state)]
    for t in range(length):
        if Action.PICK_N_DROP in actions:
            action = keydoor_policy(policy_rng, actions, t)
        else:
            action = actions[policy_rng.integers(len(actions))]
        state = fast_copy(state)
        reference(state, action, rng=reset_rng)
        history.append(describe_state(state))
    return history


def histories():
    n = 0
    specs = [
        (make_keydoor, (Shape(5, 5),)),
        (make_keydoor, (Shape(7, 7),)),
        (make_keydoor, (Shape(9, 9),)),
        (make_keydoor, (Shape(4, 5),)),  # smallest legal, non-square
        (make_keydoor, (Shape(4, 8),)),
        (make_keydoor, (Shape(8, 5),)),
        (make_obstacles, (Shape(5, 5), 1, False)),
        (make_obstacles, (Shape(7, 7), 2, False)),
        (make_obstacles, (Shape(4, 7), 3, True)),
        (make_obstacles, (Shape(6, 4), 0, True)),  # empty list of obstacles
        (make_obstacles, (Shape(4, 4), 2, False)),  # crowded: no free cell
        (make_obstacles, (Shape(5, 4), 3, False)),  # crowded: one free cell
    ]
    for make, args in specs:
        env, names, reference = make(*args)
        twin, _, _ = make(*args)  # a second environment in the same process
        for seed in range(4):
            length = 60
            first = run_history(env, seed, length, policy_seed=100 + seed)
            # the embedded reference dynamics produce the very same history
            expected = replay_with_reference(
                env, reference, seed, length, policy_seed=100 + seed
            )
            check(first == expected, 'history differs from reference', args, seed)
            # re-seeding reproduces the history, also in another instance and
            # with another history run in between
            run_history(twin, seed + 17, 10, policy_seed=3)
            again = run_history(twin, seed, length, policy_seed=100 + seed)
            check(first == again, 're-seeding', args, seed)
            n += 1
    return n


# --------------------------------------------------------------------------
# part 4: the helpers introduced by the change, when present


def hand_sequences():
    """repeated PICK_N_DROP calls on the same state: the very same instances
    travel between the hand and the cell in front, nothing else changes"""
    red, none, blue = Key(Color.RED), Key(Color.NONE), Key(Color.BLUE)
    for orientation, name in [
        (Orientation.R, 'RIGHT'),
        (Orientation.L, 'LEFT'),
        (Orientation.B, 'BACKWARD'),
    ]:
        grid = Grid.from_shape((2, 3), factory=Floor)
        wall = Wall()
        grid[1, 0] = wall
        grid[1, 2] = blue
        state = State(grid, Agent(Position(0, 1), orientation))
        cell = ref_front(state)
        if orientation is Orientation.B:
            grid[1, 2] = Floor()
            blue_cell = None
        else:
            blue_cell = (1, 2)
        grid[cell] = red
        empty = f'Agent(Position(y=0, x=1), Orientation.{name})'
        holding = (
            f'Agent(Position(y=0, x=1), Orientation.{name}, Key(Color.%s))'
        )
        check(repr(state.agent) == empty, 'repr', repr(state.agent))

        for _ in range(3):
            # pick
            tf.pickndrop(state, Action.PICK_N_DROP)
            check(state.agent.grid_object is red, 'sequence pick')
            check(type(state.grid[cell]) is Floor, 'sequence pick floor')
            check(repr(state.agent) == holding % 'RED', 'repr')
            # drop
            tf.pickndrop(state, Action.PICK_N_DROP)
            check(state.grid[cell] is red, 'sequence drop')
            check(type(state.agent.grid_object) is NoneGridObject, 'sequence')
            check(repr(state.agent) == empty, 'repr')
            # empty hand on floor: still floor, still empty
            state.grid[cell] = Floor()
            tf.pickndrop(state, Action.PICK_N_DROP)
            check(type(state.grid[cell]) is Floor, 'nothing from nothing')
            check(type(state.agent.grid_object) is NoneGridObject, 'nothing')
            check(repr(state.agent) == empty, 'repr')
            state.grid[cell] = red
            # pick, then swap twice with another key
            tf.pickndrop(state, Action.PICK_N_DROP)
            state.grid[cell] = none
            tf.pickndrop(state, Action.PICK_N_DROP)
            check(state.grid[cell] is red, 'sequence swap')
            check(state.agent.grid_object is none, 'sequence swap')
            check(repr(state.agent) == holding % 'NONE', 'repr')
            tf.pickndrop(state, Action.PICK_N_DROP)
            check(state.grid[cell] is none, 'sequence swap back')
            check(state.agent.grid_object is red, 'sequence swap back')
            # every other action leaves hand and grid alone
            for action in Action:
                if action is not Action.PICK_N_DROP:
                    tf.pickndrop(state, action)
                    check(state.grid[cell] is none, 'other action', action)
                    check(state.agent.grid_object is red, 'other', action)
            # back to the start of the loop
            tf.pickndrop(state, Action.PICK_N_DROP)
            check(state.agent.grid_object is none, 'sequence')
            state.agent.grid_object = NoneGridObject()
            check(state.grid[cell] is red, 'sequence')
            # the rest of the grid never noticed
            check(state.grid[1, 0] is wall, 'sequence scenery')
            if blue_cell is not None:
                check(state.grid[blue_cell] is blue, 'sequence other key')

    # agent equality / hashing keep their meaning
    a = Agent(Position(1, 2), Orientation.F)
    b = Agent(Position(1, 2), Orientation.F, NoneGridObject())
    c = Agent(Position(1, 2), Orientation.F, Key(Color.RED))
    d = Agent(Position(1, 2), Orientation.F, Key(Color.RED))
    e = Agent(Position(1, 2), Orientation.F, Key(Color.NONE))
    check(a == b and hash(a) == hash(b), 'agent eq')
    check(c == d and hash(c) == hash(d), 'agent eq')
    check(a != c and c != e, 'agent ne')
    check(fast_copy(c) == c and fast_copy(a) == a, 'agent pickles')


def optional_helpers():
    if not hasattr(Agent, 'exchange'):
        return 'absent (pristine tree)'
    key, other = Key(Color.RED), Key(Color.NONE)
    agent = Agent(Position(0, 0), Orientation.L)
    check(agent.is_holding is False, 'is_holding')
    check(agent.holds(Key) is False, 'holds')
    check(agent.holds(NoneGridObject) is True, 'holds like isinstance')
    check(agent.exchange(None) is None, 'nothing for nothing')
    check(type(agent.grid_object) is NoneGridObject, 'still empty')
    check(agent.exchange() is None, 'default is empty hands')
    check(agent.exchange(key) is None, 'take')
    check(agent.grid_object is key and agent.is_holding, 'took')
    check(agent.holds(Key) and agent.holds((Door, Key)), 'holds')
    check(not agent.holds(Door) and not agent.holds(NoneGridObject), 'holds')
    check(agent.exchange(other) is key, 'swap returns the old object')
    check(agent.grid_object is other, 'swap keeps the new object')
    check(agent.exchange(None) is other, 'give')
    check(type(agent.grid_object) is NoneGridObject, 'gave')
    check(not agent.is_holding, 'gave')
    check(agent.position == Position(0, 0), 'pose untouched')
    check(agent.orientation is Orientation.L, 'pose untouched')
    # an Agent built with an explicit NoneGridObject is empty-handed too
    agent = Agent(Position(0, 0), Orientation.L, NoneGridObject())
    check(not agent.is_holding and agent.exchange(key) is None, 'explicit none')
    return 'present'


def main():
    hard_coded()
    hand_sequences()
    n_sweep = sweep_front_and_hand()
    n_factory = sweep_factory()
    n_histories = histories()
    helpers = optional_helpers()
    print(
        f'OK: {CHECKS} checks; sweep={n_sweep} factory={n_factory} '
        f'histories={n_histories} helpers={helpers}'
    )


if __name__ == '__main__':
    main()
