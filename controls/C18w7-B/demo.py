"""Check program for commit B (optional `distance` for the displacement helpers).

Run as:  cd /tmp/wt7-C18 && /venv/bin/python -W ignore _seed/B/demo.py

The default behaviour of `Position.from_orientation`, `Agent.front` and
`get_next_position`, and of the components built on top of them, is compared
against an independent re-implementation using plain integer arithmetic
(orientations are numbers of clockwise quarter turns).  The new keyword is
exercised only when the running tree offers it.
"""
import os
import sys

sys.path.insert(0, os.getcwd())

import inspect
import itertools as itt
import random

from gym_gridverse.action import Action
from gym_gridverse.agent import Agent
from gym_gridverse.envs import reward_functions as reward_fs
from gym_gridverse.envs import transition_functions as transition_fs
from gym_gridverse.envs.utils import get_next_position
from gym_gridverse.envs.yaml.factory import factory_env_from_data
from gym_gridverse.geometry import Area, Orientation, Position, Transform
from gym_gridverse.grid import Grid
from gym_gridverse.grid_object import (
    Box,
    Color,
    Door,
    Exit,
    Floor,
    Key,
    NoneGridObject,
    Wall,
)
from gym_gridverse.state import State

# ---------------------------------------------------------------- reference

TURNS = {
    Orientation.FORWARD: 0,
    Orientation.RIGHT: 1,
    Orientation.BACKWARD: 2,
    Orientation.LEFT: 3,
}
HEADINGS = [(-1, 0), (0, 1), (1, 0), (0, -1)]  # (dy, dx)
MOVES = {
    Action.MOVE_FORWARD: 0,
    Action.MOVE_RIGHT: 1,
    Action.MOVE_BACKWARD: 2,
    Action.MOVE_LEFT: 3,
}
TURN_ACTIONS = {Action.TURN_LEFT: 3, Action.TURN_RIGHT: 1}
ORIENTATION_OF_TURNS = {k: o for o, k in TURNS.items()}


def ref_front_yx(y, x, orientation, distance=1):
    dy, dx = HEADINGS[TURNS[orientation]]
    return y + distance * dy, x + distance * dx


def ref_next_yx(y, x, orientation, action, distance=1):
    if action not in MOVES:
        return y, x
    dy, dx = HEADINGS[(TURNS[orientation] + MOVES[action]) % 4]
    return y + distance * dy, x + distance * dx


ALL_ORIENTATIONS = [
    Orientation.FORWARD,
    Orientation.BACKWARD,
    Orientation.LEFT,
    Orientation.RIGHT,
    Orientation.F,
    Orientation.B,
    Orientation.L,
    Orientation.R,
]
ALL_ACTIONS = list(Action)
assert len(ALL_ACTIONS) == 8

HAS_DISTANCE = all(
    'distance' in inspect.signature(f).parameters
    for f in [Position.from_orientation, Agent.front, get_next_position]
)
DISTANCES = [1, 0, 2, 3, 7, -1, -4, 10**20, True]

checks = 0


class Unhashable:
    __hash__ = None


# ------------------------------------------------ 1. Position.from_orientation

units = {}
for orientation in ALL_ORIENTATIONS:
    unit = Position.from_orientation(orientation)
    assert type(unit) is Position
    assert unit.yx == HEADINGS[TURNS[orientation]]
    # the very same object at every call (callers may rely on identity)
    assert Position.from_orientation(orientation) is unit
    units[orientation] = unit
    checks += 1
assert len({id(unit) for unit in units.values()}) == 4

for bad in [None, 'FORWARD', 0, 1.5, Position(-1, 0), (0, 1), Action.MOVE_LEFT]:
    try:
        Position.from_orientation(bad)
    except TypeError as error:
        assert isinstance(error.__cause__, KeyError)
    else:
        raise AssertionError(('should raise TypeError', bad))
    checks += 1
for bad in [[], {}, Unhashable()]:
    try:
        Position.from_orientation(bad)
    except TypeError as error:
        assert error.__cause__ is None  # straight from the lookup
    else:
        raise AssertionError(('should raise TypeError', bad))
    checks += 1

if HAS_DISTANCE:
    for orientation in ALL_ORIENTATIONS:
        for distance in DISTANCES:
            result = Position.from_orientation(orientation, distance=distance)
            dy, dx = HEADINGS[TURNS[orientation]]
            assert type(result) is Position
            assert result.yx == (distance * dy, distance * dx)
            if distance == 1:
                assert result is units[orientation]
            # the distance is linear and turns with the orientation
            assert result == orientation * Position(-distance, 0)
            assert -result == Position.from_orientation(
                orientation, distance=-distance
            )
            checks += 1
        # the unit displacements are not disturbed by other distances
        assert Position.from_orientation(orientation) is units[orientation]
        assert units[orientation].yx == HEADINGS[TURNS[orientation]]
    try:
        Position.from_orientation(None, distance=3)
    except TypeError:
        pass
    else:
        raise AssertionError('should raise TypeError')
    try:
        # keyword only
        Position.from_orientation(Orientation.F, 3)
    except TypeError:
        pass
    else:
        raise AssertionError('should raise TypeError')

# ------------------------------------------------------------ 2. Agent.front

coordinates = list(range(-5, 6)) + [10**30, -(10**30), 2**63, -(2**63) - 1]
for y, x in itt.product(coordinates, repeat=2):
    for orientation in ALL_ORIENTATIONS:
        held = Key(Color.RED)
        agent = Agent(Position(y, x), orientation, held)
        transform = agent.transform
        position = agent.position

        front = agent.front()
        assert type(front) is Position
        assert front.yx == ref_front_yx(y, x, orientation)
        assert front is not position
        assert all(front is not unit for unit in units.values())
        assert front == agent.front()
        # agrees with the pose algebra and with the movement helper
        assert front == transform * Position(-1, 0)
        assert front == get_next_position(
            position, orientation, Action.MOVE_FORWARD
        )
        assert -transform * front == Position(-1, 0)
        # the agent is untouched
        assert agent.transform is transform
        assert agent.position is position
        assert agent.orientation is orientation
        assert agent.grid_object is held
        checks += 1

        if HAS_DISTANCE:
            for distance in DISTANCES:
                front = agent.front(distance=distance)
                assert type(front) is Position
                assert front.yx == ref_front_yx(y, x, orientation, distance)
                assert front == transform * Position(-distance, 0)
                assert agent.transform is transform
                assert agent.position is position
                checks += 1

# ------------------------------------------------------ 3. get_next_position

for y, x in itt.product(coordinates, repeat=2):
    position = Position(y, x)
    for orientation in ALL_ORIENTATIONS:
        for action in ALL_ACTIONS:
            result = get_next_position(position, orientation, action)
            assert type(result) is Position
            assert result.yx == ref_next_yx(y, x, orientation, action)
            if action in MOVES:
                assert result is not position
                assert all(result is not unit for unit in units.values())
                move_orientation = ORIENTATION_OF_TURNS[MOVES[action]]
                assert result == Transform(
                    position, orientation
                ) * Position.from_orientation(move_orientation)
            else:
                assert result is position
            checks += 1

            if HAS_DISTANCE:
                for distance in DISTANCES:
                    result = get_next_position(
                        position, orientation, action, distance=distance
                    )
                    assert type(result) is Position
                    assert result.yx == ref_next_yx(
                        y, x, orientation, action, distance
                    )
                    if action not in MOVES:
                        assert result is position
                    elif isinstance(distance, int) and abs(distance) < 10:
                        # `distance` cells is `distance` successive single moves
                        stepwise = position
                        step_action = action
                        if distance < 0:
                            step_action = {
                                Action.MOVE_FORWARD: Action.MOVE_BACKWARD,
                                Action.MOVE_BACKWARD: Action.MOVE_FORWARD,
                                Action.MOVE_LEFT: Action.MOVE_RIGHT,
                                Action.MOVE_RIGHT: Action.MOVE_LEFT,
                            }[action]
                        for _ in range(abs(int(distance))):
                            stepwise = get_next_position(
                                stepwise, orientation, step_action
                            )
                        assert result == stepwise
                    checks += 1

# unusual arguments keep working / failing the same way
area = Area((-2, 3), (4, 4))
for orientation in ALL_ORIENTATIONS:
    for action in ALL_ACTIONS:
        result = get_next_position(area, orientation, action)
        if action in MOVES:
            dy, dx = HEADINGS[(TURNS[orientation] + MOVES[action]) % 4]
            assert type(result) is Area
            assert result.ys == (-2 + dy, 3 + dy)
            assert result.xs == (4 + dx, 4 + dx)
        else:
            assert result is area

        pose = Transform(Position(100, -100), orientation)
        result = get_next_position(Position(3, -4), pose, action)
        assert result.yx == ref_next_yx(3, -4, orientation, action)
        checks += 1

for bad in [None, 'FORWARD', 0, 1.5, [], {}, Unhashable(), Position(0, 1), (0, 1)]:
    for action in ALL_ACTIONS:
        position = Position(2, 2)
        if action in MOVES:
            try:
                get_next_position(position, bad, action)
            except TypeError:
                pass
            else:
                raise AssertionError(('should raise TypeError', bad, action))
        else:
            assert get_next_position(position, bad, action) is position
        checks += 1
for bad in [None, 'MOVE_FORWARD', 0, Orientation.F]:
    position = Position(2, 2)
    assert get_next_position(position, Orientation.F, bad) is position
    checks += 1
for bad in [[], {}, Unhashable()]:
    try:
        get_next_position(Position(2, 2), Orientation.F, bad)
    except TypeError:
        pass
    else:
        raise AssertionError(('should raise TypeError', bad))
    checks += 1

# --------------------------------- 4. components built on top of the helpers

move_agent = transition_fs.factory('move_agent')
pickndrop = transition_fs.factory('pickndrop')
actuate_door = transition_fs.factory('actuate_door')
actuate_box = transition_fs.factory('actuate_box')
actuate_door_reward = reward_fs.factory(
    'actuate_door', reward_open=3.0, reward_close=-2.0
)
bump_reward = reward_fs.factory('bump_into_wall', reward=-7.5)

SHAPES = [
    (1, 1),
    (1, 2),
    (2, 1),
    (1, 4),
    (4, 1),
    (2, 2),
    (2, 3),
    (3, 2),
    (3, 3),
    (3, 6),
    (6, 3),
    (4, 5),
]

FACTORIES = {
    'F': Floor,
    'W': Wall,
    'E': Exit,
    'K': lambda: Key(Color.BLUE),
    'C': lambda: Door(Door.Status.CLOSED, Color.RED),
    'L': lambda: Door(Door.Status.LOCKED, Color.RED),
    'O': lambda: Door(Door.Status.OPEN, Color.RED),
    'B': lambda: Box(Key(Color.GREEN)),
}
HOLDABLE = {'K'}


def make_state(kinds, y, x, orientation, held):
    grid = Grid([[FACTORIES[k]() for k in row] for row in kinds])
    held_object = {
        None: None,
        'red': Key(Color.RED),
        'blue': Key(Color.BLUE),
    }[held]
    return State(grid, Agent(Position(y, x), orientation, held_object))


def kind_of(obj):
    if isinstance(obj, Door):
        return {
            Door.Status.OPEN: 'O',
            Door.Status.CLOSED: 'C',
            Door.Status.LOCKED: 'L',
        }[obj.state]
    return {Floor: 'F', Wall: 'W', Exit: 'E', Key: 'K', Box: 'B'}[type(obj)]


prng = random.Random(4321)
for height, width in SHAPES:
    for _ in range(4):
        kinds = [
            [prng.choice('FFFWEKCLOB') for _ in range(width)]
            for _ in range(height)
        ]
        for y, x in itt.product(range(height), range(width)):
            for orientation in TURNS:
                fy, fx = ref_front_yx(y, x, orientation)
                front_inside = 0 <= fy < height and 0 <= fx < width
                front_kind = kinds[fy][fx] if front_inside else None

                for action in ALL_ACTIONS:
                    for held in [None, 'red', 'blue']:
                        # ---- move_agent
                        state = make_state(kinds, y, x, orientation, held)
                        ny, nx = ref_next_yx(y, x, orientation, action)
                        inside = 0 <= ny < height and 0 <= nx < width
                        # walls, boxes and doors which are not open block
                        blocking = inside and kinds[ny][nx] in 'WCLB'
                        moved = action in MOVES and inside and not blocking
                        assert bump_reward(state, action, state) == (
                            -7.5 if inside and kinds[ny][nx] == 'W' else 0.0
                        )
                        move_agent(state, action)
                        assert state.agent.position.yx == (
                            (ny, nx) if moved else (y, x)
                        )
                        assert state.agent.orientation is orientation
                        assert [
                            [kind_of(obj) for obj in row]
                            for row in state.grid.objects
                        ] == kinds
                        checks += 1

                        # ---- pickndrop
                        state = make_state(kinds, y, x, orientation, held)
                        held_before = state.agent.grid_object
                        objects_before = [list(r) for r in state.grid.objects]
                        pickndrop(state, action)
                        applies = (
                            action is Action.PICK_N_DROP
                            and front_inside
                            and front_kind in 'FK'
                        )
                        for yy, xx in itt.product(range(height), range(width)):
                            if applies and (yy, xx) == (fy, fx):
                                continue
                            assert (
                                state.grid[yy, xx] is objects_before[yy][xx]
                            )
                        if applies:
                            if held is None:
                                assert type(state.grid[fy, fx]) is Floor
                            else:
                                assert state.grid[fy, fx] is held_before
                            if front_kind == 'K':
                                assert (
                                    state.agent.grid_object
                                    is objects_before[fy][fx]
                                )
                            else:
                                assert isinstance(
                                    state.agent.grid_object, NoneGridObject
                                )
                        else:
                            assert state.agent.grid_object is held_before
                        assert state.agent.position.yx == (y, x)
                        checks += 1

                        # ---- actuate_door (+ its reward)
                        state = make_state(kinds, y, x, orientation, held)
                        next_state = make_state(kinds, y, x, orientation, held)
                        actuate_door(next_state, action)
                        expected = [list(row) for row in kinds]
                        opened = False
                        if action is Action.ACTUATE and front_inside:
                            if front_kind == 'C' or (
                                front_kind == 'L' and held == 'red'
                            ):
                                expected[fy][fx] = 'O'
                                opened = True
                        assert [
                            [kind_of(obj) for obj in row]
                            for row in next_state.grid.objects
                        ] == expected
                        assert actuate_door_reward(
                            state, action, next_state
                        ) == (3.0 if opened else 0.0)
                        checks += 1

                        # ---- actuate_box
                        state = make_state(kinds, y, x, orientation, held)
                        objects_before = [list(r) for r in state.grid.objects]
                        actuate_box(state, action)
                        applies = (
                            action is Action.ACTUATE
                            and front_inside
                            and front_kind == 'B'
                        )
                        for yy, xx in itt.product(range(height), range(width)):
                            if applies and (yy, xx) == (fy, fx):
                                assert (
                                    state.grid[yy, xx]
                                    is objects_before[yy][xx].content
                                )
                            else:
                                assert (
                                    state.grid[yy, xx]
                                    is objects_before[yy][xx]
                                )
                        checks += 1

# --------------------------------------------------- 5. whole environments


def env_data(reset_function, transition_names):
    return {
        'state_space': {
            'objects': ['Wall', 'Floor', 'Exit'],
            'colors': ['NONE'],
        },
        'observation_space': {
            'objects': ['Wall', 'Floor', 'Exit'],
            'colors': ['NONE'],
        },
        'reset_function': reset_function,
        'transition_functions': [{'name': n} for n in transition_names],
        'reward_functions': [
            {'name': 'bump_into_wall', 'reward': -1.0},
            {'name': 'living_reward', 'reward': -0.25},
        ],
        'observation_function': {
            'name': 'partially_occluded',
            'area': [[-4, 0], [-2, 2]],
        },
        'terminating_function': {'name': 'bump_into_wall'},
    }


ENVS = [
    env_data(
        {
            'name': 'crossing',
            'shape': [7, 9],
            'num_rivers': 2,
            'object_type': 'Wall',
        },
        ['move_agent', 'turn_agent', 'pickndrop'],
    ),
    env_data(
        {
            'name': 'crossing',
            'shape': [11, 5],
            'num_rivers': 1,
            'object_type': 'Wall',
        },
        ['turn_agent', 'move_agent'],
    ),
    env_data(
        {
            'name': 'empty',
            'shape': [4, 8],
            'random_agent': True,
            'random_exit': True,
        },
        ['move_agent', 'turn_agent', 'actuate_door'],
    ),
]

for data_index, data in enumerate(ENVS):
    env_a = factory_env_from_data(data)
    env_b = factory_env_from_data(data)
    for seed in range(12):
        env_a.set_seed(seed)
        env_b.set_seed(seed)
        env_a.reset()
        env_b.reset()
        prng = random.Random(1000 * data_index + seed)

        for _ in range(60):
            state = env_a.state
            assert env_b.state == state
            height, width = state.grid.shape.as_tuple
            y, x = state.agent.position.yx
            orientation = state.agent.orientation
            # no PICK_N_DROP: dropping nothing on floor is a no-op anyway, but
            # keep the reference simulation about movement only
            action = prng.choice(ALL_ACTIONS[:7])

            ny, nx = ref_next_yx(y, x, orientation, action)
            inside = 0 <= ny < height and 0 <= nx < width
            blocked = inside and isinstance(state.grid[ny, nx], Wall)
            moved = action in MOVES and inside and not blocked
            expected_yx = (ny, nx) if moved else (y, x)
            expected_orientation = ORIENTATION_OF_TURNS[
                (TURNS[orientation] + TURN_ACTIONS.get(action, 0)) % 4
            ]
            expected_reward = -0.25 + (-1.0 if blocked else 0.0)

            reward_a, terminal_a = env_a.step(action)
            reward_b, terminal_b = env_b.step(action)
            assert (reward_a, terminal_a) == (reward_b, terminal_b)
            assert reward_a == expected_reward
            assert terminal_a is blocked
            assert env_a.state.agent.position.yx == expected_yx
            assert env_a.state.agent.orientation is expected_orientation
            assert env_a.state.grid == state.grid
            assert state.agent.position.yx == (y, x)
            assert state.agent.orientation is orientation
            checks += 1

            if terminal_a:
                break

print(
    f'demo B: {checks} checks passed '
    f'(distance keyword {"present" if HAS_DISTANCE else "absent"})'
)
