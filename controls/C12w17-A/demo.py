"""Demo for change A (GridWorld wiring): exits 0 on the pristine tree and with the patch.

Checks, for GridWorld.functional_reset / functional_step / functional_observation / set_seed:

1. with spy components: exactly the same calls, in the same order, on the same objects, with
   the same positional / keyword arguments, the same debug checks and the same error messages;
2. with the real components of the shipped configurations (rebuilt through the python API): the
   results agree with a reference implementation of the wiring embedded in this file, step by
   step, including the state of the random stream;
3. property C12 along the trajectories: the exit reward is paid on exactly the steps on which
   exit-termination fires, composite reward == sum of the parts, composite termination == any
   of the parts.
"""
import copy
import itertools as itt
import os
import sys

sys.path.insert(0, os.getcwd())  # run from the worktree root

from gym_gridverse import debugging
from gym_gridverse.action import Action
from gym_gridverse.agent import Agent
from gym_gridverse.envs import observation_functions as observation_fs
from gym_gridverse.envs import reset_functions as reset_fs
from gym_gridverse.envs import reward_functions as reward_fs
from gym_gridverse.envs import terminating_functions as terminating_fs
from gym_gridverse.envs import transition_functions as transition_fs
from gym_gridverse.envs.gridworld import GridWorld
from gym_gridverse.geometry import Area, Orientation, Position, Shape
from gym_gridverse.grid import Grid
from gym_gridverse.grid_object import (
    Beacon,
    Color,
    Door,
    Exit,
    Floor,
    Key,
    MovingObstacle,
    Telepod,
    Wall,
)
from gym_gridverse.rng import make_rng
from gym_gridverse.spaces import ActionSpace, ObservationSpace, StateSpace
from gym_gridverse.state import State

n_checks = 0


def check(condition, message):
    global n_checks
    n_checks += 1
    if not condition:
        print('FAIL:', message)
        sys.exit(1)


# --------------------------------------------------------------------------------------
# part 1: spies
# --------------------------------------------------------------------------------------


class Log:
    def __init__(self):
        self.events = []

    def add(self, *event):
        self.events.append(event)


class SpySpace:
    """a space whose `contains` is logged and whose answers are scripted"""

    def __init__(self, log, name, answers=None):
        self.log = log
        self.name = name
        self.answers = list(answers) if answers is not None else None

    def contains(self, *args, **kwargs):
        self.log.add(self.name, args, kwargs)
        if self.answers is None:
            return True
        return self.answers.pop(0)


def small_state():
    grid = Grid.from_shape((3, 4))
    grid[1, 2] = Exit()
    return State(grid, Agent(Position(1, 1), Orientation.R))


def make_spy_env(log, *, state_answers=None, action_answers=None, obs_answers=None):
    the_state = small_state()
    box = {'reset_state': the_state}

    def reset_function(*args, **kwargs):
        log.add('reset', args, kwargs)
        return box['reset_state']

    def transition_function(*args, **kwargs):
        log.add('transition', args, kwargs)
        state, action = args
        box['transition_arg'] = state
        # in-place change, to tell the copy from the original
        state.agent.position = Position(1, 2)

    def observation_function(*args, **kwargs):
        log.add('observation', args, kwargs)
        box['observation'] = object()
        return box['observation']

    def reward_function(*args, **kwargs):
        log.add('reward', args, kwargs)
        box['reward'] = object()
        return box['reward']

    def termination_function(*args, **kwargs):
        log.add('termination', args, kwargs)
        box['terminal'] = object()
        return box['terminal']

    env = GridWorld(
        SpySpace(log, 'state_space', state_answers),
        SpySpace(log, 'action_space', action_answers),
        SpySpace(log, 'observation_space', obs_answers),
        reset_function,
        transition_function,
        observation_function,
        reward_function,
        termination_function,
    )
    return env, box


def names(log):
    return [event[0] for event in log.events]


def part_spies():
    for debug, seeded in itt.product([True, False], [True, False]):
        debugging.reset_gv_debug(debug)

        # ---------------- functional_reset
        log = Log()
        env, box = make_spy_env(log)
        if seeded:
            env.set_seed(13)
            check(env._rng is not None, 'set_seed makes a generator')
        else:
            check(env._rng is None, 'no generator before set_seed')
        rng = env._rng

        state = env.functional_reset()
        check(state is box['reset_state'], 'functional_reset returns the reset state itself')
        expected = ['reset'] + (['state_space'] if debug else [])
        check(names(log) == expected, f'reset: calls {names(log)} != {expected}')
        check(log.events[0][1] == () and list(log.events[0][2]) == ['rng'], 'reset(rng=...)')
        check(log.events[0][2]['rng'] is rng, 'reset gets the env generator')
        if debug:
            check(
                log.events[1][1] == (state,) and log.events[1][1][0] is state and not log.events[1][2],
                'state_space.contains(state)',
            )

        # ---------------- functional_step
        log.events.clear()
        state = small_state()
        action = Action.MOVE_FORWARD
        result = env.functional_step(state, action)
        check(type(result) is tuple and len(result) == 3, 'step returns a 3-tuple')
        next_state, reward, terminal = result
        expected = (
            (['state_space'] if debug else [])
            + ['action_space', 'transition']
            + (['state_space'] if debug else [])
            + ['reward', 'termination']
        )
        check(names(log) == expected, f'step: calls {names(log)} != {expected}')
        events = {name: event for name, *event in reversed(log.events)}  # first of each
        if debug:
            first_contains = log.events[0]
            check(first_contains[1][0] is state and len(first_contains[1]) == 1, 'contains(state) first')
            second_contains = [e for e in log.events if e[0] == 'state_space'][1]
            check(second_contains[1][0] is next_state, 'contains(next_state) second')
        check(events['action_space'][0] == (action,) and not events['action_space'][1], 'action check')
        t_args, t_kwargs = events['transition']
        check(len(t_args) == 2 and t_args[0] is next_state and t_args[1] is action, 'transition(copy, action)')
        check(t_args[0] is not state, 'transition runs on a copy')
        check(list(t_kwargs) == ['rng'] and t_kwargs['rng'] is rng, 'transition gets the env generator')
        check(state.agent.position == Position(1, 1), 'input state untouched')
        check(next_state.agent.position == Position(1, 2), 'next state is the transformed copy')
        for name, value in [('reward', reward), ('termination', terminal)]:
            f_args, f_kwargs = events[name]
            check(len(f_args) == 3, f'{name}: three positional arguments')
            check(f_args[0] is state and f_args[1] is action and f_args[2] is next_state, f'{name}: triple')
            check(f_kwargs == {}, f'{name}: no keyword arguments (in particular no rng)')
        check(reward is box['reward'] and terminal is box['terminal'], 'values passed through untouched')

        # ---------------- functional_observation
        log.events.clear()
        observation = env.functional_observation(state)
        check(observation is box['observation'], 'observation passed through')
        expected = ['observation'] + (['observation_space'] if debug else [])
        check(names(log) == expected, f'observation: calls {names(log)} != {expected}')
        check(log.events[0][1] == (state,) and log.events[0][1][0] is state, 'observation(state)')
        check(list(log.events[0][2]) == ['rng'] and log.events[0][2]['rng'] is rng, 'observation rng')
        if debug:
            check(log.events[1][1][0] is observation and not log.events[1][2], 'contains(observation)')

        # ---------------- re-seeding replaces the generator
        env.set_seed(5)
        rng5 = env._rng
        check(rng5 is not rng, 'set_seed makes a new generator')
        check(rng5.integers(10**9) == make_rng(5).integers(10**9), 'seeded like make_rng(seed)')
        env.set_seed()
        check(env._rng is not rng5 and env._rng is not None, 'set_seed() makes an unseeded generator')

    # ---------------- failures, debug on
    debugging.reset_gv_debug(True)

    def raises(f, message):
        try:
            f()
        except ValueError as error:
            check(type(error) is ValueError, 'exactly ValueError')
            check(error.args == (message,), f'message {error.args} != {message!r}')
            return
        check(False, f'no ValueError({message!r})')

    log = Log()
    env, box = make_spy_env(log, state_answers=[False])
    raises(env.functional_reset, 'state does not satisfy state_space')
    check(names(log) == ['reset', 'state_space'], 'reset failure: calls')

    # invalid state AND invalid action: the state is reported, nothing else runs
    log = Log()
    env, box = make_spy_env(log, state_answers=[False], action_answers=[False])
    raises(lambda: env.functional_step(small_state(), Action.ACTUATE), 'state does not satisfy state_space')
    check(names(log) == ['state_space'], 'invalid state: nothing else is called')

    log = Log()
    env, box = make_spy_env(log, action_answers=[False])
    raises(
        lambda: env.functional_step(small_state(), Action.ACTUATE),
        'action {action} does not satisfy action-space',
    )
    check(names(log) == ['state_space', 'action_space'], 'invalid action: no transition')

    log = Log()
    env, box = make_spy_env(log, state_answers=[True, False])
    raises(
        lambda: env.functional_step(small_state(), Action.ACTUATE),
        'next_state does not satisfy state_space',
    )
    check(
        names(log) == ['state_space', 'action_space', 'transition', 'state_space'],
        'invalid next state: no reward / termination',
    )

    log = Log()
    env, box = make_spy_env(log, obs_answers=[False])
    raises(
        lambda: env.functional_observation(small_state()),
        'observation does not satisfy observation_space',
    )

    # ---------------- debug off: state / observation spaces never consulted, action still is
    debugging.reset_gv_debug(False)
    log = Log()
    env, box = make_spy_env(log, state_answers=[False] * 9, action_answers=[True, False], obs_answers=[False] * 9)
    env.functional_reset()
    env.functional_step(small_state(), Action.TURN_LEFT)
    env.functional_observation(small_state())
    check('state_space' not in names(log) and 'observation_space' not in names(log), 'no debug checks')
    raises(
        lambda: env.functional_step(small_state(), Action.TURN_LEFT),
        'action {action} does not satisfy action-space',
    )
    debugging.reset_gv_debug(True)


# --------------------------------------------------------------------------------------
# part 2: shipped configurations, rebuilt through the python API
# --------------------------------------------------------------------------------------

MOVES = [
    Action.MOVE_FORWARD,
    Action.MOVE_BACKWARD,
    Action.MOVE_LEFT,
    Action.MOVE_RIGHT,
    Action.TURN_LEFT,
    Action.TURN_RIGHT,
]
AREA = Area((-6, 0), (-3, 3))

R_EXIT = dict(name='reach_exit', reward_on=5.0, reward_off=0.0)
R_CLOSER = dict(
    name='getting_closer',
    distance_function=Position.manhattan_distance,
    object_type=Exit,
    reward_closer=0.2,
    reward_further=-0.2,
)
R_LIVING = dict(name='living_reward', reward=-0.05)

CONFIGS = {
    'empty.4x4': dict(
        objects=[Wall, Floor, Exit],
        colors=[Color.NONE],
        actions=MOVES,
        reset=dict(name='empty', shape=Shape(4, 4), random_agent=True, random_exit=True),
        transitions=['move_agent', 'turn_agent'],
        rewards=[R_EXIT, R_CLOSER, R_LIVING],
        termination=dict(name='reach_exit'),
    ),
    'empty.5x8 (not square)': dict(
        objects=[Wall, Floor, Exit],
        colors=[Color.NONE],
        actions=MOVES,
        reset=dict(name='empty', shape=Shape(5, 8), random_agent=True),
        transitions=['move_agent', 'turn_agent'],
        rewards=[R_EXIT, dict(name='bump_into_wall', reward=-1.0), R_LIVING],
        termination=dict(
            name='reduce_any',
            terminating_functions=[dict(name='reach_exit'), dict(name='bump_into_wall')],
        ),
    ),
    'four_rooms.7x7': dict(
        objects=[Wall, Floor, Exit],
        colors=[Color.NONE],
        actions=MOVES,
        reset=dict(name='rooms', shape=Shape(7, 7), layout=(2, 2)),
        transitions=['move_agent', 'turn_agent'],
        rewards=[R_EXIT, R_LIVING],
        termination=dict(name='reach_exit'),
    ),
    'dynamic_obstacles.7x7': dict(
        objects=[Wall, Floor, Exit, MovingObstacle],
        colors=[Color.NONE],
        actions=MOVES,
        reset=dict(name='dynamic_obstacles', shape=Shape(7, 7), num_obstacles=2, random_agent=False),
        transitions=['move_agent', 'turn_agent', 'move_obstacles'],
        rewards=[
            R_EXIT,
            dict(name='bump_moving_obstacle', reward=-1.0),
            dict(name='bump_into_wall', reward=-1.0),
            R_CLOSER,
            R_LIVING,
        ],
        termination=dict(
            name='reduce_any',
            terminating_functions=[
                dict(name='reach_exit'),
                dict(name='bump_moving_obstacle'),
                dict(name='bump_into_wall'),
            ],
        ),
    ),
    'keydoor.7x7': dict(
        objects=[Wall, Floor, Exit, Door, Key],
        colors=[Color.NONE, Color.YELLOW],
        actions=list(Action),
        reset=dict(name='keydoor', shape=Shape(7, 7)),
        transitions=['move_agent', 'turn_agent', 'actuate_door', 'pickndrop'],
        rewards=[
            R_EXIT,
            dict(name='pickndrop', object_type=Key, reward_pick=1.0, reward_drop=-1.0),
            dict(name='actuate_door', reward_open=1.0, reward_close=-1.0),
            R_CLOSER,
            R_LIVING,
        ],
        termination=dict(name='reach_exit'),
    ),
    'crossing.5x5': dict(
        objects=[Wall, Floor, Exit],
        colors=[Color.NONE],
        actions=MOVES,
        reset=dict(name='crossing', shape=Shape(5, 5), num_rivers=1, object_type=Wall),
        transitions=['move_agent', 'turn_agent'],
        rewards=[R_EXIT, R_CLOSER, R_LIVING],
        termination=dict(name='reach_exit'),
    ),
    'teleport.5x5': dict(
        objects=[Wall, Floor, Exit, Telepod],
        colors=[Color.NONE, Color.RED],
        actions=MOVES,
        # the shipped file passes `random_agent`, which the factory drops
        reset=dict(name='teleport', shape=Shape(5, 5), random_agent=True),
        transitions=['move_agent', 'turn_agent', 'teleport'],
        rewards=[R_EXIT, R_CLOSER, R_LIVING],
        termination=dict(name='reach_exit'),
    ),
    'memory.5x5': dict(
        objects=[Wall, Floor, Exit, Beacon],
        colors=[Color.NONE, Color.RED, Color.GREEN, Color.BLUE, Color.YELLOW],
        actions=MOVES,
        reset=dict(
            name='memory',
            shape=Shape(5, 5),
            colors={Color.RED, Color.GREEN, Color.BLUE, Color.YELLOW},
        ),
        transitions=['move_agent', 'turn_agent'],
        rewards=[dict(name='reach_exit_memory', reward_good=5.0, reward_bad=-5.0), R_LIVING],
        termination=dict(name='reach_exit'),
    ),
}


def build_function(module, data):
    data = dict(data)
    name = data.pop('name')
    if 'terminating_functions' in data:
        data['terminating_functions'] = [
            build_function(terminating_fs, d) for d in data['terminating_functions']
        ]
    return module.factory(name, **data)


def build_env(config):
    reset_function = build_function(reset_fs, config['reset'])
    transition_function = transition_fs.factory(
        'chain',
        transition_functions=[transition_fs.factory(name) for name in config['transitions']],
    )
    reward_parts = [build_function(reward_fs, d) for d in config['rewards']]
    reward_function = reward_fs.factory('reduce_sum', reward_functions=reward_parts)
    observation_function = observation_fs.factory('partially_occluded', area=AREA)
    terminating_function = build_function(terminating_fs, config['termination'])

    state = reset_function(rng=make_rng(0))
    state_space = StateSpace(state.grid.shape, config['objects'], config['colors'])
    observation = observation_function(state, rng=make_rng(0))
    observation_space = ObservationSpace(observation.grid.shape, config['objects'], config['colors'])

    env = GridWorld(
        state_space,
        ActionSpace(config['actions']),
        observation_space,
        reset_function,
        transition_function,
        observation_function,
        reward_function,
        terminating_function,
    )
    return env, reward_parts


# reference wiring (a copy of the documented behaviour), on the components of an env
def ref_reset(env, rng):
    return env._reset_function(rng=rng)


def ref_step(env, rng, state, action):
    if not env.action_space.contains(action):
        raise ValueError('action {action} does not satisfy action-space')
    next_state = copy.deepcopy(state)
    env._transition_function(next_state, action, rng=rng)
    reward = env._reward_function(state, action, next_state)
    terminal = env._termination_function(state, action, next_state)
    return next_state, reward, terminal


def ref_observation(env, rng, state):
    return env._observation_function(state, rng=rng)


def same_stream(rng_a, rng_b):
    return rng_a.bit_generator.state == rng_b.bit_generator.state


def exit_fires(next_state):
    return isinstance(next_state.grid[next_state.agent.position], Exit)


def exit_reward(config, state, action, next_state):
    """the part of the reward paid for the exit, computed independently"""
    for data in config['rewards']:
        if data['name'] == 'reach_exit':
            return data['reward_on'] if exit_fires(next_state) else data['reward_off']
        if data['name'] == 'reach_exit_memory':
            if not exit_fires(next_state):
                return 0.0
            beacon_color = next(
                next_state.grid[p].color
                for p in next_state.grid.area.positions()
                if isinstance(next_state.grid[p], Beacon)
            )
            exit_color = next_state.grid[next_state.agent.position].color
            return data['reward_good'] if exit_color is beacon_color else data['reward_bad']
    raise AssertionError


def part_configs():
    envs = {name: build_env(config) for name, config in CONFIGS.items()}  # all alive at once

    for debug in [True, False]:
        debugging.reset_gv_debug(debug)
        for (name, (env, reward_parts)), seed in itt.product(envs.items(), [0, 1, 2]):
            config = CONFIGS[name]
            actions = config['actions']
            other_parts = [
                build_function(reward_fs, d)
                for d in config['rewards']
                if d['name'] not in ('reach_exit', 'reach_exit_memory')
            ]

            for repeat in range(2):  # re-seeding replays the same trajectory
                env.set_seed(seed)
                ref_rng = make_rng(seed)
                policy_rng = make_rng(1000 + seed)
                trajectory = []

                for episode in range(3):
                    state = env.functional_reset()
                    ref_state = ref_reset(env, ref_rng)
                    check(state == ref_state, f'{name}: reset state')
                    check(same_stream(env._rng, ref_rng), f'{name}: stream after reset')
                    check(env.state_space.contains(state), f'{name}: reset state in space')

                    for t in range(40):
                        observation = env.functional_observation(state)
                        ref_obs = ref_observation(env, ref_rng, state)
                        check(observation == ref_obs, f'{name}: observation')
                        check(env.observation_space.contains(observation), f'{name}: obs in space')

                        action = actions[policy_rng.integers(len(actions))]
                        before = copy.deepcopy(state)
                        next_state, reward, terminal = env.functional_step(state, action)
                        ref_next, ref_reward, ref_terminal = ref_step(env, ref_rng, state, action)
                        check(state == before, f'{name}: functional_step is not in-place')
                        check(next_state is not state, f'{name}: next state is a new object')
                        check(next_state == ref_next, f'{name}: next state')
                        check(
                            type(reward) is type(ref_reward) and reward == ref_reward,
                            f'{name}: reward {reward!r} != {ref_reward!r}',
                        )
                        check(terminal is ref_terminal, f'{name}: terminal')
                        check(same_stream(env._rng, ref_rng), f'{name}: stream after step')

                        # C12 on the real triple
                        parts = [part(state, action, next_state) for part in reward_parts]
                        check(reward == sum(parts), f'{name}: reward is the sum of its parts')
                        r_exit = exit_reward(config, state, action, next_state)
                        r_other = sum(part(state, action, next_state) for part in other_parts)
                        check(reward == sum([r_exit] + [p for p in parts[1:]]), f'{name}: exit part first')
                        check(abs(reward - (r_exit + r_other)) < 1e-12, f'{name}: exit part value')
                        fires = terminating_fs.reach_exit(state, action, next_state)
                        check(fires is exit_fires(next_state), f'{name}: exit termination iff on exit')
                        check((r_exit != 0.0) == fires, f'{name}: exit reward iff exit termination')
                        if config['termination']['name'] == 'reach_exit':
                            check(terminal is fires, f'{name}: termination is exit termination')
                        else:
                            each = [
                                build_function(terminating_fs, d)(state, action, next_state)
                                for d in config['termination']['terminating_functions']
                            ]
                            check(terminal is any(each), f'{name}: termination is any of the parts')
                            check(not fires or terminal, f'{name}: exit terminates')

                        trajectory.append((next_state, reward, terminal))
                        state = next_state
                        if terminal:
                            break

                if repeat == 0:
                    first = trajectory
                else:
                    check(len(first) == len(trajectory), f'{name}: same length after re-seeding')
                    check(
                        all(a == b for a, b in zip(first, trajectory)),
                        f'{name}: same trajectory after re-seeding',
                    )

            # actions outside the action space are rejected with or without debugging
            if len(actions) < len(Action):
                state = env.functional_reset()
                try:
                    env.functional_step(state, Action.ACTUATE)
                except ValueError as error:
                    check(
                        error.args == ('action {action} does not satisfy action-space',),
                        f'{name}: message',
                    )
                else:
                    check(False, f'{name}: ACTUATE accepted')

    # a state outside the state space is rejected in debug mode only
    env, _ = envs['empty.4x4']
    state = env.functional_reset()
    state.grid[1, 2] = Key(Color.GREEN)
    debugging.reset_gv_debug(True)
    try:
        env.functional_step(state, Action.TURN_LEFT)
    except ValueError as error:
        check(error.args == ('state does not satisfy state_space',), 'bad state message')
    else:
        check(False, 'bad state accepted in debug mode')
    debugging.reset_gv_debug(False)
    next_state, reward, terminal = env.functional_step(state, Action.TURN_LEFT)
    check(isinstance(next_state.grid[1, 2], Key), 'bad state accepted without debugging')
    debugging.reset_gv_debug(True)


# --------------------------------------------------------------------------------------
# part 3: the env interface on top of the functional one (reset / step / observation)
# --------------------------------------------------------------------------------------


def part_interface():
    env_a, _ = build_env(CONFIGS['dynamic_obstacles.7x7'])
    env_b, _ = build_env(CONFIGS['dynamic_obstacles.7x7'])
    env_c, _ = build_env(CONFIGS['keydoor.7x7'])  # interleaved, must not disturb a / b
    for seed in [3, 4]:
        env_a.set_seed(seed)
        env_b.set_seed(seed)
        env_c.set_seed(seed)
        env_a.reset()
        env_c.reset()
        env_b.reset()
        check(env_a.state == env_b.state, 'two envs, same seed, same start')
        policy = make_rng(seed)
        for t in range(60):
            action = MOVES[policy.integers(len(MOVES))]
            obs_a = env_a.observation
            env_c.step(Action.PICK_N_DROP)
            result_a = env_a.step(action)
            obs_b = env_b.observation
            result_b = env_b.step(action)
            check(obs_a == obs_b, 'same observations')
            check(result_a == result_b, 'same reward / terminal')
            check(env_a.state == env_b.state, 'same states')
            if result_a[1]:
                env_a.reset()
                env_b.reset()


part_spies()
part_configs()
part_interface()
print(f'OK ({n_checks} checks)')
