"""Demo / check program for refactoring B (space predicates + GridWorld guards).

Run as:  cd /tmp/wt5-C01 && /venv/bin/python -W ignore _seed/B/demo.py

The reference answers are computed by INDEPENDENT re-implementations (in this
file, on plain python data) of
  * the state-space and observation-space membership predicates, and
  * the transition dynamics of the built-in transition functions;
the library is only used to build inputs, run the code under test, and convert
its outputs to plain tuples.

Checked (property C01: closure and totality of stepping):
  1. `StateSpace.contains`:  many spaces (subsets of object types / colours,
     several shapes) x conforming random states and every kind of single
     defect (shape, undeclared type / colour in the grid, agent outside the
     grid on each side, bad orientation, undeclared held type / colour, several
     defects at once) -> accepts exactly the conforming ones;
  2. `ObservationSpace.contains` likewise (Hidden allowed in the grid but not in
     the hand, NoneGridObject allowed in the hand but not in the grid, agent
     position bounds, shape), constructor preconditions, area / agent_position;
  3. `GridWorld` guards:  which ValueError (exact message) is raised, in which
     order, what is (not) called / consumed when a check fails, with the
     library debugging flag on and off;
  4. whole environments built from built-in components: reset + random walks,
     next state compared with the reference dynamics (including random number
     consumption), membership of states / observations (reference and library
     predicates), finite float reward, bool terminal, input state unchanged,
     invalid actions rejected with ValueError and nothing changed.
"""
import itertools
import math
import os
import sys

sys.path.insert(0, os.getcwd())

import numpy as np  # noqa: E402

from gym_gridverse.action import Action  # noqa: E402
from gym_gridverse.agent import Agent  # noqa: E402
from gym_gridverse.debugging import reset_gv_debug  # noqa: E402
from gym_gridverse.envs import observation_functions as observation_fs  # noqa: E402
from gym_gridverse.envs import reset_functions as reset_fs  # noqa: E402
from gym_gridverse.envs import reward_functions as reward_fs  # noqa: E402
from gym_gridverse.envs import terminating_functions as terminating_fs  # noqa: E402
from gym_gridverse.envs import transition_functions as transition_fs  # noqa: E402
from gym_gridverse.envs.gridworld import GridWorld  # noqa: E402
from gym_gridverse.geometry import Area, Orientation, Position, Shape  # noqa: E402
from gym_gridverse.grid import Grid  # noqa: E402
from gym_gridverse.grid_object import (  # noqa: E402
    Beacon,
    Box,
    Color,
    Door,
    Exit,
    Floor,
    Hidden,
    Key,
    MovingObstacle,
    NoneGridObject,
    Telepod,
    Wall,
)
from gym_gridverse.spaces import ActionSpace, ObservationSpace, StateSpace  # noqa: E402
from gym_gridverse.observation import Observation  # noqa: E402
from gym_gridverse.state import State  # noqa: E402
from gym_gridverse.utils.fast_copy import fast_copy  # noqa: E402

reset_gv_debug(True)

N_CHECKS = 0


def check(condition, *info):
    global N_CHECKS
    N_CHECKS += 1
    if not condition:
        raise AssertionError(' | '.join(str(i) for i in info))


# ---------------------------------------------------------------------------
# plain representation  (library objects -> tuples)
# ---------------------------------------------------------------------------

ORI_TO_INT = {
    Orientation.FORWARD: 0,  # facing up (towards smaller y)
    Orientation.RIGHT: 1,
    Orientation.BACKWARD: 2,
    Orientation.LEFT: 3,
}
INT_TO_ORI = {v: k for k, v in ORI_TO_INT.items()}
DELTAS = [(-1, 0), (0, 1), (1, 0), (0, -1)]  # clockwise from `up`


def plain_obj(obj):
    name = type(obj).__name__
    if name == 'Box':
        return ('Box', plain_obj(obj.content))
    if name == 'Door':
        return ('Door', obj.state.name, obj.color.name)
    if name in ('Key', 'Telepod', 'Beacon', 'Exit'):
        return (name, obj.color.name)
    return (name,)


def plain_state(state):
    return {
        'grid': [
            [plain_obj(state.grid.objects[y][x]) for x in range(state.grid.shape.width)]
            for y in range(state.grid.shape.height)
        ],
        'pos': (state.agent.position.y, state.agent.position.x),
        'ori': ORI_TO_INT[state.agent.orientation],
        'held': plain_obj(state.agent.grid_object),
    }


def copy_model(m):
    return {
        'grid': [list(row) for row in m['grid']],
        'pos': m['pos'],
        'ori': m['ori'],
        'held': m['held'],
    }


# ---------------------------------------------------------------------------
# independent reference model of the dynamics
# ---------------------------------------------------------------------------

MOVE_OFFSETS = {
    'MOVE_FORWARD': 0,
    'MOVE_RIGHT': 1,
    'MOVE_BACKWARD': 2,
    'MOVE_LEFT': 3,
}


def inside(m, p):
    return 0 <= p[0] < len(m['grid']) and 0 <= p[1] < len(m['grid'][0])


def at(m, p):
    return m['grid'][p[0]][p[1]]


def put(m, p, o):
    m['grid'][p[0]][p[1]] = o


def blocks_movement(o):
    if o[0] in ('Wall', 'Box'):
        return True
    if o[0] == 'Door':
        return o[1] != 'OPEN'
    return False


def front_of(m):
    dy, dx = DELTAS[m['ori']]
    return (m['pos'][0] + dy, m['pos'][1] + dx)


def ref_move_agent(m, a, rng):
    if a not in MOVE_OFFSETS:
        return
    dy, dx = DELTAS[(m['ori'] + MOVE_OFFSETS[a]) % 4]
    p = (m['pos'][0] + dy, m['pos'][1] + dx)
    if inside(m, p) and not blocks_movement(at(m, p)):
        m['pos'] = p


def ref_turn_agent(m, a, rng):
    if a == 'TURN_LEFT':
        m['ori'] = (m['ori'] + 3) % 4
    elif a == 'TURN_RIGHT':
        m['ori'] = (m['ori'] + 1) % 4


def ref_pickndrop(m, a, rng):
    if a != 'PICK_N_DROP':
        return
    p = front_of(m)
    if not inside(m, p):
        return
    front = at(m, p)
    holding = m['held'] != ('NoneGridObject',)
    if front == ('Floor',):
        if holding:  # drop
            put(m, p, m['held'])
            m['held'] = ('NoneGridObject',)
        # (else: a floor is replaced by a fresh floor, nothing visible)
    elif front[0] == 'Key':  # the only holdable built-in object
        put(m, p, m['held'] if holding else ('Floor',))  # swap / pick
        m['held'] = front


def ref_actuate_door(m, a, rng):
    if a != 'ACTUATE':
        return
    p = front_of(m)
    if not inside(m, p):
        return
    o = at(m, p)
    if o[0] != 'Door':
        return
    _, status, color = o
    if status == 'CLOSED':
        put(m, p, ('Door', 'OPEN', color))
    elif status == 'LOCKED' and m['held'] == ('Key', color):
        put(m, p, ('Door', 'OPEN', color))


def ref_actuate_box(m, a, rng):
    if a != 'ACTUATE':
        return
    p = front_of(m)
    if inside(m, p) and at(m, p)[0] == 'Box':
        put(m, p, at(m, p)[1])


def ref_teleport(m, a, rng):
    here = at(m, m['pos'])
    if here[0] != 'Telepod':
        return
    others = [
        (y, x)
        for y in range(len(m['grid']))
        for x in range(len(m['grid'][0]))
        if (y, x) != m['pos'] and m['grid'][y][x] == here
    ]
    if others:
        m['pos'] = others[int(rng.choice(len(others)))]


def ref_move_obstacles(m, a, rng):
    obstacles = [
        (y, x)
        for y in range(len(m['grid']))
        for x in range(len(m['grid'][0]))
        if m['grid'][y][x] == ('MovingObstacle',)
    ]
    for p in obstacles:
        free = [
            q
            for q in ((p[0] + dy, p[1] + dx) for dy, dx in DELTAS)
            if inside(m, q) and at(m, q) == ('Floor',)
        ]
        if free:
            q = free[int(rng.choice(len(free)))]
            tmp = at(m, p)
            put(m, p, at(m, q))
            put(m, q, tmp)


REFS = {
    'move_agent': ref_move_agent,
    'turn_agent': ref_turn_agent,
    'pickndrop': ref_pickndrop,
    'actuate_door': ref_actuate_door,
    'actuate_box': ref_actuate_box,
    'teleport': ref_teleport,
    'move_obstacles': ref_move_obstacles,
}
LIBS = {name: getattr(transition_fs, name) for name in REFS}
for name in REFS:  # registered names must be intact
    check(transition_fs.transition_function_registry[name] is LIBS[name], name)
check('chain' in transition_fs.transition_function_registry)
check(
    transition_fs._action_orientations
    == {Action.TURN_LEFT: Orientation.L, Action.TURN_RIGHT: Orientation.R}
)

# ---------------------------------------------------------------------------
# independent membership predicate on the plain model
# ---------------------------------------------------------------------------

ALL_TYPES = [
    Floor, Wall, Exit, Door, Key, MovingObstacle, Box, Telepod, Beacon,
]
ALL_COLORS = [Color.RED, Color.GREEN, Color.BLUE, Color.YELLOW]


def obj_color_name(o):
    if o[0] == 'Door':
        return o[2]
    if o[0] in ('Key', 'Telepod', 'Beacon', 'Exit'):
        return o[1]
    return 'NONE'


def model_in_space(m, shape, type_names, color_names):
    if (len(m['grid']), len(m['grid'][0])) != shape:
        return False
    for row in m['grid']:
        if len(row) != shape[1]:
            return False
        for o in row:
            if o[0] not in type_names:
                return False
            if obj_color_name(o) not in color_names | {'NONE'}:
                return False
    if not inside(m, m['pos']):
        return False
    if m['ori'] not in (0, 1, 2, 3):
        return False
    if m['held'][0] not in type_names | {'NoneGridObject'}:
        return False
    if obj_color_name(m['held']) not in color_names | {'NONE'}:
        return False
    return True


# ---------------------------------------------------------------------------
# helpers to build library states
# ---------------------------------------------------------------------------


def object_catalogue():
    """factories of every kind of object / status / colour that matters"""
    cat = [
        Floor,
        Wall,
        Exit,
        lambda: Exit(Color.GREEN),
        MovingObstacle,
        lambda: Key(Color.RED),
        lambda: Key(Color.BLUE),
        lambda: Telepod(Color.RED),
        lambda: Telepod(Color.BLUE),
        lambda: Beacon(Color.YELLOW),
        lambda: Box(Floor()),
        lambda: Box(Key(Color.RED)),
        lambda: Box(Box(Wall())),
        lambda: Box(Door(Door.Status.LOCKED, Color.RED)),
    ]
    for status in Door.Status:
        for color in (Color.RED, Color.BLUE):
            cat.append(lambda status=status, color=color: Door(status, color))
    return cat


def held_catalogue():
    return [
        lambda: None,  # Agent default -> NoneGridObject
        NoneGridObject,
        lambda: Key(Color.RED),
        lambda: Key(Color.BLUE),
    ]


def rng_state(rng):
    return repr(rng.bit_generator.state)



# ---------------------------------------------------------------------------
# 1. StateSpace.contains
# ---------------------------------------------------------------------------

TYPE_SUBSETS = [
    [Floor],
    [Floor, Wall],
    [Floor, Wall, Exit],
    [Floor, Wall, Exit, Key, Door],
    [Floor, Wall, Exit, MovingObstacle],
    [Floor, Wall, Exit, Telepod, Beacon],
    [Floor, Wall, Box, Key],
    [Wall, Key],  # no floor declared
    [Floor, Hidden],  # odd but allowed declarations
    [Floor, NoneGridObject, Key],
    ALL_TYPES,
]
COLOR_SUBSETS = [
    [],
    [Color.NONE],
    [Color.RED],
    [Color.RED, Color.BLUE],
    [Color.YELLOW, Color.GREEN, Color.NONE],
    ALL_COLORS,
]


class FakeOrientation:
    """looks like an orientation, is not one"""

    name = 'FORWARD'
    value = 0


def state_conforms(state, shape, type_names, color_names):
    """independent re-implementation of state-space membership

    works directly on the `objects` lists and the agent attributes
    """
    objects = state.grid.objects
    if len(objects) != shape[0] or len(objects[0]) != shape[1]:
        return False
    allowed_colors = set(color_names) | {'NONE'}
    for row in objects:
        for o in row:
            if type(o).__name__ not in type_names:
                return False
            if o.color.name not in allowed_colors:
                return False
    y, x = state.agent.position.y, state.agent.position.x
    if y < 0 or x < 0 or y > shape[0] - 1 or x > shape[1] - 1:
        return False
    if type(state.agent.orientation) is not Orientation:
        return False
    held = state.agent.grid_object
    if type(held).__name__ not in set(type_names) | {'NoneGridObject'}:
        return False
    return held.color.name in allowed_colors


def catalogue_for(types, colors):
    """factories producing objects inside the declared space"""
    colors = [c for c in colors if c is not Color.NONE]
    cat = []
    for t in types:
        if t in (Floor, Wall, MovingObstacle, Hidden, NoneGridObject):
            cat.append(t)
        elif t is Exit:
            cat.append(Exit)
            cat.extend(lambda c=c: Exit(c) for c in colors)
        elif t is Door:
            cat.extend(
                lambda s=s, c=c: Door(s, c)
                for s in Door.Status
                for c in colors + [Color.NONE]
            )
        elif t in (Key, Telepod, Beacon):
            cat.extend(lambda t=t, c=c: t(c) for c in colors + [Color.NONE])
        elif t is Box:
            # content is not inspected by the space
            cat.append(lambda: Box(Floor()))
            cat.append(lambda: Box(Key(Color.GREEN)))
            cat.append(lambda: Box(Box(Wall())))
    return cat


def undeclared_objects(types, colors):
    """objects whose type or colour is not declared"""
    out = []
    everything = [
        Floor, Wall, Exit, MovingObstacle, Hidden, NoneGridObject,
        lambda: Key(Color.NONE), lambda: Telepod(Color.NONE),
        lambda: Beacon(Color.NONE), lambda: Box(Floor()),
        lambda: Door(Door.Status.OPEN, Color.NONE),
    ]
    for f in everything:
        if type(f()) not in types:
            out.append(f)
    declared = set(colors) | {Color.NONE}
    for c in Color:
        if c in declared:
            continue
        for t in types:
            if t is Exit:
                out.append(lambda c=c: Exit(c))
            elif t is Door:
                out.append(lambda c=c: Door(Door.Status.CLOSED, c))
            elif t in (Key, Telepod, Beacon):
                out.append(lambda t=t, c=c: t(c))
    return out


def random_conforming_state(rng, h, w, cat, held_cat):
    objects = [
        [cat[int(rng.integers(len(cat)))]() for _ in range(w)] for _ in range(h)
    ]
    held = held_cat[int(rng.integers(len(held_cat)))]()
    agent = Agent(
        Position(int(rng.integers(h)), int(rng.integers(w))),
        INT_TO_ORI[int(rng.integers(4))],
        held,
    )
    return State(Grid(objects), agent)


def sweep_state_space():
    rng = np.random.default_rng(4242)
    shapes = [(1, 1), (1, 4), (3, 1), (2, 2), (3, 5), (6, 4)]
    n = 0
    n_true = 0
    for types, colors, (h, w) in itertools.product(TYPE_SUBSETS, COLOR_SUBSETS, shapes):
        space = StateSpace(Shape(h, w), types, colors)
        type_names = [t.__name__ for t in types]
        color_names = [c.name for c in colors]

        # constructor-derived attributes
        check(space.grid_shape == Shape(h, w))
        check(space.object_types == list(types))
        check(space.colors == set(colors) | {Color.NONE})

        def verdict(state, label):
            nonlocal n, n_true
            expected = state_conforms(state, (h, w), type_names, color_names)
            got = space.contains(state)
            check(type(got) is bool, label, 'type of result', got)
            check(got == expected, label, 'got', got, 'expected', expected, state)
            n += 1
            n_true += got
            return got

        cat = catalogue_for(types, colors)
        held_cat = [lambda: None, NoneGridObject] + [
            f for f in cat if not isinstance(f(), (Hidden,)) or Hidden in types
        ]
        bad = undeclared_objects(types, colors)
        label = f'state-space {type_names} {color_names} {(h, w)}'

        for trial in range(6):
            base = random_conforming_state(rng, h, w, cat, held_cat)
            check(verdict(base, label + ' conforming') is True, label)

            def fresh():
                return fast_copy(base)

            # agent on every cell / orientation, and just outside on each side
            for y in range(-1, h + 1):
                for x in range(-1, w + 1):
                    if trial > 0 and 0 <= y < h and 0 <= x < w:
                        continue
                    s = fresh()
                    s.agent.position = Position(y, x)
                    s.agent.orientation = INT_TO_ORI[(y + 2 * x) % 4]
                    verdict(s, label + f' agent at {(y, x)}')
            for far in [(-5, 0), (0, -7), (h + 3, 0), (0, w + 9), (h, w), (-1, -1)]:
                s = fresh()
                s.agent.position = Position(*far)
                check(verdict(s, label + f' agent at {far}') is False, label)

            # bad orientation
            for bad_ori in (None, 0, 'FORWARD', FakeOrientation(), Action.MOVE_FORWARD):
                s = fresh()
                s.agent.orientation = bad_ori
                check(verdict(s, label + f' orientation {bad_ori!r}') is False, label)

            # wrong shapes
            for (hh, ww) in [(h + 1, w), (h, w + 1), (w, h), (max(1, h - 1), w), (h, max(1, w - 1))]:
                s = State(
                    Grid([[cat[0]() for _ in range(ww)] for _ in range(hh)]),
                    Agent(Position(0, 0), Orientation.F),
                )
                verdict(s, label + f' shape {(hh, ww)}')

            # one undeclared object somewhere in the grid (corners and random)
            cells = {(0, 0), (h - 1, w - 1), (0, w - 1), (h - 1, 0),
                     (int(rng.integers(h)), int(rng.integers(w)))}
            for make_bad in bad:
                for (y, x) in cells:
                    s = fresh()
                    s.grid[Position(y, x)] = make_bad()
                    check(verdict(s, label + f' bad object {make_bad()!r} at {(y, x)}') is False, label)
                # ... or in the agent's hand
                s = fresh()
                s.agent.grid_object = make_bad()
                verdict(s, label + f' bad held {make_bad()!r}')

            # every declared object held
            for make in cat:
                s = fresh()
                s.agent.grid_object = make()
                verdict(s, label + f' held {make()!r}')

            # several defects at once
            if bad:
                s = fresh()
                s.grid[Position(0, 0)] = bad[0]()
                s.agent.grid_object = bad[-1]()
                s.agent.position = Position(h, 0)
                check(verdict(s, label + ' multiple defects') is False, label)
    check(n_true > 1000 and n - n_true > 1000, 'both verdicts exercised', n, n_true)
    return n


# ---------------------------------------------------------------------------
# 2. ObservationSpace.contains
# ---------------------------------------------------------------------------


def observation_conforms(observation, shape, type_names, color_names):
    """independent re-implementation of observation-space membership"""
    objects = observation.grid.objects
    if len(objects) != shape[0] or len(objects[0]) != shape[1]:
        return False
    allowed_colors = set(color_names) | {'NONE'}
    for row in objects:
        for o in row:
            if type(o).__name__ not in set(type_names) | {'Hidden'}:
                return False
            if o.color.name not in allowed_colors:
                return False
    y, x = observation.agent.position.y, observation.agent.position.x
    if not (0 <= y <= shape[0] - 1 and 0 <= x <= shape[1] - 1):
        return False
    held = observation.agent.grid_object
    if type(held).__name__ not in set(type_names) | {'NoneGridObject'}:
        return False
    return held.color.name in allowed_colors


def sweep_observation_space():
    rng = np.random.default_rng(777)
    shapes = [(1, 1), (1, 3), (2, 5), (3, 3), (4, 7), (7, 7)]
    n = 0
    n_true = 0

    # even widths are rejected by the constructor
    for (h, w) in [(1, 2), (3, 4), (7, 6), (2, 0)]:
        try:
            ObservationSpace(Shape(h, w), ALL_TYPES, ALL_COLORS)
        except ValueError as error:
            check(str(error) == 'shape should have an odd width', error)
        else:
            check(False, 'even width accepted', (h, w))

    for types, colors, (h, w) in itertools.product(TYPE_SUBSETS, COLOR_SUBSETS, shapes):
        space = ObservationSpace(Shape(h, w), types, colors)
        type_names = [t.__name__ for t in types]
        color_names = [c.name for c in colors]
        label = f'observation-space {type_names} {color_names} {(h, w)}'

        check(space.grid_shape == Shape(h, w))
        check(space.object_types == list(types))
        check(space.colors == set(colors) | {Color.NONE})
        check(space.area == Area((-(h - 1), 0), (-(w // 2), w // 2)), label)
        check(space.agent_position == Position(h - 1, w // 2), label)

        def verdict(observation, label):
            nonlocal n, n_true
            expected = observation_conforms(observation, (h, w), type_names, color_names)
            got = space.contains(observation)
            check(type(got) is bool, label, 'type of result', got)
            check(got == expected, label, 'got', got, 'expected', expected, observation)
            n += 1
            n_true += got
            return got

        cat = catalogue_for(types, colors) + [Hidden]
        held_cat = [lambda: None, NoneGridObject] + catalogue_for(
            [t for t in types if t is not Hidden], colors
        )
        bad = undeclared_objects(types, colors)

        for trial in range(4):
            objects = [
                [cat[int(rng.integers(len(cat)))]() for _ in range(w)]
                for _ in range(h)
            ]
            held = held_cat[int(rng.integers(len(held_cat)))]()
            base = Observation(
                Grid(objects), Agent(Position(h - 1, w // 2), Orientation.F, held)
            )
            check(verdict(base, label + ' conforming') is True, label)

            def fresh():
                return fast_copy(base)

            for y in range(-1, h + 1):
                for x in range(-1, w + 1):
                    if trial > 0 and 0 <= y < h and 0 <= x < w:
                        continue
                    o = fresh()
                    o.agent.position = Position(y, x)
                    verdict(o, label + f' agent at {(y, x)}')

            for (hh, ww) in [(h + 1, w), (h, w + 2), (w, h), (max(1, h - 1), w), (h, max(1, w - 2))]:
                o = Observation(
                    Grid([[Hidden() for _ in range(ww)] for _ in range(hh)]),
                    Agent(Position(0, 0), Orientation.F),
                )
                verdict(o, label + f' shape {(hh, ww)}')

            cells = {(0, 0), (h - 1, w - 1), (0, w - 1), (h - 1, 0),
                     (int(rng.integers(h)), int(rng.integers(w)))}
            for make_bad in bad:
                for (y, x) in cells:
                    o = fresh()
                    o.grid[Position(y, x)] = make_bad()
                    # NOTE: Hidden is undeclared for states but fine in views
                    verdict(o, label + f' bad object {make_bad()!r} at {(y, x)}')
                o = fresh()
                o.agent.grid_object = make_bad()
                verdict(o, label + f' bad held {make_bad()!r}')

            for make in cat:
                o = fresh()
                o.agent.grid_object = make()
                verdict(o, label + f' held {make()!r}')

            if bad:
                o = fresh()
                o.grid[Position(0, 0)] = bad[0]()
                o.agent.grid_object = bad[-1]()
                o.agent.position = Position(0, w)
                check(verdict(o, label + ' multiple defects') is False, label)
    check(n_true > 1000 and n - n_true > 1000, 'both verdicts exercised', n, n_true)
    return n


# ---------------------------------------------------------------------------
# 3. GridWorld guards
# ---------------------------------------------------------------------------


def expect_value_error(f, message, label):
    try:
        f()
    except ValueError as error:
        check(str(error) == message, label, 'message', str(error), 'expected', message)
        check(error.args == (message,), label)
    else:
        check(False, label, 'no ValueError')


def sweep_guards():
    n = 0
    shape = Shape(4, 5)
    types = [Floor, Wall, Exit, Key]
    colors = [Color.RED]
    calls = []

    def good_state():
        grid = Grid.from_shape((4, 5))
        grid[Position(3, 4)] = Exit()
        grid[Position(0, 1)] = Key(Color.RED)
        return State(grid, Agent(Position(0, 0), Orientation.R))

    def bad_state(kind):
        s = good_state()
        if kind == 'type':
            s.grid[Position(2, 2)] = Beacon(Color.RED)
        elif kind == 'color':
            s.grid[Position(2, 2)] = Key(Color.BLUE)
        elif kind == 'position':
            s.agent.position = Position(4, 0)
        elif kind == 'held':
            s.agent.grid_object = Telepod(Color.RED)
        elif kind == 'shape':
            s = State(Grid.from_shape((5, 4)), Agent(Position(0, 0), Orientation.R))
        return s

    BAD_KINDS = ['type', 'color', 'position', 'held', 'shape']
    mode = {'reset': None, 'transition': None, 'observation': None}

    def reset_function(*, rng=None):
        calls.append(('reset', rng))
        return good_state() if mode['reset'] is None else bad_state(mode['reset'])

    def transition_function(state, action, *, rng=None):
        calls.append(('transition', action, rng))
        transition_fs.move_agent(state, action, rng=rng)
        transition_fs.pickndrop(state, action, rng=rng)
        kind = mode['transition']
        if kind == 'type':
            state.grid[Position(2, 2)] = Beacon(Color.RED)
        elif kind == 'color':
            state.grid[Position(2, 2)] = Key(Color.BLUE)
        elif kind == 'position':
            state.agent.position = Position(0, -1)
        elif kind == 'held':
            state.agent.grid_object = Hidden()
        elif kind == 'shape':
            state.grid.objects.append([Floor() for _ in range(5)])
            state.grid.shape = Shape(5, 5)

    view = ObservationSpace(Shape(3, 3), types, colors)
    good_observation_function = observation_fs.factory('fully_transparent', area=view.area)

    def observation_function(state, *, rng=None):
        calls.append(('observation', rng))
        observation = good_observation_function(state, rng=rng)
        kind = mode['observation']
        if kind == 'type':
            observation.grid[Position(0, 0)] = NoneGridObject()
        elif kind == 'color':
            observation.grid[Position(0, 0)] = Key(Color.GREEN)
        elif kind == 'position':
            observation.agent.position = Position(3, 1)
        elif kind == 'held':
            observation.agent.grid_object = Hidden()
        elif kind == 'shape':
            observation = Observation(
                Grid.from_shape((3, 5)), Agent(Position(2, 2), Orientation.F)
            )
        return observation

    def reward_function(state, action, next_state, *, rng=None):
        calls.append(('reward', action))
        return 0.25

    def termination_function(state, action, next_state, *, rng=None):
        calls.append(('termination', action))
        return False

    env = GridWorld(
        StateSpace(shape, types, colors),
        ActionSpace([Action.MOVE_FORWARD, Action.MOVE_RIGHT, Action.PICK_N_DROP]),
        view,
        reset_function,
        transition_function,
        observation_function,
        reward_function,
        termination_function,
    )
    outside_actions = [
        Action.MOVE_LEFT, Action.TURN_LEFT, Action.ACTUATE, None, 0, 'PICK_N_DROP',
    ]
    ACTION_MESSAGE = 'action {action} does not satisfy action-space'

    for debug in (True, False):
        reset_gv_debug(debug)
        for k in mode:
            mode[k] = None
        env.set_seed(11)
        rng0 = env._rng
        state_before_rng = rng_state(rng0)

        # state before reset
        env._state = None
        try:
            env.state
        except RuntimeError:
            pass
        else:
            check(False, 'state available before reset')

        # -- all good
        calls.clear()
        env.reset()
        check(calls == [('reset', rng0)], calls)
        s0 = env.state
        calls.clear()
        next_state, reward, terminal = env.functional_step(s0, Action.PICK_N_DROP)
        check(
            calls == [
                ('transition', Action.PICK_N_DROP, rng0),
                ('reward', Action.PICK_N_DROP),
                ('termination', Action.PICK_N_DROP),
            ],
            calls,
        )
        check(plain_state(s0) == plain_state(good_state()))
        check(plain_obj(next_state.agent.grid_object) == ('Key', 'RED'))
        check(reward == 0.25 and terminal is False)
        calls.clear()
        ob1 = env.observation
        ob2 = env.observation
        check(ob1 is ob2 and calls == [('observation', rng0)], calls)
        n += 3

        # -- invalid actions (always checked, also without debugging)
        for bad_action in outside_actions:
            calls.clear()
            expect_value_error(
                lambda: env.functional_step(s0, bad_action), ACTION_MESSAGE,
                f'guards debug={debug} action {bad_action!r}',
            )
            expect_value_error(
                lambda: env.step(bad_action), ACTION_MESSAGE,
                f'guards debug={debug} action {bad_action!r} (step)',
            )
            check(calls == [], calls)
            check(env.state is s0)
            check(env.observation is ob1)  # memo not invalidated by failed step
            check(plain_state(s0) == plain_state(good_state()))
            n += 2

        # -- invalid input state
        for kind in BAD_KINDS:
            sb = bad_state(kind)
            snapshot = plain_state(sb)
            label = f'guards debug={debug} input state {kind}'
            calls.clear()
            if debug:
                expect_value_error(
                    lambda: env.functional_step(sb, Action.MOVE_RIGHT),
                    'state does not satisfy state_space', label,
                )
                check(calls == [], label, calls)
                # the state is checked before the action
                expect_value_error(
                    lambda: env.functional_step(sb, Action.ACTUATE),
                    'state does not satisfy state_space', label,
                )
            else:
                # no state checks at all, but the action is still checked
                expect_value_error(
                    lambda: env.functional_step(sb, Action.ACTUATE),
                    ACTION_MESSAGE, label,
                )
                check(calls == [], label, calls)
            check(plain_state(sb) == snapshot, label)
            n += 1

        # -- transition function leaving the space
        for kind in BAD_KINDS:
            mode['transition'] = kind
            label = f'guards debug={debug} next state {kind}'
            calls.clear()
            if debug:
                expect_value_error(
                    lambda: env.functional_step(s0, Action.MOVE_RIGHT),
                    'next_state does not satisfy state_space', label,
                )
                # reward and termination functions are not reached
                check(calls == [('transition', Action.MOVE_RIGHT, rng0)], label, calls)
                expect_value_error(
                    lambda: env.step(Action.MOVE_RIGHT),
                    'next_state does not satisfy state_space', label,
                )
                check(env.state is s0, label)
            else:
                ns, r, t = env.functional_step(s0, Action.MOVE_RIGHT)
                check(
                    calls == [
                        ('transition', Action.MOVE_RIGHT, rng0),
                        ('reward', Action.MOVE_RIGHT),
                        ('termination', Action.MOVE_RIGHT),
                    ],
                    label, calls,
                )
                check(not env.state_space.contains(ns), label)
            check(plain_state(s0) == plain_state(good_state()), label)
            mode['transition'] = None
            n += 1

        # -- reset function leaving the space
        for kind in BAD_KINDS:
            mode['reset'] = kind
            label = f'guards debug={debug} reset {kind}'
            if debug:
                expect_value_error(
                    env.functional_reset, 'state does not satisfy state_space', label
                )
                expect_value_error(
                    env.reset, 'state does not satisfy state_space', label
                )
                check(env.state is s0, label)
            else:
                check(not env.state_space.contains(env.functional_reset()), label)
            mode['reset'] = None
            n += 1

        # -- observation function leaving the space
        for kind in BAD_KINDS:
            mode['observation'] = kind
            label = f'guards debug={debug} observation {kind}'
            if debug:
                expect_value_error(
                    lambda: env.functional_observation(s0),
                    'observation does not satisfy observation_space', label,
                )
            else:
                check(
                    not env.observation_space.contains(env.functional_observation(s0)),
                    label,
                )
            mode['observation'] = None
            n += 1

        # none of the above consumed random numbers or replaced the generator
        check(env._rng is rng0 and rng_state(rng0) == state_before_rng)

    reset_gv_debug(True)
    return n



# ---------------------------------------------------------------------------
# 4. whole environments
# ---------------------------------------------------------------------------


def make_env(reset_function, shape, transition_names, observation_name, view_shape, actions):
    state_space = StateSpace(shape, ALL_TYPES, ALL_COLORS)
    observation_space = ObservationSpace(view_shape, ALL_TYPES, ALL_COLORS)
    action_space = ActionSpace(actions)
    transition_function = transition_fs.factory(
        'chain', transition_functions=[LIBS[o] for o in transition_names]
    )
    observation_function = observation_fs.factory(
        observation_name, area=observation_space.area
    )
    reward_function = reward_fs.factory(
        'reduce_sum',
        reward_functions=[
            reward_fs.factory('living_reward', reward=-0.05),
            reward_fs.factory('reach_exit', reward_on=5.0, reward_off=0.0),
            reward_fs.factory('bump_moving_obstacle', reward=-1.0),
            reward_fs.factory('bump_into_wall', reward=-0.5),
            reward_fs.factory('actuate_door', reward_open=1.0, reward_close=-1.0),
            reward_fs.factory(
                'pickndrop', object_type=Key, reward_pick=0.5, reward_drop=-0.5
            ),
        ],
    )
    termination_function = terminating_fs.factory(
        'reduce_any',
        terminating_functions=[
            terminating_fs.factory('reach_exit'),
            terminating_fs.factory('bump_moving_obstacle'),
        ],
    )
    return GridWorld(
        state_space,
        action_space,
        observation_space,
        reset_function,
        transition_function,
        observation_function,
        reward_function,
        termination_function,
    )


def plain_observation_ok(observation, view_shape, type_names, color_names):
    """independent observation-space predicate"""
    g = observation.grid
    if (len(g.objects), len(g.objects[0])) != view_shape:
        return False
    for row in g.objects:
        if len(row) != view_shape[1]:
            return False
        for o in row:
            p = plain_obj(o)
            if p[0] not in type_names | {'Hidden'}:
                return False
            if obj_color_name(p) not in color_names | {'NONE'}:
                return False
    ay, ax = observation.agent.position.y, observation.agent.position.x
    if not (0 <= ay < view_shape[0] and 0 <= ax < view_shape[1]):
        return False
    held = plain_obj(observation.agent.grid_object)
    if held[0] not in type_names | {'NoneGridObject'}:
        return False
    return obj_color_name(held) in color_names | {'NONE'}


def sweep_envs():
    type_names = {t.__name__ for t in ALL_TYPES}
    color_names = {c.name for c in ALL_COLORS}
    full = ['move_agent', 'turn_agent', 'pickndrop', 'actuate_door', 'actuate_box', 'teleport', 'move_obstacles']
    all_actions = list(Action)
    configs = [
        ('empty', dict(shape=Shape(5, 6), random_agent=True, random_exit=True), Shape(5, 6)),
        ('keydoor', dict(shape=Shape(6, 8)), Shape(6, 8)),
        ('dynamic_obstacles', dict(shape=Shape(7, 7), num_obstacles=4, random_agent=True), Shape(7, 7)),
        ('teleport', dict(shape=Shape(6, 6)), Shape(6, 6)),
        ('crossing', dict(shape=Shape(7, 7), num_rivers=2, object_type=Wall), Shape(7, 7)),
        ('rooms', dict(shape=Shape(9, 9), layout=(2, 2)), Shape(9, 9)),
        ('memory', dict(shape=Shape(5, 7), colors={Color.RED, Color.GREEN}), Shape(5, 7)),
    ]
    observation_names = ['fully_transparent', 'partially_occluded', 'raytracing', 'stochastic_raytracing']
    view_shapes = [Shape(3, 3), Shape(7, 7), Shape(2, 5)]
    n = 0
    for ci, (reset_name, kwargs, shape) in enumerate(configs):
        reset_function = reset_fs.factory(reset_name, **kwargs)
        for oi, observation_name in enumerate(observation_names):
            view_shape = view_shapes[(ci + oi) % len(view_shapes)]
            env = make_env(reset_function, shape, full, observation_name, view_shape, all_actions)
            for seed in range(3):
                env.set_seed(seed)
                env.reset()
                walk = np.random.default_rng(99 + seed)
                for t in range(60):
                    state = env.state
                    before = plain_state(state)
                    check(model_in_space(before, shape.as_tuple, type_names, color_names))
                    check(env.state_space.contains(state))

                    observation = env.functional_observation(state)
                    label = f'env {reset_name} {observation_name} seed={seed} t={t}'
                    check(
                        plain_observation_ok(observation, view_shape.as_tuple, type_names, color_names),
                        label, 'observation (model)',
                    )
                    check(env.observation_space.contains(observation), label, 'observation (library)')
                    check(plain_state(state) == before, label, 'observation modified state')

                    action = all_actions[int(walk.integers(len(all_actions)))]

                    # functional step from the same state with a known seed
                    # is compared with the reference model
                    env.set_seed(5000 + t)
                    rng_ref = np.random.default_rng(5000 + t)
                    next_state, reward, terminal = env.functional_step(state, action)
                    model = copy_model(before)
                    for o in full:
                        REFS[o](model, action.name, rng_ref)
                    got = plain_state(next_state)
                    check(got == model, label, action.name, 'got', got, 'expected', model)
                    check(rng_state(env._rng) == rng_state(rng_ref), label, 'rng')
                    check(plain_state(state) == before, label, 'input state modified')
                    check(model_in_space(got, shape.as_tuple, type_names, color_names), label)
                    check(env.state_space.contains(next_state), label)
                    check(type(reward) is float and math.isfinite(reward), label, reward)
                    check(type(terminal) is bool, label, terminal)

                    # invalid actions: rejected, nothing changes
                    for bad in (None, 3, 'MOVE_FORWARD', Orientation.F):
                        try:
                            env.functional_step(state, bad)
                        except ValueError:
                            pass
                        else:
                            check(False, label, 'invalid action accepted', bad)
                        check(plain_state(state) == before, label)
                        check(plain_state(env.state) == before, label)
                        check(rng_state(env._rng) == rng_state(rng_ref), label)

                    reward2, terminal2 = env.step(action)
                    check(type(reward2) is float and math.isfinite(reward2), label)
                    check(type(terminal2) is bool, label)
                    n += 1
                    if terminal2:
                        env.reset()

    # restricted action space: actions outside are rejected
    env = make_env(
        reset_fs.factory('keydoor', shape=Shape(6, 8)), Shape(6, 8), full,
        'fully_transparent', Shape(3, 3), [Action.MOVE_FORWARD, Action.TURN_LEFT],
    )
    env.set_seed(0)
    env.reset()
    before = plain_state(env.state)
    for action in Action:
        if action in (Action.MOVE_FORWARD, Action.TURN_LEFT):
            continue
        try:
            env.step(action)
        except ValueError:
            pass
        else:
            check(False, 'action outside restricted space accepted', action)
        check(plain_state(env.state) == before)
    return n


def main():
    n1 = sweep_state_space()
    print(f'state-space membership cases: {n1}')
    n2 = sweep_observation_space()
    print(f'observation-space membership cases: {n2}')
    n3 = sweep_guards()
    print(f'GridWorld guard cases: {n3}')
    n4 = sweep_envs()
    print(f'environment steps: {n4}')
    print(f'all {N_CHECKS} checks passed')


if __name__ == '__main__':
    main()
